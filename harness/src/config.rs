//! `config` correspondence stream (C07, C19): configuration verification on the boundary grid of
//! all 17 fields (each at min-1, min, max, max+1, 0, extreme; pairs in thorough mode), accepted grid
//! points encoded against a probe corpus; TOML serialisation / parsing with every kind of omitted
//! field, compared with the generated Lean model of the serde shape.
//!   config id=… cls=… kind=verify|toml exp=0|1 par=0|1 cfg=<fields> impl_verify=ok|err[:path] probe=ok|fail:… o_c07=…
//!   config id=… kind=toml … ser=<tval> doc=<tval> impl_parsed=<fields>|err o_c19=…

use crate::gen::{self, Cfg};
use crate::stream::{claxon_decode, encode, stream_bytes};
use crate::util::{catch, Rng};
use flacenc::config;
use flacenc::error::Verify;

const EXP: bool = cfg!(feature = "experimental");
static HUNG: std::sync::atomic::AtomicBool = std::sync::atomic::AtomicBool::new(false);

pub fn from_encoder(e: &config::Encoder) -> Cfg {
    let mut c = Cfg::default();
    c.block_size = e.block_size;
    c.multithread = e.multithread;
    c.workers = e.workers.map_or(0, std::num::NonZeroUsize::get);
    c.use_leftside = e.stereo_coding.use_leftside;
    c.use_rightside = e.stereo_coding.use_rightside;
    c.use_midside = e.stereo_coding.use_midside;
    c.use_constant = e.subframe_coding.use_constant;
    c.use_fixed = e.subframe_coding.use_fixed;
    c.use_lpc = e.subframe_coding.use_lpc;
    c.fixed_max_order = e.subframe_coding.fixed.max_order;
    match e.subframe_coding.fixed.order_sel {
        config::OrderSel::BitCount => {
            c.order_sel_bitcount = true;
            c.partitions = 0;
        }
        config::OrderSel::ApproxEnt { partitions } => {
            c.order_sel_bitcount = false;
            c.partitions = partitions;
        }
        _ => {}
    }
    c.lpc_order = e.subframe_coding.qlpc.lpc_order;
    c.quant_precision = e.subframe_coding.qlpc.quant_precision;
    c.use_direct_mse = e.subframe_coding.qlpc.use_direct_mse;
    c.mae_steps = e.subframe_coding.qlpc.mae_optimization_steps;
    match e.subframe_coding.qlpc.window {
        config::Window::Rectangle => {
            c.window_rect = true;
            c.alpha_bits = 0;
        }
        config::Window::Tukey { alpha } => {
            c.window_rect = false;
            c.alpha_bits = canon_bits(alpha);
        }
        _ => {}
    }
    c.max_parameter = e.subframe_coding.prc.max_parameter;
    c
}

/// All NaNs are rendered as one pattern (payloads do not survive text round trips).
fn canon_bits(x: f32) -> u32 {
    if x.is_nan() {
        0x7FC0_0000
    } else {
        x.to_bits()
    }
}

/// Documented ranges, written from the documentation (independent of `verify`).
fn in_range(c: &Cfg) -> bool {
    let alpha = f32::from_bits(c.alpha_bits);
    (32..=32767).contains(&c.block_size)
        && c.fixed_max_order <= 4
        && (c.order_sel_bitcount || (1..=64).contains(&c.partitions))
        && (1..=24).contains(&c.lpc_order)
        && (1..=15).contains(&c.quant_precision)
        && c.max_parameter <= 14
        && (c.window_rect || (!alpha.is_nan() && (0.0..=1.0).contains(&alpha)))
        && (EXP || (!c.use_direct_mse && c.mae_steps == 0))
}

fn probe_corpus(rng: &mut Rng) -> Vec<gen::Pcm> {
    let mut v = vec![];
    for (fam, ch, bps, len) in [
        ("sine_noise", 1usize, 16usize, 150usize), ("sine_noise", 2, 16, 200), ("silence", 2, 16, 100), ("fullscale", 1, 24, 130),
        ("alt_fullscale", 2, 24, 128), ("white", 3, 8, 70), ("heavy_tail", 1, 20, 140), ("anti_stereo", 2, 24, 140),
        ("impulses", 1, 12, 129), ("dc", 8, 16, 64), ("ramp", 1, 16, 1), ("loud_silent_mix", 1, 24, 260),
    ] {
        v.push(gen::pcm(rng, fam, ch, bps, 44100, len));
    }
    v
}

fn probe(cfg: &Cfg, corpus: &[gen::Pcm]) -> String {
    // block sizes of grid points are used as they are except that long blocks are exercised with
    // the corpus lengths (inputs shorter than one block)
    for (i, p) in corpus.iter().enumerate() {
        for mode in ["st", "mt:2"] {
            let (c2, p2) = (cfg.clone(), p.clone());
            // an accepted configuration must not hang either: every probe runs under a watchdog
            let (tx, rx) = std::sync::mpsc::channel();
            std::thread::spawn(move || {
                let r = catch(move || encode(&c2, &p2, mode, "mem").map(|s| stream_bytes(&s)));
                let _ = tx.send(r);
            });
            let r = match rx.recv_timeout(std::time::Duration::from_secs(10)) {
                Ok(r) => r,
                Err(_) => return format!("fail:hang_on_probe_{i}_{mode}"),
            };
            match r {
                Err(m) => return format!("fail:panic_on_probe_{i}_{mode}_{m}"),
                Ok(Err(e)) => return format!("fail:error_on_probe_{i}_{mode}_{e}"),
                Ok(Ok(bytes)) => match claxon_decode(&bytes) {
                    Ok((samples, ..)) if samples == p.data => {}
                    Ok(_) => return format!("fail:lossy_on_probe_{i}_{mode}"),
                    Err(e) => return format!("fail:undecodable_probe_{i}_{mode}_{}", e.replace([' ', '"'], "_")),
                },
            }
        }
    }
    "ok".to_string()
}

fn verify_record(id: &str, class: &str, cfg: &Cfg, corpus: &[gen::Pcm], with_probe: bool) -> String {
    let enc = cfg.to_encoder();
    let res = catch(move || enc.into_verified().map(|_| ()).map_err(|e| e.1.path()));
    let (impl_s, accepted) = match &res {
        Ok(Ok(())) => ("ok".to_string(), true),
        Ok(Err(p)) => (format!("err:{}", p.replace(' ', "_")), false),
        Err(_) => ("panic".to_string(), false),
    };
    let expected = in_range(cfg);
    let hung = HUNG.load(std::sync::atomic::Ordering::SeqCst);
    let pr = if accepted && with_probe && !hung { probe(cfg, corpus) } else { "skipped".to_string() };
    if pr.starts_with("fail:hang") {
        HUNG.store(true, std::sync::atomic::Ordering::SeqCst);
    }
    let o = if impl_s == "panic" {
        "fail:verify_panicked".to_string()
    } else if accepted != expected {
        format!("fail:verify_{}_but_documented_ranges_say_{}", if accepted { "accepts" } else { "rejects" }, if expected { "valid" } else { "invalid" })
    } else if pr.starts_with("fail") {
        pr.clone()
    } else {
        "ok".to_string()
    };
    format!(
        "config id={id} cls=verify|{class} kind=verify exp={} par=1 cfg={} impl_verify={impl_s} probe={pr} o_c07={o} o_c19=ok",
        EXP as u8, cfg.render()
    )
}

// ---------------------------------------------------------------------------- TOML

#[cfg(feature = "serde")]
mod tomlpart {
    use super::*;
    use toml::Value;

    /// Canonical text of a TOML value: `{k=v,k=v}` `i<int>` `b0|b1` `f<f32 bits>` `s<text>`.
    pub fn render(v: &Value) -> String {
        match v {
            Value::Integer(n) => format!("i{n}"),
            Value::Boolean(b) => format!("b{}", *b as u8),
            Value::Float(x) => format!("f{}", canon_bits(*x as f32)),
            Value::String(s) => format!("s{s}"),
            Value::Table(t) => {
                // serde's struct field order is not kept by toml::Value (BTreeMap): sorted by key
                let items: Vec<String> = t.iter().map(|(k, v)| format!("{k}={}", render(v))).collect();
                format!("{{{}}}", items.join(","))
            }
            _ => "?".to_string(),
        }
    }

    /// All key paths of a table, depth first.
    fn paths(v: &Value, prefix: &mut Vec<String>, out: &mut Vec<Vec<String>>) {
        if let Value::Table(t) = v {
            for (k, c) in t {
                prefix.push(k.clone());
                out.push(prefix.clone());
                paths(c, prefix, out);
                prefix.pop();
            }
        }
    }

    fn remove_path(v: &mut Value, path: &[String]) {
        if let Value::Table(t) = v {
            if path.len() == 1 {
                t.remove(&path[0]);
            } else if let Some(c) = t.get_mut(&path[0]) {
                remove_path(c, &path[1..]);
            }
        }
    }

    /// `cfg` with the fields under the removed paths reset to their documented defaults
    /// (written from the documentation, independent of the crate's `Default` impls).
    fn expected_after(cfg: &Cfg, removed: &[Vec<String>]) -> Option<Cfg> {
        let mut c = cfg.clone();
        let d = Cfg::default_documented();
        for p in removed {
            let s: Vec<&str> = p.iter().map(String::as_str).collect();
            match s.as_slice() {
                ["block_size"] => c.block_size = d.block_size,
                ["multithread"] => c.multithread = d.multithread,
                ["workers"] => c.workers = 0,
                ["stereo_coding"] => { c.use_leftside = true; c.use_rightside = true; c.use_midside = true; }
                ["stereo_coding", "use_leftside"] => c.use_leftside = true,
                ["stereo_coding", "use_rightside"] => c.use_rightside = true,
                ["stereo_coding", "use_midside"] => c.use_midside = true,
                ["subframe_coding"] => {
                    let keep = (c.block_size, c.multithread, c.workers, c.use_leftside, c.use_rightside, c.use_midside);
                    c = d.clone();
                    (c.block_size, c.multithread, c.workers, c.use_leftside, c.use_rightside, c.use_midside) = keep;
                }
                ["subframe_coding", "use_constant"] => c.use_constant = true,
                ["subframe_coding", "use_fixed"] => c.use_fixed = true,
                ["subframe_coding", "use_lpc"] => c.use_lpc = true,
                ["subframe_coding", "fixed"] => { c.fixed_max_order = 4; c.order_sel_bitcount = false; c.partitions = 16; }
                ["subframe_coding", "fixed", "max_order"] => c.fixed_max_order = 4,
                ["subframe_coding", "fixed", "order_sel"] => { c.order_sel_bitcount = false; c.partitions = 16; }
                ["subframe_coding", "fixed", "order_sel", "type"] => return None, // tag missing: error
                ["subframe_coding", "fixed", "order_sel", "partitions"] => c.partitions = 16,
                ["subframe_coding", "qlpc"] => { c.lpc_order = 10; c.quant_precision = 15; c.use_direct_mse = false; c.mae_steps = 0; c.window_rect = false; c.alpha_bits = 0.4f32.to_bits(); }
                ["subframe_coding", "qlpc", "lpc_order"] => c.lpc_order = 10,
                ["subframe_coding", "qlpc", "quant_precision"] => c.quant_precision = 15,
                ["subframe_coding", "qlpc", "use_direct_mse"] => c.use_direct_mse = false,
                ["subframe_coding", "qlpc", "mae_optimization_steps"] => c.mae_steps = 0,
                ["subframe_coding", "qlpc", "window"] => { c.window_rect = false; c.alpha_bits = 0.4f32.to_bits(); }
                ["subframe_coding", "qlpc", "window", "type"] => return None,
                ["subframe_coding", "qlpc", "window", "alpha"] => c.alpha_bits = 0.4f32.to_bits(),
                ["subframe_coding", "prc"] => c.max_parameter = 14,
                ["subframe_coding", "prc", "max_parameter"] => c.max_parameter = 14,
                _ => {}
            }
        }
        if c.order_sel_bitcount {
            c.partitions = 0;
        }
        if c.window_rect {
            c.alpha_bits = 0;
        }
        Some(c)
    }

    pub fn toml_record(id: &str, class: &str, cfg: &Cfg, rng: &mut Rng, nremove: usize) -> String {
        let enc = cfg.to_encoder();
        let head = format!("config id={id} cls=toml|{class}|r{nremove} kind=toml exp={} par=1 cfg={}", EXP as u8, cfg.render());
        let ser = match Value::try_from(&enc) {
            Ok(v) => v,
            Err(e) => {
                let why = if cfg.has_huge_integer() { "roundtrip_integer_above_i64_max".to_string() } else { format!("cannot_serialise_{}", e.to_string().replace(' ', "_")) };
                return format!("{head} ser=err impl_parsed=err o_c07=ok o_c19=fail:{why}");
            }
        };
        // text round trip of the full document
        let text = toml::to_string(&enc);
        let rt = match &text {
            Err(e) => format!("fail:to_string_{}", e.to_string().replace(' ', "_")),
            Ok(t) => match toml::from_str::<config::Encoder>(t) {
                Err(e) => {
                    if cfg.has_huge_integer() {
                        "fail:roundtrip_integer_above_i64_max".to_string()
                    } else {
                        format!("fail:from_str_{}", e.to_string().replace([' ', '\n'], "_"))
                    }
                }
                Ok(back) => {
                    let mut want = cfg.clone();
                    want.canon();
                    if from_encoder(&back) == want {
                        // verification commutes with the round trip
                        if back.verify().is_ok() == cfg.to_encoder().verify().is_ok() { "ok".to_string() } else { "fail:verify_differs_after_roundtrip".to_string() }
                    } else {
                        "fail:roundtrip_changed_the_configuration".to_string()
                    }
                }
            },
        };
        // omit a random subset of key paths
        let mut all = vec![];
        paths(&ser, &mut vec![], &mut all);
        let mut doc = ser.clone();
        let mut removed: Vec<Vec<String>> = vec![];
        for _ in 0..nremove {
            if all.is_empty() {
                break;
            }
            let p = all[rng.below(all.len() as u64) as usize].clone();
            remove_path(&mut doc, &p);
            removed.push(p);
        }
        // keys under a removed section are gone as well; order matters for `expected_after`: sections last
        let all_removed = removed.clone();
        removed.retain(|p| !all_removed.iter().any(|q| q.len() < p.len() && p[..q.len()] == q[..]));
        removed.sort_by_key(|p| std::cmp::Reverse(p.len()));
        let doc_text = toml::to_string(&doc).unwrap_or_default();
        // the documented defaults do not depend on the process environment: half of the documents are
        // parsed with the worker-count override variable set
        let with_env = id.len() % 2 == 0;
        if with_env {
            std::env::set_var("FLACENC_WORKERS", "3");
        }
        let parsed = toml::from_str::<config::Encoder>(&doc_text);
        if with_env {
            std::env::remove_var("FLACENC_WORKERS");
        }
        let expected = expected_after(cfg, &removed).map(|mut c| {
            c.canon();
            c
        });
        let (impl_parsed, omit) = match (&parsed, &expected) {
            (Ok(p), Some(e)) => {
                let got = from_encoder(p);
                (got.render(), if &got == e { "ok".to_string() } else { format!("fail:omitted_fields_expected_{}", e.render()) })
            }
            (Ok(p), None) => (from_encoder(p).render(), "fail:document_without_a_type_tag_accepted".to_string()),
            (Err(_), None) => ("err".to_string(), "ok".to_string()),
            (Err(e), Some(_)) => {
                if cfg.has_huge_integer() {
                    ("err".to_string(), "fail:roundtrip_integer_above_i64_max".to_string())
                } else {
                    ("err".to_string(), format!("fail:document_with_omitted_fields_rejected_{}", e.to_string().replace([' ', '\n'], "_")))
                }
            }
        };
        let o19 = if rt != "ok" { rt } else { omit };
        format!("{head} ser={} doc={} impl_parsed={impl_parsed} o_c07=ok o_c19={o19}", render(&ser), render(&doc))
    }
}

impl Cfg {
    /// The documented defaults (module documentation of `config.rs` / constants documentation).
    pub fn default_documented() -> Cfg {
        let mut c = Cfg::default();
        c.multithread = true; // `par` feature is on in every harness build that has serde
        c
    }
    /// Normal form for comparisons: fields that do not exist in the chosen enum variant are zero.
    pub fn canon(&mut self) {
        if self.order_sel_bitcount {
            self.partitions = 0;
        }
        if self.window_rect {
            self.alpha_bits = 0;
        } else {
            self.alpha_bits = canon_bits(f32::from_bits(self.alpha_bits));
        }
    }
    pub fn has_huge_integer(&self) -> bool {
        [self.block_size, self.workers, self.fixed_max_order, self.partitions, self.lpc_order, self.quant_precision, self.mae_steps, self.max_parameter]
            .iter()
            .any(|v| *v > i64::MAX as usize)
    }
}

pub fn generate(seed: u64, cases: usize, thorough: bool, out: &mut dyn FnMut(String)) {
    let mut rng = Rng::new(seed ^ 0xcf9);
    let corpus = probe_corpus(&mut rng);
    let mut n = 0usize;
    let mut id = |p: &str| {
        n += 1;
        format!("{p}{n}")
    };
    // ---- corpus: F2 witnesses (un-chained verifies) and F13 (Tukey without alpha), K1
    {
        let mut c = Cfg::default();
        c.partitions = 0;
        out(verify_record("corpus-f2-partitions0", "corpus", &c, &corpus, true));
        let mut c = Cfg::default();
        c.fixed_max_order = 7;
        out(verify_record("corpus-f2-maxorder7", "corpus", &c, &corpus, true));
        let mut c = Cfg::default();
        c.partitions = 1000;
        out(verify_record("corpus-f2-partitions1000", "corpus", &c, &corpus, true));
    }
    // ---- verification grid: every field at its boundary values, others default
    let usize_vals = |min: usize, max: usize| -> Vec<usize> {
        let mut v = vec![0, 1, min.saturating_sub(1), min, min + 1, max.saturating_sub(1), max, max + 1, 255, 256, 65535, 65536, (1usize << 32) + max, usize::MAX];
        v.sort_unstable();
        v.dedup();
        v
    };
    let alphas: Vec<u32> = vec![
        0.0f32.to_bits(), (-0.0f32).to_bits(), 1.0f32.to_bits(), 0.4f32.to_bits(), f32::from_bits(1.0f32.to_bits() + 1).to_bits(), f32::from_bits(1.0f32.to_bits() - 1).to_bits(),
        f32::MIN_POSITIVE.to_bits(), 1, (-f32::MIN_POSITIVE).to_bits(), (-1.0f32).to_bits(), 2.0f32.to_bits(), f32::INFINITY.to_bits(), f32::NEG_INFINITY.to_bits(),
        f32::NAN.to_bits(), 0x7F80_0001, 0xFFC0_0000, 1e-6f32.to_bits(), 0.40001f32.to_bits(),
    ];
    type Setter = Box<dyn Fn(&mut Cfg, usize)>;
    let fields: Vec<(&str, Vec<usize>, Setter)> = vec![
        ("block_size", usize_vals(32, 32767), Box::new(|c, v| c.block_size = v)),
        ("fixed_max_order", usize_vals(0, 4), Box::new(|c, v| c.fixed_max_order = v)),
        ("partitions", usize_vals(1, 64), Box::new(|c, v| c.partitions = v)),
        ("lpc_order", usize_vals(1, 24), Box::new(|c, v| c.lpc_order = v)),
        ("quant_precision", usize_vals(1, 15), Box::new(|c, v| c.quant_precision = v)),
        ("max_parameter", usize_vals(0, 14), Box::new(|c, v| c.max_parameter = v)),
        ("mae_steps", vec![0, 1, 5, usize::MAX], Box::new(|c, v| c.mae_steps = v)),
        ("workers", vec![0, 1, 3, 64], Box::new(|c, v| c.workers = v)),
        ("alpha", alphas.iter().map(|a| *a as usize).collect(), Box::new(|c, v| c.alpha_bits = v as u32)),
        ("bools", (0..512).collect(), Box::new(|c, v| {
            c.multithread = v & 1 != 0;
            c.use_leftside = v & 2 != 0;
            c.use_rightside = v & 4 != 0;
            c.use_midside = v & 8 != 0;
            c.use_constant = v & 16 != 0;
            c.use_fixed = v & 32 != 0;
            c.use_lpc = v & 64 != 0;
            c.use_direct_mse = v & 128 != 0;
            c.window_rect = v & 256 != 0;
        })),
        ("order_sel", vec![0, 1], Box::new(|c, v| c.order_sel_bitcount = v == 1)),
    ];
    for (name, vals, set) in &fields {
        for &v in vals {
            if *name == "bools" && !thorough && v % 37 != 0 && v != 511 && v != 128 {
                continue;
            }
            let mut c = Cfg::default();
            c.block_size = 64; // keeps the probe encodes short; the block_size field has its own row
            set(&mut c, v);
            // the probe corpus is only worth its time on boundary-valid points
            let with_probe = *name != "bools" || v % 74 == 0 || thorough;
            out(verify_record(&id("v"), &format!("{name}"), &c, &corpus, with_probe));
        }
    }
    // pairs of fields at boundary values
    let pair_budget = if thorough { 4000 } else { cases };
    for _ in 0..pair_budget {
        let a = rng.below(fields.len() as u64) as usize;
        let b = rng.below(fields.len() as u64) as usize;
        let mut c = Cfg::default();
        c.block_size = 64;
        let va = *rng.pick(&fields[a].1);
        let vb = *rng.pick(&fields[b].1);
        (fields[a].2)(&mut c, va);
        (fields[b].2)(&mut c, vb);
        let probe_it = rng.chance(if thorough { 30 } else { 8 });
        out(verify_record(&id("p"), &format!("pair|{}|{}", fields[a].0, fields[b].0), &c, &corpus, probe_it));
    }
    // ---- TOML
    #[cfg(feature = "serde")]
    {
        // corpus: F13 (Tukey without alpha -> 0.4), K1 (integer above i64::MAX)
        let c = Cfg::default();
        out(tomlpart::toml_record("corpus-default", "corpus", &c, &mut rng, 0));
        let mut k1 = Cfg::default();
        k1.block_size = usize::MAX;
        out(tomlpart::toml_record("corpus-k1-usize-max", "corpus", &k1, &mut rng, 0));
        for i in 0..(if thorough { 6000 } else { cases * 3 }) {
            let mut c = if i % 3 == 0 { gen::random_valid_cfg(&mut rng) } else { Cfg::default() };
            if i % 3 != 0 {
                // arbitrary (also invalid) values: the round trip must not depend on validity
                let f = rng.below(fields.len() as u64) as usize;
                let v = *rng.pick(&fields[f].1);
                if !(fields[f].0 != "alpha" && v > i64::MAX as usize) {
                    (fields[f].2)(&mut c, v);
                }
            }
            c.multithread = rng.chance(50);
            c.workers = *rng.pick(&[0usize, 0, 1, 4]);
            let nremove = match i % 5 {
                0 => 0,
                1 => 1,
                2 => 2,
                3 => 1 + rng.below(6) as usize,
                _ => rng.below(12) as usize,
            };
            out(tomlpart::toml_record(&id("t"), if i % 3 == 0 { "valid" } else { "boundary" }, &c, &mut rng, nremove));
        }
    }
    out("#exhaustive single-field boundary grid".to_string());
}
