//! `api` correspondence stream (C17): every public entry point on a grid of boundary and wrap-around
//! argument values, others valid. One record per call:
//!   api id=… fn=<name> a=<args,comma separated> impl=ok|err|panic|hang o_c17=ok|fail:…
//! `o_c17` is the direct oracle: written from the property text (not from the code) — it demands an
//! error for every argument outside the supported domain and forbids panics/hangs everywhere.

use crate::gen::Cfg;
use crate::stream::le_bytes;
use crate::util::{catch, Rng};
use flacenc::component::StreamInfo;
use flacenc::error::{SourceError, Verify};
use flacenc::source::{Context, Fill, FrameBuf, Source};
use std::sync::mpsc;
use std::time::Duration;

const VALID_BPS: [usize; 5] = [8, 12, 16, 20, 24];

fn wrap_values(valid: usize) -> Vec<usize> {
    vec![(1 << 8) + valid, (1 << 16) + valid, (1usize << 32) + valid, usize::MAX, usize::MAX - 1, (1usize << 63) + valid]
}

fn grid(base: &[usize], valid: usize) -> Vec<usize> {
    let mut v = base.to_vec();
    v.extend(wrap_values(valid));
    v.sort_unstable();
    v.dedup();
    v
}

/// Runs `f` on a helper thread with a watchdog: `hang` if it does not return within 20 s.
fn guarded<F: FnOnce() -> bool + Send + std::panic::UnwindSafe + 'static>(f: F) -> &'static str {
    let (tx, rx) = mpsc::channel();
    std::thread::spawn(move || {
        let r = catch(f);
        let _ = tx.send(r);
    });
    match rx.recv_timeout(Duration::from_secs(20)) {
        Ok(Ok(true)) => "ok",
        Ok(Ok(false)) => "err",
        Ok(Err(_)) => "panic",
        Err(_) => "hang",
    }
}

fn direct<F: FnOnce() -> bool + std::panic::UnwindSafe>(f: F) -> &'static str {
    match catch(f) {
        Ok(true) => "ok",
        Ok(false) => "err",
        Err(_) => "panic",
    }
}

fn verdict(res: &str, must_err: bool) -> String {
    match res {
        "panic" => "fail:panic".to_string(),
        "hang" => "fail:hang".to_string(),
        "ok" if must_err => "fail:accepted_argument_outside_the_supported_domain".to_string(),
        _ => "ok".to_string(),
    }
}

/// Source with arbitrary declared parameters delivering `data` (interleaved).
struct RawSource {
    ch: usize,
    bps: usize,
    rate: usize,
    data: Vec<i32>,
    pos: usize,
    bytes_mode: Option<usize>,
}

impl Source for RawSource {
    fn channels(&self) -> usize {
        self.ch
    }
    fn bits_per_sample(&self) -> usize {
        self.bps
    }
    fn sample_rate(&self) -> usize {
        self.rate
    }
    fn read_samples<F: Fill>(&mut self, block_size: usize, dest: &mut F) -> Result<usize, SourceError> {
        let ch = self.ch.clamp(1, 64);
        let begin = self.pos.min(self.data.len());
        let end = self.pos.saturating_add(block_size.saturating_mul(ch)).min(self.data.len());
        let src = &self.data[begin..end];
        match self.bytes_mode {
            Some(k) => dest.fill_le_bytes(&le_bytes(src, k.clamp(1, 4)), k)?,
            None => dest.fill_interleaved(src)?,
        }
        self.pos = end;
        Ok((end - begin) / ch)
    }
}

pub fn generate(seed: u64, thorough: bool, out: &mut dyn FnMut(String)) {
    let mut rng = Rng::new(seed ^ 0xa91);
    let mut n = 0usize;
    let mut emit = |f: &str, args: &[usize], res: &str, must_err: bool, out: &mut dyn FnMut(String)| {
        let a: Vec<String> = args.iter().map(|x| x.to_string()).collect();
        out(format!("api id=a{n} cls={f}|{} fn={f} a={} impl={res} must_err={} o_c17={}", res, a.join(","), must_err as u8, verdict(res, must_err)));
        n += 1;
    };

    // ---- StreamInfo::new(rate, channels, bps)
    let rates = grid(&[0, 1, 44100, 95999, 96000, 96001, 1 << 20, (1 << 20) + 1], 44100);
    let chans = grid(&[0, 1, 2, 7, 8, 9, 16, 255, 256, 257], 2);
    let bpss = grid(&[0, 1, 4, 7, 8, 9, 12, 13, 16, 17, 20, 21, 24, 25, 28, 32, 33], 16);
    let si_case = |rate: usize, ch: usize, bps: usize| -> (&'static str, bool) {
        let res = direct(move || StreamInfo::new(rate, ch, bps).is_ok());
        let must_err = !(1..=8).contains(&ch) || !VALID_BPS.contains(&bps) || rate > 96000;
        (res, must_err)
    };
    for &r in &rates {
        let (res, me) = si_case(r, 2, 16);
        emit("streaminfo_new", &[r, 2, 16], res, me, out);
    }
    for &c in &chans {
        let (res, me) = si_case(44100, c, 16);
        emit("streaminfo_new", &[44100, c, 16], res, me, out);
    }
    for &b in &bpss {
        let (res, me) = si_case(44100, 2, b);
        emit("streaminfo_new", &[44100, 2, b], res, me, out);
    }
    if thorough {
        for &r in &rates {
            for &c in &chans {
                for &b in &[8usize, 9, 16, 24, 25, 256 + 16, (1usize << 32) + 16] {
                    let (res, me) = si_case(r, c, b);
                    emit("streaminfo_new", &[r, c, b], res, me, out);
                }
            }
        }
    }

    // ---- FrameBuf::with_size(channels, size)
    let sizes = grid(&[0, 1, 31, 32, 33, 4096, 32766, 32767, 32768, 65535, 65536], 4096);
    for &c in &chans {
        if c > 64 && c < (1 << 32) {
            // allocation of c * 4096 words is fine up to here
        }
        let res = direct(move || FrameBuf::with_size(c, 4096).is_ok());
        emit("framebuf_with_size", &[c, 4096], res, !(1..=8).contains(&c), out);
    }
    for &s in &sizes {
        let res = direct(move || FrameBuf::with_size(2, s).is_ok());
        emit("framebuf_with_size", &[2, s], res, !(32..=32767).contains(&s), out);
    }

    // ---- FrameBuf::fill_interleaved / fill_le_bytes followed by encode_fixed_size_frame
    let enc = Cfg::default().to_encoder().into_verified().unwrap();
    for &(ch, size) in &[(1usize, 32usize), (2, 32), (2, 64), (3, 33), (8, 32)] {
        let cap = ch * size;
        let lens = [0, 1, ch, ch + 1, cap - ch, cap - 1, cap, cap + 1, cap + ch, 2 * cap, 2 * cap + 3, cap + 8];
        for &len in &lens {
            // first a full block (stale contents), then the fill under test
            let data: Vec<i32> = (0..len).map(|i| (i as i32 % 7) - 3).collect();
            let e2 = enc.clone();
            let res = direct(move || {
                let mut fb = FrameBuf::with_size(ch, size).unwrap();
                fb.fill_interleaved(&vec![1i32; cap]).unwrap();
                if fb.fill_interleaved(&data).is_err() {
                    return false;
                }
                let si = StreamInfo::new(44100, ch, 16).unwrap();
                // the fill was accepted: the buffer must be usable
                let _ = flacenc::encode_fixed_size_frame(&e2, &fb, 0, &si);
                true
            });
            emit("fill_interleaved", &[ch, size, len], res, len > cap, out);
            for &k in &[1usize, 2, 3, 4] {
                let nbytes = len * k;
                let e3 = enc.clone();
                let bytes: Vec<u8> = (0..nbytes).map(|i| (i * 37 % 251) as u8).collect();
                let res = direct(move || {
                    let mut fb = FrameBuf::with_size(ch, size).unwrap();
                    fb.fill_interleaved(&vec![1i32; cap]).unwrap();
                    if fb.fill_le_bytes(&bytes, k).is_err() {
                        return false;
                    }
                    let si = StreamInfo::new(44100, ch, (8 * k).min(24)).unwrap();
                    let _ = flacenc::encode_fixed_size_frame(&e3, &fb, 0, &si);
                    true
                });
                emit("fill_le_bytes", &[ch, size, nbytes, k], res, len > cap, out);
            }
        }
        // byte counts that are not a whole number of samples, and widths outside 1..=4
        for &(nbytes, k) in &[(7usize, 2usize), (5, 3), (9, 4), (1, 2), (8, 0), (8, 5), (8, 8), (16, (1usize << 32) + 2), (3, 2), (cap * 2 + 1, 2)] {
            let bytes: Vec<u8> = vec![0x5a; nbytes];
            let res = direct(move || {
                let mut fb = FrameBuf::with_size(ch, size).unwrap();
                fb.fill_le_bytes(&bytes, k).is_ok()
            });
            let must_err = !(1..=4).contains(&k) || nbytes % k.max(1) != 0 || nbytes / k.max(1) > cap;
            emit("fill_le_bytes_raw", &[ch, size, nbytes, k], res, must_err, out);
        }
    }

    // ---- a HISTORY on one buffer: full byte fill (grows the scratch buffer), `resize`, then the fill under test.
    // The capacity that counts is the one after the resize.
    for &(ch, n) in &[(1usize, 64usize), (2, 64), (3, 40)] {
        for &m in &[32usize, 33, n - 1, n, n + 9] {
            let cap = ch * m;
            for &len in &[cap - ch, cap, cap + 1, cap + ch, ch * n, ch * n + ch] {
                for &k in &[0usize, 2, 3] {
                    let e2 = enc.clone();
                    let res = direct(move || {
                        let mut fb = FrameBuf::with_size(ch, n).unwrap();
                        fb.fill_le_bytes(&vec![1u8; ch * n * 2], 2).unwrap();
                        fb.resize(m);
                        let r = if k == 0 {
                            fb.fill_interleaved(&(0..len).map(|i| (i as i32 % 5) - 2).collect::<Vec<i32>>())
                        } else {
                            fb.fill_le_bytes(&(0..len * k).map(|i| (i * 29 % 251) as u8).collect::<Vec<u8>>(), k)
                        };
                        if r.is_err() {
                            return false;
                        }
                        let si = StreamInfo::new(44100, ch, if k == 3 { 24 } else { 16 }).unwrap();
                        let _ = flacenc::encode_fixed_size_frame(&e2, &fb, 0, &si);
                        true
                    });
                    emit("fill_after_resize", &[ch, n, m, len, k], res, len > cap, out);
                }
            }
        }
    }

    // ---- Context::fill_le_bytes with a width different from its own
    for &bps in &VALID_BPS {
        for &k in &[0usize, 1, 2, 3, 4, 5, (1usize << 32) + 2] {
            let own = (bps + 7) / 8;
            let res = direct(move || {
                let mut ctx = Context::new(bps, 2);
                ctx.fill_le_bytes(&[1u8; 24], k).is_ok()
            });
            emit("context_fill_le_bytes", &[bps, 2, 24, k], res, k != own, out);
        }
    }

    // ---- encode_fixed_size_frame(frame_number, sample range, channel mismatch)
    let fnums = grid(&[0, 1, (1 << 31) - 1, 1 << 31, (1 << 31) + 1, 1 << 36], 5);
    for &fnum in &fnums {
        let e2 = enc.clone();
        let res = direct(move || {
            let mut fb = FrameBuf::with_size(2, 64).unwrap();
            fb.fill_interleaved(&vec![3i32; 128]).unwrap();
            let si = StreamInfo::new(44100, 2, 16).unwrap();
            flacenc::encode_fixed_size_frame(&e2, &fb, fnum, &si).is_ok()
        });
        emit("frame_number", &[fnum], res, fnum >= 1 << 31, out);
    }
    for &bps in &VALID_BPS {
        let lo = -(1i64 << (bps - 1));
        let hi = (1i64 << (bps - 1)) - 1;
        for &(v, bad) in &[(lo, false), (hi, false), (lo - 1, true), (hi + 1, true), (i32::MIN as i64, true), (i32::MAX as i64, true)] {
            for pos in [0usize, 63, 127] {
                let e2 = enc.clone();
                let res = direct(move || {
                    let mut d = vec![0i32; 128];
                    d[pos] = v as i32;
                    let mut fb = FrameBuf::with_size(2, 64).unwrap();
                    fb.fill_interleaved(&d).unwrap();
                    let si = StreamInfo::new(44100, 2, bps).unwrap();
                    flacenc::encode_fixed_size_frame(&e2, &fb, 0, &si).is_ok()
                });
                emit("frame_sample_range", &[bps, (v - lo) as usize, pos], res, bad, out);
            }
        }
    }
    for &(fbch, sich) in &[(1usize, 2usize), (2, 1), (2, 3), (3, 2), (8, 1), (2, 2)] {
        let e2 = enc.clone();
        let res = direct(move || {
            let mut fb = FrameBuf::with_size(fbch, 64).unwrap();
            fb.fill_interleaved(&vec![3i32; 64 * fbch]).unwrap();
            let si = StreamInfo::new(44100, sich, 16).unwrap();
            flacenc::encode_fixed_size_frame(&e2, &fb, 0, &si).is_ok()
        });
        emit("frame_channel_mismatch", &[fbch, sich], res, fbch != sich, out);
    }

    // ---- encode_with_fixed_block_size: block size, source parameters, samples; both modes
    let modes: &[(bool, usize)] = &[(false, 0), (true, 2)];
    for &(mt, w) in modes {
        let mut c = Cfg::default();
        c.multithread = mt;
        c.workers = w;
        let enc = c.to_encoder().into_verified().unwrap();
        let data: Vec<i32> = (0..840).map(|_| rng.range(-100, 100) as i32).collect();
        for &bs in &sizes {
            let (e2, d2) = (enc.clone(), data.clone());
            let res = guarded(move || {
                let src = RawSource { ch: 2, bps: 16, rate: 44100, data: d2, pos: 0, bytes_mode: None };
                flacenc::encode_with_fixed_block_size(&e2, src, bs).is_ok()
            });
            emit(if mt { "encode_mt_block_size" } else { "encode_st_block_size" }, &[bs], res, !(32..=32767).contains(&bs), out);
        }
        for &ch in &chans {
            let (e2, d2) = (enc.clone(), data.clone());
            let res = guarded(move || {
                let src = RawSource { ch, bps: 16, rate: 44100, data: d2, pos: 0, bytes_mode: None };
                flacenc::encode_with_fixed_block_size(&e2, src, 64).is_ok()
            });
            emit(if mt { "encode_mt_channels" } else { "encode_st_channels" }, &[ch], res, !(1..=8).contains(&ch), out);
        }
        for &b in &bpss {
            let (e2, d2) = (enc.clone(), data.clone());
            let res = guarded(move || {
                let src = RawSource { ch: 2, bps: b, rate: 44100, data: d2, pos: 0, bytes_mode: None };
                flacenc::encode_with_fixed_block_size(&e2, src, 64).is_ok()
            });
            emit(if mt { "encode_mt_bps" } else { "encode_st_bps" }, &[b], res, !VALID_BPS.contains(&b), out);
        }
        for &r in &rates {
            let (e2, d2) = (enc.clone(), data.clone());
            let res = guarded(move || {
                let src = RawSource { ch: 2, bps: 16, rate: r, data: d2, pos: 0, bytes_mode: None };
                flacenc::encode_with_fixed_block_size(&e2, src, 64).is_ok()
            });
            emit(if mt { "encode_mt_rate" } else { "encode_st_rate" }, &[r], res, r > 96000, out);
        }
        // out-of-range sample at several positions
        for &pos in &[0usize, 127, 128, 300, 839] {
            for &v in &[32768i32, -32769, i32::MAX, i32::MIN] {
                let (e2, mut d2) = (enc.clone(), data.clone());
                d2[pos] = v;
                let res = guarded(move || {
                    let src = RawSource { ch: 2, bps: 16, rate: 44100, data: d2, pos: 0, bytes_mode: None };
                    flacenc::encode_with_fixed_block_size(&e2, src, 64).is_ok()
                });
                emit(if mt { "encode_mt_sample" } else { "encode_st_sample" }, &[pos, (v as i64 + (1 << 31)) as usize], res, true, out);
            }
        }
        // SEVERAL blocks with an out-of-range sample, followed by valid blocks: in multi-thread mode every failed
        // block must hand its buffer back to the feeder (2 * workers buffers circulate), or the feeder starves
        for &(bad, total) in &[(1usize, 8usize), (3, 10), (4, 10), (5, 12), (7, 14), (12, 12), (9, 40)] {
            let e2 = enc.clone();
            let mut d2: Vec<i32> = (0..total * 128).map(|_| rng.range(-100, 100) as i32).collect();
            for b in 0..bad {
                d2[b * 128 + 17 + b] = if b % 2 == 0 { 32768 } else { -32769 };
            }
            let res = guarded(move || {
                let src = RawSource { ch: 2, bps: 16, rate: 44100, data: d2, pos: 0, bytes_mode: None };
                flacenc::encode_with_fixed_block_size(&e2, src, 64).is_ok()
            });
            emit(if mt { "encode_mt_bad_blocks" } else { "encode_st_bad_blocks" }, &[bad, total], res, true, out);
        }
        // byte delivery with a width that disagrees with the declared sample width
        for &(bps, k) in &[(16usize, 2usize), (16, 1), (16, 3), (16, 4), (24, 3), (24, 2), (24, 4), (8, 1), (8, 2), (20, 3), (20, 2)] {
            let (e2, d2) = (enc.clone(), data.clone());
            let res = guarded(move || {
                let d3: Vec<i32> = d2.iter().map(|x| x % 100).collect();
                let src = RawSource { ch: 2, bps, rate: 44100, data: d3, pos: 0, bytes_mode: Some(k) };
                flacenc::encode_with_fixed_block_size(&e2, src, 64).is_ok()
            });
            emit(if mt { "encode_mt_byte_width" } else { "encode_st_byte_width" }, &[bps, k], res, k != (bps + 7) / 8, out);
        }
    }
    out("#exhaustive api grid".to_string());
}
