//! Structured generators: PCM signal families and encoder configurations.

use crate::util::Rng;
use flacenc::config;
use std::num::NonZeroUsize;

pub const BPS: [usize; 5] = [8, 12, 16, 20, 24];

#[derive(Clone, Debug)]
pub struct Pcm {
    pub channels: usize,
    pub bps: usize,
    pub rate: usize,
    /// interleaved samples
    pub data: Vec<i32>,
    pub family: &'static str,
}

impl Pcm {
    pub fn len(&self) -> usize {
        self.data.len() / self.channels
    }
}

pub const FAMILIES: [&str; 18] = [
    "silence", "dc", "fullscale", "alt_fullscale", "impulses", "sine_noise", "white", "heavy_tail",
    "anti_stereo", "same_stereo", "loud_silent_mix", "ramp", "near_constant", "sine_small", "tone_hf", "ar1", "dense_impulses", "bursty_noise",
];

fn clampv(v: f64, bps: usize) -> i32 {
    let lo = -(1i64 << (bps - 1));
    let hi = (1i64 << (bps - 1)) - 1;
    (v.round() as i64).clamp(lo, hi) as i32
}

/// One channel of `len` samples of the given family.
pub fn channel(rng: &mut Rng, family: &str, bps: usize, len: usize) -> Vec<i32> {
    let fs = (1i64 << (bps - 1)) as f64;
    let lo = -(1i64 << (bps - 1)) as i32;
    let hi = ((1i64 << (bps - 1)) - 1) as i32;
    match family {
        "silence" => vec![0; len],
        "dc" => {
            let v = *rng.pick(&[lo, hi, 1, -1, 23, lo / 2]);
            vec![v; len]
        }
        "fullscale" => (0..len).map(|_| if rng.chance(50) { lo } else { hi }).collect(),
        "alt_fullscale" => (0..len).map(|t| if t % 2 == 0 { hi } else { lo }).collect(),
        "impulses" => {
            let mut v = vec![0; len];
            for _ in 0..(1 + len / 50) {
                if len > 0 {
                    let i = rng.below(len as u64) as usize;
                    v[i] = if rng.chance(50) { hi } else { lo };
                }
            }
            v
        }
        "sine_noise" | "sine_small" => {
            let k = if family == "sine_small" { rng.below(4) as usize + 1 } else { rng.below(bps as u64) as usize };
            let amp = (1u64 << k) as f64;
            let period = 8.0 + rng.below(200) as f64;
            let noise = if rng.chance(30) { 0.0 } else { amp / 16.0 + 1.0 };
            (0..len)
                .map(|t| clampv(amp * (t as f64 * 6.283185307 / period).sin() * 0.9 + noise * rng.gauss(), bps))
                .collect()
        }
        "bursty_noise" => {
            // loud noise whose level changes every 64 samples (most segments at full scale, the rest at a
            // quarter): nearly incompressible, and the best Rice partition order is the finest one - a
            // candidate within ~1% of the verbatim size whose size accounting involves warm-up samples
            // and many partitions at once
            let loud_pct = *rng.pick(&[60u64, 72, 75, 78, 90]);
            let hi = (1i64 << (bps - 1)) - 1;
            let mut v = Vec::with_capacity(len);
            let mut amp = hi;
            for t in 0..len {
                if t % 64 == 0 {
                    amp = if rng.chance(loud_pct) { hi } else { hi / 4 };
                }
                v.push(rng.range(-amp, amp) as i32);
            }
            v
        }
        "dense_impulses" => {
            // every k-th sample loud, zeros elsewhere: low entropy estimate, enormous Rice cost at small
            // parameters (quotient sums beyond 2^32 for 20/24-bit input)
            let k = *rng.pick(&[2usize, 4, 8, 8, 16]);
            let mag = (1i64 << (bps - 2 - rng.below(2) as usize)) as i32;
            (0..len).map(|t| if t % k == 0 { if rng.chance(50) { mag } else { -mag } } else { 0 }).collect()
        }
        "tone_hf" => {
            // high-frequency tone at mid/high amplitude with a little noise: a strongly predictable signal
            // whose LPC coefficients are large (sum |c| ~ 2^15..2^17): exercises the i32/i64 dispatch of
            // compute_error and large intermediate products in decoders
            let k = (bps / 2 + rng.below((bps / 2) as u64) as usize).min(bps - 1);
            let amp = (1u64 << k) as f64 * 0.9;
            let period = 2.1 + (rng.below(80) as f64) / 10.0;
            let noise = (1u64 << (k / 2)) as f64 * (rng.below(4) as f64) / 4.0;
            (0..len)
                .map(|t| clampv(amp * (t as f64 * 6.283185307 / period).sin() + noise * rng.gauss(), bps))
                .collect()
        }
        "ar1" => {
            // weakly correlated noise (AR(1) with small rho of either sign): all LPC coefficients small,
            // which drives the quantiser's shift to its upper limit
            let rho = (rng.below(61) as f64 - 30.0) / 100.0;
            let k = 1 + rng.below(bps as u64 - 1) as usize;
            let amp = (1u64 << k) as f64 / 3.0;
            let mut prev = 0.0f64;
            (0..len)
                .map(|_| {
                    prev = rho * prev + amp * rng.gauss();
                    clampv(prev, bps)
                })
                .collect()
        }
        "white" => {
            let k = 1 + rng.below(bps as u64) as usize;
            let amp = (1u64 << (k - 1)) as f64;
            (0..len).map(|_| clampv(amp * 2.0 * ((rng.next() >> 11) as f64 / (1u64 << 53) as f64 - 0.5), bps)).collect()
        }
        "heavy_tail" => (0..len)
            .map(|_| {
                let g = rng.gauss();
                let e = (rng.below(bps as u64) as f64).exp2();
                clampv(g * e, bps)
            })
            .collect(),
        "loud_silent_mix" => {
            // partitions of 64 samples that are either loud or silent
            let mut v = vec![0; len];
            let mut t = 0;
            while t < len {
                let loud = rng.chance(30);
                let end = (t + 64).min(len);
                if loud {
                    for x in v[t..end].iter_mut() {
                        *x = clampv(fs * 1.9 * ((rng.next() >> 11) as f64 / (1u64 << 53) as f64 - 0.5), bps);
                    }
                }
                t = end;
            }
            v
        }
        "ramp" => {
            let step = rng.range(-300, 300) as f64;
            let start = rng.range(lo as i64 / 2, hi as i64 / 2) as f64;
            (0..len).map(|t| clampv(start + step * t as f64, bps)).collect()
        }
        "near_constant" => {
            let v = rng.range(lo as i64, hi as i64) as i32;
            let mut out = vec![v; len];
            if len > 0 && rng.chance(80) {
                let i = rng.below(len as u64) as usize;
                out[i] = if v == hi { v - 1 } else { v + 1 };
            }
            out
        }
        _ => (0..len).map(|_| rng.range(lo as i64, hi as i64) as i32).collect(),
    }
}

pub fn pcm(rng: &mut Rng, family: &'static str, channels: usize, bps: usize, rate: usize, len: usize) -> Pcm {
    let chans: Vec<Vec<i32>> = match family {
        "anti_stereo" | "same_stereo" if channels >= 2 => {
            let base_family = *rng.pick(&["alt_fullscale", "fullscale", "white", "sine_noise"]);
            let l = channel(rng, base_family, bps, len);
            let lo = -(1i64 << (bps - 1));
            let hi = (1i64 << (bps - 1)) - 1;
            let r: Vec<i32> = if family == "anti_stereo" {
                l.iter().map(|x| (-(*x as i64)).clamp(lo, hi) as i32).collect()
            } else {
                l.clone()
            };
            let mut v = vec![l, r];
            for _ in 2..channels {
                v.push(channel(rng, "white", bps, len));
            }
            v
        }
        "anti_stereo" | "same_stereo" => vec![channel(rng, "white", bps, len); channels],
        f => (0..channels).map(|_| channel(rng, f, bps, len)).collect(),
    };
    let mut data = Vec::with_capacity(len * channels);
    for t in 0..len {
        for c in &chans {
            data.push(c[t]);
        }
    }
    Pcm { channels, bps, rate, data, family }
}

pub const RATES: [usize; 16] = [1, 10, 999, 1000, 8000, 16000, 16001, 22050, 44100, 48000, 65535, 65536, 65540, 88200, 95800, 96000];
pub const BLOCK_SIZES: [usize; 16] = [32, 33, 63, 64, 65, 191, 192, 255, 256, 257, 576, 1000, 1152, 4096, 4608, 16384];

/// A random valid PCM input whose length relates to `bs` in an interesting way.
pub fn random_pcm(rng: &mut Rng, bs: usize, max_samples: usize) -> Pcm {
    // compressible families are drawn more often: they exercise the fixed/LPC/Rice paths
    let family = match rng.below(10) {
        0..=2 => "sine_noise",
        3 => "sine_small",
        4 => "ramp",
        5 => "heavy_tail",
        6 => "tone_hf",
        7 => "ar1",
        _ => *rng.pick(&FAMILIES),
    };
    let channels = match rng.below(10) {
        0..=2 => 1,
        3..=6 => 2,
        7 => 3,
        8 => 1 + rng.below(8) as usize,
        _ => 8,
    };
    let bps = *rng.pick(&BPS);
    let rate = if rng.chance(50) { *rng.pick(&RATES) } else { 1 + rng.below(96000) as usize };
    let cap = (max_samples / channels).max(1);
    let len = match rng.below(20) {
        0 => 0,
        1 => 1,
        2 => *rng.pick(&[15usize, 16, 17]),
        3 => bs.saturating_sub(1),
        4 => bs,
        5 => bs + 1,
        6 => 2 * bs + 5,
        7..=10 => bs + rng.below(bs as u64) as usize,
        11..=13 => rng.below(3 * bs as u64 + 1) as usize,
        14..=16 => 2 * bs + rng.below(bs as u64 + 1) as usize,
        _ => 3 * bs + rng.below(18) as usize,
    }
    .min(cap);
    pcm(rng, family, channels, bps, rate, len)
}

/// The 17 leaf fields of `config::Encoder`, flattened.
#[derive(Clone, Debug, PartialEq)]
pub struct Cfg {
    pub block_size: usize,
    pub multithread: bool,
    pub workers: usize, // 0 = None
    pub use_leftside: bool,
    pub use_rightside: bool,
    pub use_midside: bool,
    pub use_constant: bool,
    pub use_fixed: bool,
    pub use_lpc: bool,
    pub fixed_max_order: usize,
    pub order_sel_bitcount: bool,
    pub partitions: usize,
    pub lpc_order: usize,
    pub quant_precision: usize,
    pub use_direct_mse: bool,
    pub mae_steps: usize,
    pub window_rect: bool,
    pub alpha_bits: u32,
    pub max_parameter: usize,
    /// `config.block_size` when it differs from the block-size ARGUMENT of the encode call (0 = same)
    pub cfg_bs: usize,
}

impl Default for Cfg {
    fn default() -> Self {
        Cfg {
            block_size: 4096,
            multithread: false,
            workers: 0,
            use_leftside: true,
            use_rightside: true,
            use_midside: true,
            use_constant: true,
            use_fixed: true,
            use_lpc: true,
            fixed_max_order: 4,
            order_sel_bitcount: false,
            partitions: 16,
            lpc_order: 10,
            quant_precision: 15,
            use_direct_mse: false,
            mae_steps: 0,
            window_rect: false,
            alpha_bits: 0.4f32.to_bits(),
            max_parameter: 14,
            cfg_bs: 0,
        }
    }
}

impl Cfg {
    pub fn to_encoder(&self) -> config::Encoder {
        let mut e = config::Encoder::default();
        e.block_size = if self.cfg_bs != 0 { self.cfg_bs } else { self.block_size };
        e.multithread = self.multithread;
        e.workers = NonZeroUsize::new(self.workers);
        e.stereo_coding.use_leftside = self.use_leftside;
        e.stereo_coding.use_rightside = self.use_rightside;
        e.stereo_coding.use_midside = self.use_midside;
        e.subframe_coding.use_constant = self.use_constant;
        e.subframe_coding.use_fixed = self.use_fixed;
        e.subframe_coding.use_lpc = self.use_lpc;
        e.subframe_coding.fixed.max_order = self.fixed_max_order;
        e.subframe_coding.fixed.order_sel = if self.order_sel_bitcount {
            config::OrderSel::BitCount
        } else {
            config::OrderSel::ApproxEnt { partitions: self.partitions }
        };
        e.subframe_coding.qlpc.lpc_order = self.lpc_order;
        e.subframe_coding.qlpc.quant_precision = self.quant_precision;
        e.subframe_coding.qlpc.use_direct_mse = self.use_direct_mse;
        e.subframe_coding.qlpc.mae_optimization_steps = self.mae_steps;
        e.subframe_coding.qlpc.window = if self.window_rect {
            config::Window::Rectangle
        } else {
            config::Window::Tukey { alpha: f32::from_bits(self.alpha_bits) }
        };
        e.subframe_coding.prc.max_parameter = self.max_parameter;
        e
    }

    pub fn render(&self) -> String {
        format!(
            "bs:{},mt:{},w:{},ls:{},rs:{},ms:{},uc:{},uf:{},ul:{},fmo:{},sel:{},parts:{},lo:{},qp:{},dm:{},mae:{},win:{},alpha:{},maxp:{}{}",
            self.block_size, self.multithread as u8, self.workers, self.use_leftside as u8, self.use_rightside as u8,
            self.use_midside as u8, self.use_constant as u8, self.use_fixed as u8, self.use_lpc as u8,
            self.fixed_max_order, if self.order_sel_bitcount { "bc" } else { "ent" }, self.partitions,
            self.lpc_order, self.quant_precision, self.use_direct_mse as u8, self.mae_steps,
            if self.window_rect { "rect" } else { "tukey" }, self.alpha_bits, self.max_parameter,
            if self.cfg_bs != 0 { format!(",cbs:{}", self.cfg_bs) } else { String::new() }
        )
    }

    pub fn parse(s: &str) -> Cfg {
        let mut c = Cfg::default();
        for kv in s.split(',') {
            let (k, v) = kv.split_once(':').unwrap();
            let n = || v.parse::<usize>().unwrap();
            match k {
                "bs" => c.block_size = n(),
                "mt" => c.multithread = v == "1",
                "w" => c.workers = n(),
                "ls" => c.use_leftside = v == "1",
                "rs" => c.use_rightside = v == "1",
                "ms" => c.use_midside = v == "1",
                "uc" => c.use_constant = v == "1",
                "uf" => c.use_fixed = v == "1",
                "ul" => c.use_lpc = v == "1",
                "fmo" => c.fixed_max_order = n(),
                "sel" => c.order_sel_bitcount = v == "bc",
                "parts" => c.partitions = n(),
                "lo" => c.lpc_order = n(),
                "qp" => c.quant_precision = n(),
                "dm" => c.use_direct_mse = v == "1",
                "mae" => c.mae_steps = n(),
                "win" => c.window_rect = v == "rect",
                "alpha" => c.alpha_bits = v.parse().unwrap(),
                "maxp" => c.max_parameter = n(),
                "cbs" => c.cfg_bs = n(),
                _ => panic!("bad cfg key {k}"),
            }
        }
        c
    }
}

/// A random configuration accepted by verification (non-experimental).
pub fn random_valid_cfg(rng: &mut Rng) -> Cfg {
    let mut c = Cfg::default();
    c.block_size = match rng.below(10) {
        0..=4 => *rng.pick(&BLOCK_SIZES),
        5..=7 => 64 * (1 + rng.below(8) as usize),
        _ => 32 + rng.below(2000) as usize,
    };
    c.use_leftside = rng.chance(70);
    c.use_rightside = rng.chance(70);
    c.use_midside = rng.chance(70);
    c.use_constant = rng.chance(85);
    c.use_fixed = rng.chance(80);
    c.use_lpc = rng.chance(75);
    c.fixed_max_order = rng.below(5) as usize;
    c.order_sel_bitcount = rng.chance(40);
    c.partitions = *rng.pick(&[1usize, 2, 3, 16, 32, 63, 64]);
    c.lpc_order = match rng.below(4) { 0 => 1, 1 => 24, _ => 1 + rng.below(24) as usize };
    c.quant_precision = match rng.below(4) { 0 => 1, 1 => 15, _ => 1 + rng.below(15) as usize };
    c.window_rect = rng.chance(25);
    c.alpha_bits = match rng.below(6) {
        0 => 0.0f32.to_bits(),
        1 => 1.0f32.to_bits(),
        2 => 0.4f32.to_bits(),
        3 => 1e-6f32.to_bits(),
        4 => 0.40001f32.to_bits(),
        _ => ((rng.next() >> 40) as f32 / (1u64 << 24) as f32).to_bits(),
    };
    c.max_parameter = match rng.below(5) { 0 => 0, 1 => 14, 2 => 1, _ => rng.below(15) as usize };
    c
}
