//! `kernel` correspondence stream: the integer kernels of the encoder called directly through the
//! `verif_hooks` re-exports, with arguments the estimator would never produce.
//!   kernel id=… cls=<fn>|<class> fn=<name> <args…> impl=<result> [o_c13=…] [o_c14=…]

use crate::gen;
use crate::util::{catch, ints, Rng, hex};
use flacenc::verif_hooks as vh;

fn fold(v: i32) -> u64 {
    let v = v as i64;
    if v < 0 {
        (2 * (-v) - 1) as u64
    } else {
        (2 * v) as u64
    }
}

/// Cost (bits, without the 6 bits of method + order) of coding `sig` with the given choice.
pub fn choice_cost(sig: &[i32], warm: usize, order: usize, ps: &[u8]) -> u64 {
    let n = sig.len();
    let plen = n >> order;
    let mut total = 0u64;
    for k in 0..(1usize << order) {
        let p = u64::from(*ps.get(k).unwrap_or(&0));
        total += 4;
        let start = warm.max(k * plen);
        for t in start..((k + 1) * plen).min(n) {
            total += (fold(sig[t]) >> p) + p + 1;
        }
    }
    total
}

/// Brute-force optimum over the property's search space (independent of the implementation).
pub fn brute_optimum(sig: &[i32], warm: usize, max_p: usize) -> Option<u64> {
    let n = sig.len();
    let mut best: Option<u64> = None;
    for order in 0..=15usize {
        if n % (1 << order) != 0 || warm.max(64) * (1 << order) > n {
            continue;
        }
        let plen = n >> order;
        let mut total = 0u64;
        for k in 0..(1usize << order) {
            let start = warm.max(k * plen);
            let mut bp = u64::MAX;
            for p in 0..=max_p as u64 {
                let mut c = 4u64;
                for t in start..(k + 1) * plen {
                    c += (fold(sig[t]) >> p) + p + 1;
                }
                bp = bp.min(c);
            }
            total += bp;
        }
        best = Some(best.map_or(total, |b| b.min(total)));
    }
    best
}

fn residual_signal(rng: &mut Rng, n: usize, class: usize) -> Vec<i32> {
    let lim = (1i64 << 31) - 1;
    match class {
        0 => (0..n).map(|_| rng.range(-3, 3) as i32).collect(),
        1 => (0..n).map(|_| rng.range(-40000, 40000) as i32).collect(),
        2 => (0..n).map(|_| rng.range(-(1 << 27), 1 << 27) as i32).collect(),
        3 => (0..n).map(|_| rng.range(-lim, lim) as i32).collect(),
        4 => {
            // loud / silent partitions of 64
            (0..n).map(|t| if (t / 64) % 3 == 0 { rng.range(-(1 << 24), 1 << 24) as i32 } else { rng.range(-1, 1) as i32 }).collect()
        }
        5 => {
            // varying scale per 64-block (many distinct optimal parameters)
            let mut v = vec![];
            let mut scale = 1i64;
            for t in 0..n {
                if t % 64 == 0 {
                    scale = 1i64 << rng.below(24);
                }
                v.push(rng.range(-scale, scale) as i32);
            }
            v
        }
        6 => (0..n).map(|t| if t % 2 == 0 { lim as i32 } else { -(lim as i32) }).collect(),
        7 => {
            // heavy tail: mostly small with rare huge values
            (0..n).map(|_| if rng.chance(3) { rng.range(-lim, lim) as i32 } else { rng.range(-8, 8) as i32 }).collect()
        }
        9 => {
            // exactly-zero partitions of 64 (digital silence, exactly predicted stretches) next to active ones
            let amp = *rng.pick(&[3i64, 40, 300, 40000]);
            let phase = rng.below(2) as usize;
            (0..n).map(|t| if (t / 64) % 2 == phase { 0 } else { rng.range(-amp, amp) as i32 }).collect()
        }
        10 => {
            // zero gaps of arbitrary position and length inside an active signal
            let amp = *rng.pick(&[7i64, 120, 5000]);
            let mut v: Vec<i32> = (0..n).map(|_| rng.range(-amp, amp) as i32).collect();
            for _ in 0..1 + rng.below(3) {
                let a = rng.below(n as u64) as usize;
                let l = 32 + rng.below(200) as usize;
                for x in v.iter_mut().skip(a).take(l) {
                    *x = 0;
                }
            }
            v
        }
        _ => vec![0; n],
    }
}

pub fn generate(seed: u64, cases: usize, out: &mut dyn FnMut(String)) {
    let mut rng = Rng::new(seed ^ 0x6b65);
    // ---- corpus: the saturation-edge witness found by the proof of C13 (optimum exactly 2^28-1)
    {
        let mut sig = vec![2147483632i32, 2147477440];
        sig.extend(std::iter::repeat(0).take(62));
        out(search_record("corpus-c13-edge", &sig, 0, 5, "edge"));
    }
    // ---- search (C13)
    let sizes = [64usize, 65, 96, 128, 192, 256, 320, 512, 576, 1024, 1152, 2048, 4096, 4608, 8192];
    for i in 0..cases {
        let n = if i % 5 == 0 { 64 + rng.below(448) as usize } else { *rng.pick(&sizes) };
        let class = (i % 11) as usize;
        let warm = match rng.below(6) {
            0 => 0,
            1 => 32.min(n),
            2 => rng.below(33) as usize,
            _ => rng.below(5) as usize,
        };
        let max_p = *rng.pick(&[0usize, 1, 2, 3, 7, 8, 13, 14, 14, 14]);
        let mut sig = residual_signal(&mut rng, n, class);
        for x in sig.iter_mut().take(warm) {
            *x = 0;
        }
        out(search_record(&format!("k{i}"), &sig, warm, max_p, &format!("c{class}")));
    }
    // ---- sign folding (C01)
    let mut vals: Vec<i32> = vec![0, 1, -1, 2, -2, i32::MAX, i32::MIN + 1, 1 << 30, -(1 << 30), (1 << 23) - 1, -(1 << 23)];
    for _ in 0..200 {
        vals.push(rng.next() as i32);
    }
    vals.retain(|v| *v != i32::MIN);
    let folded: Vec<u32> = vals.iter().map(|v| vh::encode_signbit(*v)).collect();
    let back: Vec<i32> = folded.iter().map(|u| vh::decode_signbit(*u)).collect();
    out(format!("kernel id=fold cls=fold|all fn=fold vals={} impl={} impl_back={}", ints(&vals), ints(&folded), ints(&back)));
    // ---- fixed-predictor residuals (C01)
    for i in 0..(cases / 8).max(6) {
        let bps = *rng.pick(&gen::BPS);
        // side channels are one bit wider
        let bps_eff = if rng.chance(30) { bps + 1 } else { bps };
        let fam = *rng.pick(&["fullscale", "alt_fullscale", "white", "sine_noise", "impulses", "ramp"]);
        let n = 64 + rng.below(200) as usize;
        let sig = gen::channel(&mut rng, fam, bps_eff, n);
        let errs = vh::fixed_lpc_errors(&sig);
        let body: Vec<String> = errs.iter().map(|e| ints(&e[..n.min(e.len())])).collect();
        out(format!("kernel id=d{i} cls=diffs|{fam}|b{bps_eff} fn=diffs sig={} impl={}", ints(&sig), body.join(";")));
    }
    // ---- quantised-LPC residual with adversarial parameters (C01)
    for i in 0..(cases / 4).max(10) {
        let bps = *rng.pick(&[8usize, 16, 17, 24, 25]);
        let order = 1 + rng.below(24) as usize;
        let precision = 1 + rng.below(15) as usize;
        let shift = rng.below(16) as i8;
        let cmax = (1i64 << (precision - 1)) - 1;
        let cmin = -(1i64 << (precision - 1));
        let coefs: Vec<i16> = (0..order)
            .map(|j| match i % 4 {
                0 => cmax as i16,
                1 => if j % 2 == 0 { cmax as i16 } else { cmin as i16 },
                2 => cmin as i16,
                _ => rng.range(cmin, cmax) as i16,
            })
            .collect();
        let fam = *rng.pick(&["fullscale", "alt_fullscale", "white", "sine_noise", "dc"]);
        let n = order + 1 + rng.below(100) as usize;
        let sig = gen::channel(&mut rng, fam, bps, n);
        let (c2, s2) = (coefs.clone(), sig.clone());
        let res = catch(move || vh::compute_error_fits(&c2, shift, precision, &s2));
        let (impl_s, fits) = match res {
            Ok((e, f)) => (ints(&e), (f as u8).to_string()),
            Err(m) => (format!("panic:{m}"), "-".to_string()),
        };
        out(format!(
            "kernel id=l{i} cls=lpcerr|{fam}|b{bps}|o{order}|p{precision} fn=lpcerr coefs={} shift={shift} precision={precision} sig={} impl={impl_s} impl_fits={fits}",
            ints(&coefs), ints(&sig)
        ));
    }
    // ---- the dispatch boundary of compute_error (F14): max|x| * (sum|c| + 1) just below / at / above i32::MAX,
    // shift 0, a burst whose signs match the coefficients followed by a sample of the opposite sign: the
    // exact residual is +-max|x| * (sum|c| + 1); plus the residual -2^31 exactly on the wide path
    for i in 0..12usize {
        let order = 1 + rng.below(12) as usize;
        let precision = 6 + rng.below(10) as usize;
        let cmax = (1i64 << (precision - 1)) - 1;
        let coefs: Vec<i16> = (0..order).map(|_| { let v = rng.range(1, cmax); (if rng.chance(50) { v } else { -v }) as i16 }).collect();
        let ssum: i64 = coefs.iter().map(|c| i64::from(*c).abs()).sum();
        let edge = ((1i64 << 31) - 2) / (ssum + 1);
        let m = match i % 4 { 0 => edge, 1 => edge + 1, 2 => ((1i64 << 31) - 2) / ssum, _ => ((1i64 << 31) / (ssum + 1)).max(1) };
        let m = m.clamp(1, (1 << 24) - 1);
        let sgn: i64 = if i % 2 == 0 { 1 } else { -1 };
        let mut sig = vec![0i32; order + 3];
        for (j, c) in coefs.iter().enumerate() {
            sig[order - 1 - j] = (if *c >= 0 { sgn * m } else { -sgn * m }) as i32;
        }
        // i % 4 == 3: tune the sample so that the residual is exactly -2^31 (or as close as the range allows)
        sig[order] = if i % 4 == 3 { (sgn * ssum * m - (1i64 << 31)).clamp(-m, m) as i32 } else { (-sgn * m) as i32 };
        sig[order + 1] = (sgn * m / 2) as i32;
        let (c2, s2) = (coefs.clone(), sig.clone());
        let res = catch(move || vh::compute_error_fits(&c2, 0, precision, &s2));
        let (impl_s, fits) = match res {
            Ok((e, f)) => (ints(&e), (f as u8).to_string()),
            Err(m) => (format!("panic:{m}"), "-".to_string()),
        };
        out(format!(
            "kernel id=lb{i} cls=lpcerr|edge{}|o{order}|p{precision} fn=lpcerr coefs={} shift=0 precision={precision} sig={} impl={impl_s} impl_fits={fits}",
            i % 4, ints(&coefs), ints(&sig)
        ));
    }
    // ---- Context (MD5 / sample count / frame count) fed block by block through both delivery paths, with
    // zero-length deliveries in the middle (C14: the context advances identically)
    for i in 0..14usize {
        let ch = 1 + (i % 3);
        let bps = gen::BPS[i % gen::BPS.len()];
        let k = (bps + 7) / 8;
        let lens: Vec<usize> = match i % 7 {
            0 => vec![32, 0, 32, 21],
            1 => vec![0, 16],
            2 => vec![16, 0],
            3 => vec![0],
            4 => vec![7, 0, 0, 9],
            _ => (0..1 + rng.below(5)).map(|_| if rng.chance(30) { 0 } else { 1 + rng.below(40) as usize }).collect(),
        };
        let total: usize = lens.iter().sum();
        let data: Vec<i32> = (0..total * ch).map(|_| rng.range(-(1i64 << (bps - 1)), (1i64 << (bps - 1)) - 1) as i32).collect();
        let run = |bytes_path: bool| -> String {
            use flacenc::source::Fill;
            let mut ctx = flacenc::source::Context::new(bps, ch);
            let mut pos = 0usize;
            for n in &lens {
                let block = &data[pos * ch..(pos + n) * ch];
                let r = if bytes_path {
                    let b: Vec<u8> = block.iter().flat_map(|v| v.to_le_bytes()[..k].to_vec()).collect();
                    ctx.fill_le_bytes(&b, k)
                } else {
                    ctx.fill_interleaved(block)
                };
                if r.is_err() {
                    return "err".to_string();
                }
                pos += n;
            }
            format!("{}:{}:{}", hex(&ctx.md5_digest()), ctx.total_samples(), ctx.current_frame_number().map_or("none".to_string(), |x| x.to_string()))
        };
        let (a, b) = (run(false), run(true));
        let o14 = if a == b { "ok".to_string() } else { format!("fail:context_after_integer_delivery_{a}_after_byte_delivery_{b}") };
        out(format!(
            "kernel id=ctx{i} cls=ctx|c{ch}|b{bps}|{} fn=ctx ch={ch} bps={bps} lens={} data={} impl_int={a} impl_bytes={b} o_c14={o14}",
            lens.iter().filter(|n| **n == 0).count(), lens.iter().map(|n| n.to_string()).collect::<Vec<_>>().join(","), ints(&data)
        ));
    }
    // ---- FrameBuf filled block by block through both delivery paths, including zero-length deliveries and
    // a shorter block after a full one (C14: identical per-channel samples and fill level)
    for i in 0..12usize {
        let ch = 1 + (i % 3);
        let bps = gen::BPS[i % gen::BPS.len()];
        let k = (bps + 7) / 8;
        let size = 32usize;
        let lens: Vec<usize> = match i % 6 {
            0 => vec![32, 0],
            1 => vec![32, 31],
            2 => vec![0],
            3 => vec![17, 0, 5],
            4 => vec![32, 16, 0, 32],
            _ => (0..1 + rng.below(4)).map(|_| if rng.chance(30) { 0 } else { 1 + rng.below(32) as usize }).collect(),
        };
        let total: usize = lens.iter().sum();
        let data: Vec<i32> = (0..total * ch).map(|_| rng.range(-(1i64 << (bps - 1)), (1i64 << (bps - 1)) - 1) as i32).collect();
        let run = |bytes_path: bool| -> String {
            use flacenc::source::Fill;
            let mut fb = flacenc::source::FrameBuf::with_size(ch, size).unwrap();
            let mut pos = 0usize;
            let mut steps = vec![];
            for n in &lens {
                let block = &data[pos * ch..(pos + n) * ch];
                let r = if bytes_path {
                    let b: Vec<u8> = block.iter().flat_map(|v| v.to_le_bytes()[..k].to_vec()).collect();
                    fb.fill_le_bytes(&b, k)
                } else {
                    fb.fill_interleaved(block)
                };
                if r.is_err() {
                    steps.push("err".to_string());
                } else {
                    let slices: Vec<String> = (0..ch).map(|c| ints(&vh::framebuf_channel(&fb, c))).collect();
                    steps.push(format!("{}:{}", fb.filled_size(), slices.join("/")));
                }
                pos += n;
            }
            steps.join(";")
        };
        let (a, b) = (run(false), run(true));
        let o14 = if a == b { "ok".to_string() } else { "fail:frame_buffer_differs_between_integer_and_byte_delivery".to_string() };
        out(format!(
            "kernel id=fb{i} cls=fbuf|c{ch}|b{bps}|{} fn=fbuf ch={ch} bps={bps} size={size} lens={} data={} impl_int={a} impl_bytes={b} o_c14={o14}",
            lens.iter().filter(|n| **n == 0).count(), lens.iter().map(|n| n.to_string()).collect::<Vec<_>>().join(","), ints(&data)
        ));
    }
    // ---- deinterleave / LE conversions (C14): every channel count, stale destination contents
    for ch in 1..=8usize {
        for &(stride, len) in &[(32usize, 32usize), (32, 31), (32, 1), (32, 0), (33, 20), (64, 64), (40, 17)] {
            let data: Vec<i32> = (0..len * ch).map(|_| rng.range(-(1 << 23), (1 << 23) - 1) as i32).collect();
            let mut dest = vec![7777i32; stride * ch];
            vh::deinterleave(&data, ch, stride, &mut dest);
            out(format!(
                "kernel id=di{ch}-{stride}-{len} cls=deint|c{ch}|{} fn=deint ch={ch} stride={stride} data={} stale=7777 impl={}",
                if len == stride { "full" } else { "partial" }, ints(&data), ints(&dest)
            ));
        }
    }
    for k in 1..=4usize {
        let lo = -(1i64 << (8 * k - 1));
        let hi = (1i64 << (8 * k - 1)) - 1;
        let mut vals: Vec<i32> = vec![0, 1, -1, lo as i32, hi as i32, (lo + 1) as i32, (hi - 1) as i32, 127, -128, 128, -129];
        for _ in 0..40 {
            vals.push(rng.range(lo, hi) as i32);
        }
        vals.retain(|v| (*v as i64) >= lo && (*v as i64) <= hi);
        let mut bytes = vec![0u8; vals.len() * k];
        vh::i32s_to_le_bytes(&vals, &mut bytes, k);
        let mut backv = vec![0i32; vals.len()];
        vh::le_bytes_to_i32s(&bytes, &mut backv, k);
        out(format!(
            "kernel id=le{k} cls=le|k{k} fn=le k={k} vals={} impl_bytes={} impl_back={}",
            ints(&vals), crate::util::hex(&bytes), ints(&backv)
        ));
        // arbitrary byte patterns -> ints (sign extension)
        let raw: Vec<u8> = (0..k * 50).map(|_| rng.next() as u8).collect();
        let mut v2 = vec![0i32; 50];
        vh::le_bytes_to_i32s(&raw, &mut v2, k);
        out(format!("kernel id=le2i{k} cls=le2i|k{k} fn=le2i k={k} bytes={} impl={}", crate::util::hex(&raw), ints(&v2)));
    }
    // ---- header number codings (C02, C08): exhaustive code spaces, in blocks
    {
        let mut tags = String::new();
        for size in 1..=65535u32 {
            let (tag, extra, back) = vh::block_size_code(size as u16);
            // tag, extra-bit count / 8, decodes-back flag packed in one hex-ish char triple
            tags.push(char::from_digit(u32::from(tag), 16).unwrap());
            tags.push(char::from_digit((extra / 8) as u32, 16).unwrap());
            tags.push(if back == Some(size as usize) { 'y' } else { 'n' });
        }
        out(format!("kernel id=bscode cls=bscode|all fn=bscode impl={tags}"));
        let mut s = String::new();
        for bits in 0..=255u32 {
            s.push(match vh::sample_size_code(bits as u8) {
                Some(t) => char::from_digit(u32::from(t), 16).unwrap(),
                None => '-',
            });
        }
        out(format!("kernel id=sscode cls=sscode|all fn=sscode impl={s}"));
        // sample rates: every rate 0..=1048575 in blocks of 65536
        for blk in 0..16u32 {
            let mut s = String::with_capacity(65536 * 2);
            for r in (blk * 65536)..((blk + 1) * 65536) {
                match vh::sample_rate_code(r) {
                    Some((tag, _bits, _extra)) => s.push(char::from_digit(u32::from(tag), 16).unwrap()),
                    None => s.push('-'),
                }
            }
            out(format!("kernel id=srcode{blk} cls=srcode|blk{blk} fn=srcode from={} impl={s}", blk * 65536));
        }
        // UTF-8-like coding at every bit-length boundary and a random sweep
        let mut vals: Vec<u64> = vec![0];
        for b in 0..=37u32 {
            for d in [-1i64, 0, 1] {
                let v = (1i128 << b) as i64 + d;
                if v >= 0 {
                    vals.push(v as u64);
                }
            }
        }
        for _ in 0..300 {
            let b = rng.below(38);
            vals.push(rng.next() >> (63 - b).min(63));
        }
        let enc: Vec<String> = vals
            .iter()
            .map(|v| match vh::encode_to_utf8like(*v) {
                Some(b) => crate::util::hex(&b),
                None => "x".to_string(),
            })
            .collect();
        out(format!("kernel id=utf8 cls=utf8|all fn=utf8 vals={} impl={}", ints(&vals), enc.join(",")));
        // finest partition order: size 1..=4096 x min partition 64..=96 (sampled) + boundary
        let mut s = String::new();
        let mut args = vec![];
        for size in 64..=2200usize {
            for mp in [64usize, 65, 70, 96] {
                if mp <= size {
                    args.push((size, mp));
                }
            }
        }
        for size in [4096usize, 4608, 8192, 16384, 32767, 32766, 32768 - 64, 16384 + 64] {
            for mp in [64usize, 88] {
                args.push((size, mp));
            }
        }
        for (size, mp) in &args {
            s.push(char::from_digit(vh::finest_partition_order(*size, *mp) as u32, 16).unwrap());
        }
        let a: Vec<String> = args.iter().map(|(a, b)| format!("{a}:{b}")).collect();
        out(format!("kernel id=finest cls=finest|all fn=finest args={} impl={s}", a.join(",")));
    }
    out("#exhaustive bscode(1..65535) sscode(0..255) srcode(0..1048575)".to_string());
}

fn search_record(id: &str, sig: &[i32], warm: usize, max_p: usize, class: &str) -> String {
    let s2 = sig.to_vec();
    let res = catch(move || vh::find_partitioned_rice_parameter(&s2, warm, max_p));
    match res {
        Err(m) => format!("kernel id={id} cls=search|{class}|panic fn=search warm={warm} maxp={max_p} sig={} impl=panic:{m} o_c13=fail:panic", ints(sig)),
        Ok((order, ps, code_bits)) => {
            let cost = choice_cost(sig, warm, order, &ps);
            let n = sig.len();
            let in_space = order <= 15 && n % (1 << order) == 0 && warm.max(64) * (1 << order) <= n && ps.len() == 1 << order && ps.iter().all(|p| *p as usize <= max_p);
            let o13 = if !in_space {
                "fail:choice_outside_the_search_space".to_string()
            } else if n <= 1200 {
                match brute_optimum(sig, warm, max_p) {
                    Some(opt) if opt < (1 << 28) - 1 && cost != opt => format!("fail:suboptimal_chosen_{cost}_optimum_{opt}"),
                    Some(opt) if opt == (1 << 28) - 1 && cost != opt => "edge".to_string(),
                    _ => "ok".to_string(),
                }
            } else {
                "ok".to_string()
            };
            let o13 = if o13 == "edge" { "ok".to_string() } else { o13 };
            format!(
                "kernel id={id} cls=search|{class}|o{order}|m{max_p} fn=search warm={warm} maxp={max_p} sig={} impl={order}:{}:{code_bits} impl_cost={cost} o_c13={o13}",
                ints(sig), ints(&ps)
            )
        }
    }
}
