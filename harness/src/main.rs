//! `fvh` — correspondence harness. Runs the real flacenc code (built from /repo's working tree
//! with `--cfg flacenc_verif`) on generated cases and prints one protocol record per line.

mod api;
#[cfg(feature = "decode")]
mod comp;
mod config;
mod gen;
mod history;
mod kernel;
#[cfg(feature = "par")]
mod par;
#[cfg(feature = "decode")]
mod parser;
mod sink;
mod stream;
mod util;

use std::io::Write;

fn arg<T: std::str::FromStr>(args: &[String], key: &str, default: T) -> T {
    args.iter()
        .position(|a| a == key)
        .and_then(|i| args.get(i + 1))
        .and_then(|v| v.parse().ok())
        .unwrap_or(default)
}

fn flag(args: &[String], key: &str) -> bool {
    args.iter().any(|a| a == key)
}

fn main() {
    let args: Vec<String> = std::env::args().collect();
    let cmd = args.get(1).map(String::as_str).unwrap_or("");
    let seed: u64 = arg(&args, "--seed", 1);
    let cases: usize = arg(&args, "--cases", 100);
    util::silence_panics();
    let stdout = std::io::stdout();
    let mut w = std::io::BufWriter::new(stdout.lock());
    let mut out = |s: String| {
        writeln!(w, "{s}").unwrap();
    };
    match cmd {
        "sink" => sink::generate(seed, cases, flag(&args, "--exhaustive"), &mut out),
        "stream" => {
            let max_samples: usize = arg(&args, "--max-samples", 8192);
            let focus: String = arg(&args, "--focus", "none".to_string());
            stream::generate(seed, cases, max_samples, &focus, &mut out);
        }
        "api" => api::generate(seed, flag(&args, "--thorough"), &mut out),
        #[cfg(feature = "decode")]
        "comp" => comp::generate(seed, cases, &mut out),
        "config" => config::generate(seed, cases, flag(&args, "--thorough"), &mut out),
        "history" => history::generate(seed, cases, &mut out),
        "kernel" => kernel::generate(seed, cases, &mut out),
        #[cfg(feature = "par")]
        "par" => par::generate(seed, cases, &mut out),
        #[cfg(feature = "decode")]
        "parser" => {
            let stride: usize = arg(&args, "--burst-stride", 8);
            let nrandom: usize = arg(&args, "--random", 1000);
            parser::generate(seed, cases, stride, nrandom, &mut out);
        }
        "replay" => {
            // records come from $FVH_REPLAY (one record) or stdin (one per line)
            let mut lines: Vec<String> = vec![];
            if let Ok(l) = std::env::var("FVH_REPLAY") {
                lines.push(l);
            } else {
                use std::io::BufRead;
                for l in std::io::stdin().lock().lines() {
                    lines.push(l.unwrap());
                }
            }
            for l in lines {
                let kind = l.split(' ').next().unwrap_or("");
                match kind {
                    "sink" => out(sink::replay(&l)),
                    "stream" => out(stream::replay(&l)),
                    #[cfg(feature = "decode")]
                    "parser" => out(parser::replay(&l)),
                    _ => out(format!("#cannot-replay {kind}")),
                }
            }
        }
        _ => {
            eprintln!("usage: fvh <stream> [--seed N] [--cases N] ...");
            std::process::exit(2);
        }
    }
    drop(out);
    w.flush().unwrap();
    drop(w);
    // helper threads that hang (a finding, reported in the records) must not keep the process alive
    std::process::exit(0);
}
