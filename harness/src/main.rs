//! `fvh` — correspondence harness. Runs the real flacenc code (built from /repo's working tree
//! with `--cfg flacenc_verif`) on generated cases and prints one protocol record per line.

mod sink;
mod util;

use std::io::Write;

fn arg<T: std::str::FromStr>(args: &[String], key: &str, default: T) -> T {
    args.iter()
        .position(|a| a == key)
        .and_then(|i| args.get(i + 1))
        .and_then(|v| v.parse().ok())
        .unwrap_or(default)
}

fn flag(args: &[String], key: &str) -> bool {
    args.iter().any(|a| a == key)
}

fn main() {
    let args: Vec<String> = std::env::args().collect();
    let cmd = args.get(1).map(String::as_str).unwrap_or("");
    let seed: u64 = arg(&args, "--seed", 1);
    let cases: usize = arg(&args, "--cases", 100);
    util::silence_panics();
    let stdout = std::io::stdout();
    let mut w = std::io::BufWriter::new(stdout.lock());
    let mut out = |s: String| {
        writeln!(w, "{s}").unwrap();
    };
    match cmd {
        "sink" => sink::generate(seed, cases, flag(&args, "--exhaustive"), &mut out),
        _ => {
            eprintln!("usage: fvh <stream> [--seed N] [--cases N] ...");
            std::process::exit(2);
        }
    }
}
