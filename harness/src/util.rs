//! PRNG, hex helpers, panic capture. Every random choice in the harness derives from one `Rng`.

use std::fmt::Write as _;

#[derive(Clone)]
pub struct Rng(pub u64);

impl Rng {
    pub fn new(seed: u64) -> Self {
        // splitmix64 scrambling of the seed so that small seeds differ a lot
        let mut r = Rng(seed.wrapping_mul(0x9E37_79B9_7F4A_7C15) ^ 0xD1B5_4A32_D192_ED03);
        r.next();
        r
    }
    pub fn fork(&mut self, tag: u64) -> Rng {
        Rng::new(self.next() ^ tag.wrapping_mul(0xA24B_AED4_963E_E407))
    }
    pub fn next(&mut self) -> u64 {
        self.0 = self.0.wrapping_add(0x9E37_79B9_7F4A_7C15);
        let mut z = self.0;
        z = (z ^ (z >> 30)).wrapping_mul(0xBF58_476D_1CE4_E5B9);
        z = (z ^ (z >> 27)).wrapping_mul(0x94D0_49BB_1331_11EB);
        z ^ (z >> 31)
    }
    /// Uniform in `0..n` (n > 0).
    pub fn below(&mut self, n: u64) -> u64 {
        self.next() % n
    }
    pub fn range(&mut self, lo: i64, hi: i64) -> i64 {
        lo + (self.next() % ((hi - lo + 1) as u64)) as i64
    }
    pub fn chance(&mut self, percent: u64) -> bool {
        self.below(100) < percent
    }
    pub fn pick<'a, T>(&mut self, xs: &'a [T]) -> &'a T {
        &xs[self.below(xs.len() as u64) as usize]
    }
    /// Roughly normal (sum of 4 uniforms) in [-1, 1].
    pub fn gauss(&mut self) -> f64 {
        let mut s = 0.0;
        for _ in 0..4 {
            s += (self.next() >> 11) as f64 / (1u64 << 53) as f64;
        }
        (s - 2.0) / 2.0
    }
}

pub fn hex(bytes: &[u8]) -> String {
    let mut s = String::with_capacity(bytes.len() * 2);
    for b in bytes {
        write!(s, "{b:02x}").unwrap();
    }
    if s.is_empty() {
        s.push('-');
    }
    s
}

pub fn unhex(s: &str) -> Vec<u8> {
    if s == "-" {
        return vec![];
    }
    (0..s.len() / 2)
        .map(|i| u8::from_str_radix(&s[2 * i..2 * i + 2], 16).unwrap())
        .collect()
}

pub fn ints<T: std::fmt::Display>(xs: &[T]) -> String {
    if xs.is_empty() {
        return "-".to_string();
    }
    let mut s = String::new();
    for (i, x) in xs.iter().enumerate() {
        if i > 0 {
            s.push(',');
        }
        write!(s, "{x}").unwrap();
    }
    s
}

pub fn parse_ints<T: std::str::FromStr>(s: &str) -> Vec<T>
where
    T::Err: std::fmt::Debug,
{
    if s == "-" || s.is_empty() {
        return vec![];
    }
    s.split(',').map(|t| t.parse::<T>().unwrap()).collect()
}

/// Runs `f`, converting a panic into `Err(message)`. The default panic hook is silenced while
/// `f` runs (the message is kept).
pub fn catch<R>(f: impl FnOnce() -> R + std::panic::UnwindSafe) -> Result<R, String> {
    match std::panic::catch_unwind(f) {
        Ok(r) => Ok(r),
        Err(e) => {
            let msg = if let Some(s) = e.downcast_ref::<&str>() {
                (*s).to_string()
            } else if let Some(s) = e.downcast_ref::<String>() {
                s.clone()
            } else {
                "panic".to_string()
            };
            Err(msg.replace([' ', '\n'], "_"))
        }
    }
}

pub static PANIC_COUNT: std::sync::atomic::AtomicUsize = std::sync::atomic::AtomicUsize::new(0);

pub fn silence_panics() {
    std::panic::set_hook(Box::new(|info| {
        PANIC_COUNT.fetch_add(1, std::sync::atomic::Ordering::SeqCst);
        // keep one line on stderr for diagnosis, prefixed so that drivers can filter it
        let loc = info
            .location()
            .map(|l| format!("{}:{}", l.file(), l.line()))
            .unwrap_or_default();
        eprintln!("[fvh-panic] {loc}");
    }));
}

/// key=value lookup in a protocol line.
pub fn field<'a>(line: &'a str, key: &str) -> Option<&'a str> {
    line.split(' ')
        .find_map(|tok| tok.strip_prefix(key).and_then(|r| r.strip_prefix('=')))
}
