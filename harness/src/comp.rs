//! `comp` correspondence stream (C08, C12, C18): public component constructors on grids of boundary
//! and inconsistent arguments; for every accepted component: verify, count_bits, write through both
//! in-memory sinks and through a recording user sink, parse back; for sub-frames also a sink failing
//! on its k-th operation for every k.
//!   comp id=… cls=<ctor>|<class> ctor=<name> a=<args ; separated> impl_ctor=ok|err|panic
//!        [impl_verify=0|1 impl_count=N impl_len8=N impl_len64=N impl_bytes=<hex> impl_ops=<ops> impl_parse=same|diff|err|panic|na
//!         impl_fail=<ok|first bad k>] o_c08=… o_c12=… o_c18=…

use crate::sink::UserSink;
use crate::util::{catch, hex, ints, Rng};
use flacenc::bitsink::{ByteSink, MemSink};
use flacenc::component::*;
use flacenc::error::Verify;

type BitErr<'a> = (( &'a [u8], usize), nom::error::ErrorKind);

/// Everything observed about one accepted component.
struct Obs {
    verify: bool,
    count: usize,
    len8: usize,
    len64: usize,
    bytes: Vec<u8>,
    ops: Vec<String>,
    parse: String,
    fail: String,
}

/// A `FrameHeader::write` that FAILS after part of the header went into the thread-local scratch buffer (a start
/// sample number that cannot be coded). Every observation below runs right after one: what a component reports and
/// writes must not depend on an earlier failed write on the same thread.
fn failed_header_write() {
    if let Ok(mut h) = FrameHeader::new(192, ChannelAssignment::Independent(1), 16, 44100, FrameOffset::Frame(0)) {
        h.set_frame_offset(FrameOffset::StartSample(1u64 << 36));
        let mut sink = MemSink::<u8>::new();
        let _ = h.write(&mut sink);
    }
}

fn observe<C: BitRepr + Verify>(c: &C, parse_back: &dyn Fn(&[u8]) -> String, all_k: bool) -> Obs {
    failed_header_write();
    let verify = c.verify().is_ok();
    let count = c.count_bits();
    let mut s8 = MemSink::<u8>::new();
    c.write(&mut s8).expect("memsink");
    let mut s64 = MemSink::<u64>::new();
    c.write(&mut s64).expect("memsink");
    let mut us = UserSink::default();
    c.write(&mut us).expect("usersink");
    let mut bytes = vec![0u8; (s8.len() + 7) / 8];
    s8.write_to_byte_slice(&mut bytes);
    let mut bytes64 = vec![0u8; (s64.len() + 7) / 8];
    s64.write_to_byte_slice(&mut bytes64);
    let mut fail = "ok".to_string();
    if bytes != bytes64 || us.packed() != bytes {
        fail = "sinks_disagree".to_string();
    }
    // failing sink: every k (or a sample of them for long op lists)
    let nops = us.ops.len();
    let ks: Vec<usize> = if all_k || nops <= 400 { (0..nops).collect() } else { (0..nops).step_by(nops / 300 + 1).chain([nops - 1]).collect() };
    for (k, transient) in ks.iter().flat_map(|k| [(*k, false), (*k, true)]) {
        // permanent failure from the k-th operation on, and a transient failure of exactly the k-th call
        // (a write that carries on after an error would then push further data into the sink)
        let mut fs = UserSink { fail_at: Some(k), transient, ..UserSink::default() };
        match c.write(&mut fs) {
            Ok(()) => {
                fail = format!("k{k}_returned_ok");
                break;
            }
            Err(flacenc::error::OutputError::Sink(_)) => {
                if fs.ops.len() != k || fs.ops[..] != us.ops[..k] {
                    fail = format!("k{k}_accepted_ops_are_not_the_prefix");
                    break;
                }
                // accepted bits are a prefix of the correct bitstream
                if fs.bits.len() > us.bits.len() || fs.bits[..] != us.bits[..fs.bits.len()] {
                    fail = format!("k{k}_accepted_bits_are_not_a_prefix");
                    break;
                }
            }
            Err(_) => {
                fail = format!("k{k}_other_error");
                break;
            }
        }
    }
    // after all those failed writes (no successful one in between) a healthy sink must still receive the
    // correct bitstream: a failure must not leave anything behind in the serialiser's scratch state
    if fail == "ok" {
        let mut hs = UserSink::default();
        match c.write(&mut hs) {
            Ok(()) if hs.ops == us.ops => {}
            Ok(()) => fail = "healthy_sink_after_failed_writes_gets_a_different_bitstream".to_string(),
            Err(_) => fail = "healthy_sink_after_failed_writes_errors".to_string(),
        }
    }
    Obs { verify, count, len8: s8.len(), len64: s64.len(), parse: parse_back(&bytes), bytes, ops: us.ops, fail }
}

fn finish(head: String, res: Result<Option<Obs>, String>) -> String {
    match res {
        Err(m) => format!("{head} impl_ctor=panic msg={m} o_c08=ok o_c12=ok o_c18=fail:constructor_or_verify_or_write_panicked"),
        Ok(None) => format!("{head} impl_ctor=err o_c08=ok o_c12=ok o_c18=ok"),
        Ok(Some(o)) => {
            let o08 = if o.count != o.len8 || o.count != o.len64 {
                format!("fail:count_{}_written_{}_{}", o.count, o.len8, o.len64)
            } else {
                "ok".to_string()
            };
            let o12 = if o.fail == "ok" { "ok".to_string() } else { format!("fail:{}", o.fail) };
            // C15: what the writer emitted for an accepted component is read back identically by the parser
            let o15 = if o.parse == "diff" || o.parse == "err" || o.parse == "panic" { format!("fail:parse_back_{}", o.parse) } else { "ok".to_string() };
            let o18 = if !o.verify {
                "fail:constructed_component_does_not_verify".to_string()
            } else if o.parse == "diff" || o.parse == "err" || o.parse == "panic" {
                format!("fail:parse_back_{}", o.parse)
            } else if o.count != o.len8 || o.count != o.len64 {
                // C18: "serialises ... to exactly the number of bits it reports"
                format!("fail:accepted_component_reports_{}_bits_but_writes_{}", o.count, o.len8)
            } else {
                "ok".to_string()
            };
            format!(
                "{head} impl_ctor=ok impl_verify={} impl_count={} impl_len8={} impl_len64={} impl_bytes={} impl_ops={} impl_parse={} impl_fail={} o_c08={o08} o_c12={o12} o_c15={o15} o_c18={o18}",
                o.verify as u8, o.count, o.len8, o.len64, hex(&o.bytes), if o.ops.is_empty() { "-".to_string() } else { o.ops.join(",") }, o.parse, o.fail
            )
        }
    }
}

fn residual_fields(r: &Residual) -> String {
    let (o, n, w, p, q, rem) = flacenc::verif_hooks::residual_parts(r);
    format!("{o};{n};{w};{};{};{}", ints(&p), ints(&q), ints(&rem))
}

fn parse_residual_back(n: usize, warm: usize, expect: String) -> impl Fn(&[u8]) -> String {
    move |bytes: &[u8]| {
        let b = bytes.to_vec();
        let e = expect.clone();
        catch(move || match parser::residual::<BitErr>(n, warm)((&b, 0)) {
            Ok((_, r)) => {
                if residual_fields(&r) == e {
                    "same".to_string()
                } else {
                    "diff".to_string()
                }
            }
            Err(_) => "err".to_string(),
        })
        .unwrap_or_else(|_| "panic".to_string())
    }
}

fn subframe_sig(s: &SubFrame) -> String {
    match s {
        SubFrame::Constant(c) => format!("C;{};{};{}", c.block_size(), c.dc_offset(), c.bits_per_sample()),
        SubFrame::Verbatim(v) => format!("V;{};{}", ints(v.samples()), v.bits_per_sample()),
        SubFrame::FixedLpc(f) => format!("F;{};{};{}", ints(f.warm_up()), f.bits_per_sample(), residual_fields(f.residual())),
        SubFrame::Lpc(l) => {
            let (c, sh, pr) = flacenc::verif_hooks::qparams_parts(l.parameters());
            format!("L;{};{};{};{sh};{pr};{}", ints(l.warm_up()), l.bits_per_sample(), ints(&c), residual_fields(l.residual()))
        }
    }
}

fn parse_subframe_back(n: usize, bps: usize, expect: String) -> impl Fn(&[u8]) -> String {
    move |bytes: &[u8]| {
        let b = bytes.to_vec();
        let e = expect.clone();
        catch(move || match parser::subframe::<BitErr>(n, bps)((&b, 0)) {
            Ok((_, s)) => {
                if subframe_sig(&s) == e {
                    "same".to_string()
                } else {
                    "diff".to_string()
                }
            }
            Err(_) => "err".to_string(),
        })
        .unwrap_or_else(|_| "panic".to_string())
    }
}

/// A consistent residual for `n` samples with warm-up `w`, partition order `o`, random content.
fn good_residual(rng: &mut Rng, o: usize, n: usize, w: usize, big: bool) -> (Vec<u8>, Vec<u32>, Vec<u32>) {
    let parts = 1usize << o;
    let plen = (n / parts).max(1);
    let params: Vec<u8> = (0..parts).map(|_| rng.below(15) as u8).collect();
    let mut q = vec![0u32; n];
    let mut r = vec![0u32; n];
    for t in w.min(n)..n {
        let p = params[(t / plen).min(parts - 1)];
        q[t] = if big { (rng.next() as u32) >> rng.below(20) } else { rng.below(12) as u32 };
        r[t] = if p == 0 { 0 } else { (rng.next() as u32) & ((1u32 << p) - 1) };
    }
    (params, q, r)
}

pub fn generate(seed: u64, cases: usize, out: &mut dyn FnMut(String)) {
    let mut rng = Rng::new(seed ^ 0xc0);
    let id = std::cell::Cell::new(0usize);
    let next_id = || {
        id.set(id.get() + 1);
        format!("c{}", id.get())
    };

    // ------------------------------------------------------------------ Residual::new
    let mut residual_case = |rng: &mut Rng, class: &str, o: usize, n: usize, w: usize, params: Vec<u8>, q: Vec<u32>, r: Vec<u32>, out: &mut dyn FnMut(String)| {
        let _ = rng;
        let head = format!(
            "comp id={} cls=residual|{class} ctor=residual a={o};{n};{w};{};{};{}",
            next_id(), ints(&params), ints(&q), ints(&r)
        );
        let (p2, q2, r2) = (params.clone(), q.clone(), r.clone());
        let res = catch(move || {
            Residual::new(o, n, w, &p2, &q2, &r2).ok().map(|c| {
                let sig = residual_fields(&c);
                observe(&c, &parse_residual_back(n, w, sig), true)
            })
        });
        out(finish(head, res));
    };
    // consistent ones: arbitrary partition orders, parameters 0..=14, big quotients (sums around 2^32)
    for i in 0..cases {
        let o = (i % 6) as usize;
        let parts = 1usize << o;
        let n = parts * (1 + rng.below(if i % 7 == 0 { 40 } else { 6 }) as usize);
        let w = rng.below((n / parts) as u64 + 1) as usize;
        let big = i % 3 == 0;
        let (p, mut q, r) = good_residual(&mut rng, o, n, w, big);
        if i % 11 == 0 && n > w {
            // quotient sum straddling 2^32 while each stays in u32 — not written (too long), only counted
            q[w] = u32::MAX;
        }
        // writing q zeros bit by bit: cap the total so that records stay small
        let total: u64 = q.iter().map(|x| u64::from(*x)).sum();
        if total > 200_000 {
            // count-only record: construct + verify + count (no write)
            let head = format!("comp id={} cls=residual|bigsum ctor=residual_count a={o};{n};{w};{};{};{}", next_id(), ints(&p), ints(&q), ints(&r));
            let (p2, q2, r2) = (p.clone(), q.clone(), r.clone());
            let res = catch(move || Residual::new(o, n, w, &p2, &q2, &r2).ok().map(|c| (c.verify().is_ok(), c.count_bits())));
            out(match res {
                Err(m) => format!("{head} impl_ctor=panic msg={m} o_c08=ok o_c12=ok o_c18=fail:panic"),
                Ok(None) => format!("{head} impl_ctor=err o_c08=ok o_c12=ok o_c18=ok"),
                Ok(Some((v, c))) => format!("{head} impl_ctor=ok impl_verify={} impl_count={c} o_c08=ok o_c12=ok o_c18={}", v as u8, if v { "ok" } else { "fail:does_not_verify" }),
            });
            continue;
        }
        residual_case(&mut rng, "consistent", o, n, w, p, q, r, out);
    }
    // inconsistent ones: one defect at a time, on a small consistent base
    let base = |rng: &mut Rng| {
        let (p, q, r) = good_residual(rng, 1, 8, 2, false);
        (1usize, 8usize, 2usize, p, q, r)
    };
    let defects: Vec<(&str, Box<dyn Fn(&mut (usize, usize, usize, Vec<u8>, Vec<u32>, Vec<u32>))>)> = vec![
        ("order16", Box::new(|c| c.0 = 16)),
        ("order40", Box::new(|c| c.0 = 40)),
        ("order7", Box::new(|c| c.0 = 7)),
        ("order64", Box::new(|c| c.0 = 64)),
        ("order256p1", Box::new(|c| c.0 = 257)),
        ("order2pow32p1", Box::new(|c| c.0 = (1usize << 32) + 1)),
        ("params_short", Box::new(|c| { c.3.pop(); })),
        ("params_long", Box::new(|c| c.3.push(3))),
        ("params_empty", Box::new(|c| c.3.clear())),
        ("param15", Box::new(|c| c.3[0] = 15)),
        ("param40", Box::new(|c| c.3[1] = 40)),
        ("param255", Box::new(|c| c.3[0] = 255)),
        ("n_not_divisible", Box::new(|c| { c.1 = 7; c.4.pop(); c.5.pop(); })),
        ("n_zero", Box::new(|c| { c.1 = 0; c.4.clear(); c.5.clear(); })),
        ("warm_gt_part", Box::new(|c| { c.2 = 5; for t in 0..5 { c.4[t] = 0; c.5[t] = 0; } })),
        ("warm_gt_n", Box::new(|c| c.2 = 9)),
        ("warm_huge", Box::new(|c| c.2 = usize::MAX)),
        ("quot_short", Box::new(|c| { c.4.pop(); })),
        ("quot_long", Box::new(|c| c.4.push(0))),
        ("rem_short", Box::new(|c| { c.5.pop(); })),
        ("both_short", Box::new(|c| { c.4.pop(); c.5.pop(); })),
        ("n_mismatch", Box::new(|c| c.1 = 16)),
        ("warm_nonzero_q", Box::new(|c| c.4[0] = 1)),
        ("warm_nonzero_r", Box::new(|c| { c.3[0] = 3; c.5[1] = 1; })),
        ("rem_too_wide", Box::new(|c| { c.3[1] = 2; c.5[7] = 4; })),
        ("n_too_big", Box::new(|c| { c.0 = 0; c.3 = vec![0]; c.1 = 32768; c.2 = 0; c.4 = vec![0; 32768]; c.5 = vec![0; 32768]; })),
    ];
    for (name, f) in &defects {
        let mut c = base(&mut rng);
        f(&mut c);
        residual_case(&mut rng, name, c.0, c.1, c.2, c.3, c.4, c.5, out);
    }

    // ------------------------------------------------------------------ QuantizedParameters::new
    let mut qp_case = |class: &str, coefs: Vec<i16>, order: usize, shift: i8, precision: usize, out: &mut dyn FnMut(String)| {
        let head = format!("comp id={} cls=qparams|{class} ctor=qparams a={};{order};{shift};{precision}", next_id(), ints(&coefs));
        let c2 = coefs.clone();
        let res = catch(move || QuantizedParameters::new(&c2, order, shift, precision).map(|q| q.verify().is_ok()).ok());
        out(match res {
            Err(m) => format!("{head} impl_ctor=panic msg={m} o_c08=ok o_c12=ok o_c18=fail:panic"),
            Ok(None) => format!("{head} impl_ctor=err o_c08=ok o_c12=ok o_c18=ok"),
            Ok(Some(v)) => format!("{head} impl_ctor=ok impl_verify={} o_c08=ok o_c12=ok o_c18={}", v as u8, if v { "ok" } else { "fail:does_not_verify" }),
        });
    };
    for &order in &[0usize, 1, 2, 3, 24, 25, 32, 33, 256 + 2, (1usize << 32) + 2, usize::MAX] {
        for &len in &[0usize, 1, 2, 3, 24, 25, 32, 33] {
            if len != order.min(40) && len != 2 {
                continue;
            }
            qp_case("shape", vec![1i16; len], order, 3, 8, out);
        }
    }
    for &shift in &[-16i8, -1, 0, 1, 15, 16, 127, -128] {
        qp_case("shift", vec![1, -2], 2, shift, 8, out);
    }
    for &precision in &[0usize, 1, 2, 14, 15, 16, 17, 256 + 8, (1usize << 32) + 8, usize::MAX] {
        qp_case("precision", vec![0, -1], 2, 3, precision, out);
    }
    for &(c, p) in &[(127i16, 8usize), (128, 8), (-128, 8), (-129, 8), (0, 1), (-1, 1), (1, 1), (16383, 15), (16384, 15), (-16384, 15), (-16385, 15), (i16::MAX, 15), (i16::MIN, 15)] {
        qp_case("coef_range", vec![c, 0], 2, 3, p, out);
    }

    // ------------------------------------------------------------------ Constant / Verbatim
    for &n in &[0usize, 1, 32, 32767, 32768, 65536, (1usize << 32) + 64, usize::MAX] {
        for &(dc, bps) in &[(0i32, 16usize), (-32768, 16), (32767, 16), (32768, 16), (-32769, 16), (5, 0), (5, 7), (5, 8), (5, 9), (5, 10), (5, 24), (5, 25), (5, 26), (5, 32), (5, 33), (5, 256 + 16), (5, (1usize << 32) + 16)] {
            if n != 32 && !(dc == 0 && bps == 16) {
                continue;
            }
            let head = format!("comp id={} cls=constant|n{}b{} ctor=constant a={n};{dc};{bps}", next_id(), n.min(99999), bps.min(999));
            let res = catch(move || {
                Constant::new(n, dc, bps).ok().map(|c| {
                    let sf: SubFrame = c.into();
                    let sig = subframe_sig(&sf);
                    observe(&sf, &parse_subframe_back(n, bps, sig), true)
                })
            });
            out(finish(head, res));
        }
    }
    for &(len, bps, v) in &[(0usize, 16usize, 0i32), (1, 16, 5), (5, 16, -32768), (5, 16, 32768), (5, 8, -128), (5, 8, 128), (5, 9, 255), (5, 25, 1 << 24), (5, 25, -(1 << 24)), (5, 26, 0), (5, 7, 0), (5, 256 + 16, 0), (32767, 8, 1), (32768, 8, 1)] {
        let samples = vec![v; len];
        let head = format!("comp id={} cls=verbatim|l{len}b{} ctor=verbatim a={};{bps}", next_id(), bps.min(999), if len > 64 { format!("rep:{v}:{len}") } else { ints(&samples) });
        let res = catch(move || {
            Verbatim::new(&samples, bps).ok().map(|c| {
                let sf: SubFrame = c.into();
                let sig = subframe_sig(&sf);
                observe(&sf, &parse_subframe_back(len, bps, sig), len <= 64)
            })
        });
        out(finish(head, res));
    }

    // ------------------------------------------------------------------ FixedLpc / Lpc
    for i in 0..(cases / 2).max(20) {
        let order = (i % 6) as usize; // 5 = too long
        let o = (i / 6 % 3) as usize;
        let parts = 1usize << o;
        let n = parts * (4 + rng.below(5) as usize);
        let declared = match i % 5 {
            0 => order + 1,
            1 if order > 0 => order - 1,
            _ => order,
        }
        .min(n / parts);
        let bps = *rng.pick(&[8usize, 16, 17, 24, 25]);
        let lo = -(1i64 << (bps - 1));
        let hi = (1i64 << (bps - 1)) - 1;
        let warm: Vec<i32> = (0..order).map(|j| if j == 0 && i % 13 == 0 { (hi + 1) as i32 } else { rng.range(lo, hi) as i32 }).collect();
        let (p, q, r) = good_residual(&mut rng, o, n, declared, false);
        let head = format!(
            "comp id={} cls=fixed|o{order}d{declared} ctor=fixed a={};{bps};{o};{n};{declared};{};{};{}",
            next_id(), ints(&warm), ints(&p), ints(&q), ints(&r)
        );
        let (w2, p2, q2, r2) = (warm.clone(), p.clone(), q.clone(), r.clone());
        let res = catch(move || {
            let residual = Residual::new(o, n, declared, &p2, &q2, &r2).ok()?;
            FixedLpc::new(&w2, residual, bps).ok().map(|c| {
                let sf: SubFrame = c.into();
                let sig = subframe_sig(&sf);
                observe(&sf, &parse_subframe_back(n, bps, sig), true)
            })
        });
        out(finish(head, res));
    }
    for i in 0..(cases / 2).max(20) {
        let order = match i % 7 {
            0 => 0,
            1 => 1,
            2 => 24,
            3 => 25,
            _ => 1 + rng.below(8) as usize,
        };
        let qorder = if i % 5 == 0 { order + 1 } else { order }.min(24);
        let precision = 1 + rng.below(15) as usize;
        // mostly valid shifts; sometimes a negative one (a 5-bit two's-complement field in the format, but the
        // writer cannot serialise it: the constructor must refuse)
        let shift = if i % 11 == 3 { *rng.pick(&[-1i8, -16, -8]) } else { rng.below(16) as i8 };
        let cmax = (1i64 << (precision - 1)) - 1;
        let cmin = -(1i64 << (precision - 1));
        let coefs: Vec<i16> = (0..qorder).map(|_| rng.range(cmin, cmax) as i16).collect();
        let o = (i / 7 % 2) as usize;
        let parts = 1usize << o;
        let n = parts * (order.max(1) + 3 + rng.below(4) as usize);
        let declared = if i % 6 == 1 { order.saturating_sub(1) } else { order }.min(n / parts);
        let bps = *rng.pick(&[8usize, 16, 17, 24, 25]);
        let lo = -(1i64 << (bps - 1));
        let hi = (1i64 << (bps - 1)) - 1;
        let warm: Vec<i32> = (0..order).map(|_| rng.range(lo, hi) as i32).collect();
        let (p, q, r) = good_residual(&mut rng, o, n, declared, false);
        let head = format!(
            "comp id={} cls=lpc|o{order}q{qorder}d{declared} ctor=lpc a={};{bps};{};{qorder};{shift};{precision};{o};{n};{declared};{};{};{}",
            next_id(), ints(&warm), ints(&coefs), ints(&p), ints(&q), ints(&r)
        );
        let (w2, c2, p2, q2, r2) = (warm.clone(), coefs.clone(), p.clone(), q.clone(), r.clone());
        let res = catch(move || {
            let residual = Residual::new(o, n, declared, &p2, &q2, &r2).ok()?;
            let qp = QuantizedParameters::new(&c2, qorder, shift, precision).ok()?;
            Lpc::new(&w2, qp, residual, bps).ok().map(|c| {
                let sf: SubFrame = c.into();
                let sig = subframe_sig(&sf);
                observe(&sf, &parse_subframe_back(n, bps, sig), true)
            })
        });
        out(finish(head, res));
    }

    // ------------------------------------------------------------------ FrameHeader::new
    let asgs: Vec<(&str, ChannelAssignment)> = vec![
        ("i0", ChannelAssignment::Independent(0)),
        ("i1", ChannelAssignment::Independent(1)),
        ("i2", ChannelAssignment::Independent(2)),
        ("i8", ChannelAssignment::Independent(8)),
        ("i9", ChannelAssignment::Independent(9)),
        ("i255", ChannelAssignment::Independent(255)),
        ("ls", ChannelAssignment::LeftSide),
        ("rs", ChannelAssignment::RightSide),
        ("ms", ChannelAssignment::MidSide),
    ];
    let mut header_case = |n: usize, a: usize, bps: usize, rate: usize, var: bool, num: u64, out: &mut dyn FnMut(String)| {
        let (aname, asg) = asgs[a].clone();
        let head = format!("comp id={} cls=header|{aname}|{} ctor=header a={n};{aname};{bps};{rate};{};{num}", next_id(), if var { "var" } else { "fix" }, var as u8);
        let res = catch(move || {
            let off = if var { FrameOffset::StartSample(num) } else { FrameOffset::Frame(num as u32) };
            FrameHeader::new(n, asg, bps, rate, off).ok().map(|h| {
                let pb = move |bytes: &[u8]| {
                    let b = bytes.to_vec();
                    catch(move || match parser::frame_header::<nom::error::Error<&[u8]>>(true)(&b) {
                        Ok((rest, h2)) => {
                            let mut s = MemSink::<u8>::new();
                            h2.write(&mut s).unwrap();
                            if rest.is_empty() && s.as_slice() == &b[..] { "same".to_string() } else { "diff".to_string() }
                        }
                        Err(_) => "err".to_string(),
                    })
                    .unwrap_or_else(|_| "panic".to_string())
                };
                observe(&h, &pb, true)
            })
        });
        out(finish(head, res));
    };
    for &n in &[0usize, 1, 2, 16, 191, 192, 193, 255, 256, 257, 576, 768, 1000, 1152, 1728, 2304, 4096, 4608, 9216, 16384, 18432, 32767, 32768, 65535, 65536, 65537, (1usize << 32) + 192, usize::MAX] {
        header_case(n, 2, 16, 44100, false, 0, out);
    }
    for a in 0..asgs.len() {
        header_case(192, a, 16, 44100, false, 7, out);
    }
    for &bps in &[0usize, 4, 8, 9, 12, 16, 17, 20, 24, 25, 32, 33, 256 + 16, (1usize << 32) + 16] {
        header_case(192, 2, bps, 44100, false, 0, out);
    }
    for &rate in &[0usize, 1, 999, 1000, 8000, 44100, 65535, 65536, 65540, 96000, 96001, 192000, 255000, 256000, 655350, 655351, 655360, 1 << 20, (1usize << 32) + 44100, usize::MAX] {
        header_case(192, 2, 16, rate, false, 0, out);
    }
    for &num in &[0u64, 1, 127, 128, 2047, 2048, 65535, 65536, (1 << 21) - 1, 1 << 21, (1 << 26) - 1, 1 << 26, (1 << 31) - 1, 1 << 31, u64::from(u32::MAX)] {
        header_case(4096, 2, 16, 44100, false, num, out);
    }
    for &num in &[0u64, 127, 128, 1 << 31, (1 << 32) - 1, 1 << 32, (1 << 32) + 5, 5_000_000_000, 1 << 35, (1 << 36) - 1, 1 << 36, (1 << 36) + 5, u64::MAX] {
        header_case(4096, 2, 16, 44100, true, num, out);
    }

    // ------------------------------------------------------------------ unknown metadata, stream info
    for &tag in &[0u8, 1, 126, 127, 128, 255] {
        for &len in &[0usize, 1, 5, 300] {
            let data: Vec<u8> = (0..len).map(|i| (i * 7) as u8).collect();
            let head = format!("comp id={} cls=unknown|t{tag}l{len} ctor=unknown a={tag};{}", next_id(), hex(&data));
            let res = catch(move || MetadataBlockData::new_unknown(tag, &data).ok().map(|m| observe(&m, &|_b: &[u8]| "na".to_string(), len <= 64)));
            out(finish(head, res));
        }
    }
    // ------------------------------------------------------------------ StreamInfo::new (parse back through a frameless stream)
    for &(rate, ch, bps) in &[(44100usize, 2usize, 16usize), (1, 1, 8), (96000, 8, 24), (0, 1, 12), (96001, 2, 16), (44100, 0, 16), (44100, 9, 16),
                              (44100, 2, 17), (44100, 2, 20), (44100, 2, 32), ((1usize << 32) + 44100, 2, 16), (44100, 258, 16), (44100, 2, 272)] {
        for &bs in &[0usize, 64, 4096] {
            let head = format!("comp id={} cls=sinfo|{}|{} ctor=sinfo a={rate};{ch};{bps};{bs}", next_id(), (rate <= 96000 && (1..=8).contains(&ch)) as u8, bs);
            let res = catch(move || {
                StreamInfo::new(rate, ch, bps).ok().map(|mut si| {
                    if bs > 0 {
                        si.set_block_sizes(bs, bs).unwrap();
                    }
                    let want = si.clone();
                    let pb = move |bytes: &[u8]| {
                        let b = bytes.to_vec();
                        let w = want.clone();
                        catch(move || match parser::stream_info::<nom::error::Error<&[u8]>>(&b) {
                            Ok((rest, got)) => {
                                if rest.is_empty() && got == w { "same".to_string() } else { "diff".to_string() }
                            }
                            Err(_) => "err".to_string(),
                        })
                        .unwrap_or_else(|_| "panic".to_string())
                    };
                    observe(&si, &pb, true)
                })
            });
            out(finish(head, res));
        }
    }

    // ------------------------------------------------------------------ frameless streams with extra metadata blocks (C08, C15, C18)
    for (k, specs) in [
        vec![],
        vec![(1u8, 0usize)],
        vec![(4, 5)],
        vec![(126, 300)],
        vec![(2, 3), (3, 0), (6, 17)],
        vec![(1, 1), (1, 1), (5, 64), (100, 2), (126, 9)],
    ]
    .into_iter()
    .enumerate()
    {
        for &(rate, ch, bps, bs) in &[(44100usize, 2usize, 16usize, 4096usize), (8000, 1, 8, 0), (96000, 8, 24, 192)] {
            let blocks: Vec<(u8, Vec<u8>)> = specs.iter().map(|&(t, l)| (t, (0..l).map(|i| (i * 13 + k) as u8).collect())).collect();
            let arg = blocks.iter().map(|(t, d)| format!("{t}:{}", hex(d))).collect::<Vec<_>>().join("|");
            let head = format!("comp id={} cls=streammeta|m{}|{} ctor=streammeta a={rate};{ch};{bps};{bs};{}", next_id(), blocks.len(), bs, if arg.is_empty() { "-".to_string() } else { arg });
            let res = catch(move || {
                let mut si = StreamInfo::new(rate, ch, bps).ok()?;
                if bs > 0 {
                    si.set_block_sizes(bs, bs).ok()?;
                }
                let mut stream = Stream::with_stream_info(si);
                for (t, d) in &blocks {
                    stream.add_metadata_block(MetadataBlockData::new_unknown(*t, d).ok()?);
                }
                let pb = |bytes: &[u8]| {
                    let b = bytes.to_vec();
                    catch(move || match parser::stream::<nom::error::Error<&[u8]>>(&b) {
                        Ok((_, got)) => {
                            let mut sink = ByteSink::new();
                            if got.write(&mut sink).is_ok() && sink.as_slice() == &b[..] && got.count_bits() == 8 * b.len() { "same".to_string() } else { "diff".to_string() }
                        }
                        Err(_) => "err".to_string(),
                    })
                    .unwrap_or_else(|_| "panic".to_string())
                };
                Some(observe(&stream, &pb, true))
            });
            out(finish(head, res));
        }
    }

    // ------------------------------------------------------------------ whole streams (C12, C08)
    // small streams with every subframe type, written to a sink failing on its k-th operation for
    // every k; frames with and without a precomputed bitstream (multi-thread output has them)
    for (i, b) in crate::parser::bases(&mut rng, 12).into_iter().enumerate() {
        for mode in ["st", "mt:2"] {
            let head = format!("comp id=sw{i}{} cls=streamwrite|{}|{} ctor=streamwrite a={} bytes={}", &mode[..2], &mode[..2], b.kinds, &mode[..2], hex(&b.bytes));
            let (cfg, pcm) = (b.cfg.clone(), b.pcm.clone());
            let expect = b.bytes.clone();
            let res = catch(move || {
                let stream = crate::stream::encode(&cfg, &pcm, mode, "mem").ok()?;
                let pb = move |bytes: &[u8]| if bytes == &expect[..] { "same".to_string() } else { "diff".to_string() };
                Some(observe(&stream, &pb, true))
            });
            out(finish(head, res));
        }
    }
    out("#exhaustive constructor grid".to_string());
}
