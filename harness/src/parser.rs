//! `parser` correspondence stream (C15, C16): small emitted streams, every single-bit flip, every
//! 2..8-bit burst pattern, truncation at every byte, random byte strings — through the crate's own
//! parser under `catch_unwind`. Outcomes are reported as one character per mutant, in the canonical
//! enumeration order that `fvdriver` reproduces:
//!   e = parse error, s = accepted and decodes to the original audio, d = accepted with different
//!   audio (or different format/length), p = parser panicked, q = decoder panicked on an accepted mutant.

use crate::gen::{self, Cfg, Pcm};
use crate::stream::{encode, stream_bytes};
use crate::util::{catch, hex, ints, Rng};
use flacenc::component::parser;
use flacenc::component::{BitRepr, Decode, Stream};
use flacenc::error::Verify;

type NomErr<'a> = nom::error::Error<&'a [u8]>;

/// Outcome of parsing `bytes`, relative to the original interleaved audio.
pub fn outcome(bytes: &[u8], original: &[i32], orig_info: (usize, usize, usize)) -> char {
    let b = bytes.to_vec();
    let parsed = catch(move || match parser::stream::<NomErr>(&b) {
        // `Ok` is acceptance whatever the unconsumed rest is: that is what a caller of
        // `parser::stream` sees (the unchanged parser only returns `Ok` at end of input)
        Ok((_rest, s)) => Some(s),
        Err(_) => None,
    });
    match parsed {
        Err(_) => 'p',
        Ok(None) => 'e',
        Ok(Some(stream)) => {
            let orig = original.to_vec();
            let r = catch(move || {
                let si = stream.stream_info();
                let fmt = (si.sample_rate(), si.channels(), si.bits_per_sample());
                let mut audio = vec![];
                for i in 0..stream.frame_count() {
                    audio.extend(stream.frame(i).unwrap().decode());
                }
                audio == orig && fmt == orig_info
            });
            match r {
                Err(_) => 'q',
                Ok(true) => 's',
                Ok(false) => 'd',
            }
        }
    }
}

/// The burst masks of length 2..=8 bits (first and last bit of the burst set), MSB-first, as
/// `(len, pattern)` with the pattern's MSB being the first bit of the burst. Canonical order.
pub fn burst_patterns() -> Vec<(usize, u32)> {
    let mut v = vec![];
    for len in 2..=8usize {
        let inner = len - 2;
        for mid in 0..(1u32 << inner) {
            v.push((len, (1 << (len - 1)) | (mid << 1) | 1));
        }
    }
    v
}

fn flip(bytes: &mut [u8], bit: usize) {
    bytes[bit / 8] ^= 0x80 >> (bit % 8);
}

pub struct Base {
    pub id: String,
    pub cfg: Cfg,
    pub pcm: Pcm,
    pub bytes: Vec<u8>,
    pub kinds: String,
}

fn kinds_of(stream: &Stream) -> String {
    let mut s = String::new();
    for i in 0..stream.frame_count() {
        let f = stream.frame(i).unwrap();
        for c in 0..f.subframe_count() {
            s.push(match f.subframe(c).unwrap() {
                flacenc::component::SubFrame::Constant(_) => 'C',
                flacenc::component::SubFrame::Verbatim(_) => 'V',
                flacenc::component::SubFrame::FixedLpc(_) => 'F',
                flacenc::component::SubFrame::Lpc(_) => 'L',
            });
        }
        s.push(match f.header().channel_assignment() {
            flacenc::component::ChannelAssignment::Independent(_) => 'i',
            flacenc::component::ChannelAssignment::LeftSide => 'l',
            flacenc::component::ChannelAssignment::RightSide => 'r',
            flacenc::component::ChannelAssignment::MidSide => 'm',
        });
    }
    s
}

/// Small base streams covering every subframe type and stereo mode.
pub fn bases(rng: &mut Rng, count: usize) -> Vec<Base> {
    let mut out = vec![];
    let mut specs: Vec<(&'static str, usize, usize, usize, usize, Option<usize>)> = vec![
        // family, channels, bps, block size, length, max_parameter override
        ("sine_noise", 1, 16, 64, 150, None),
        ("sine_noise", 2, 16, 64, 70, None),
        ("white", 1, 8, 32, 40, None),
        ("dc", 2, 24, 64, 64, None),
        ("ramp", 1, 12, 64, 128, None),
        ("same_stereo", 2, 16, 64, 64, None),
        ("anti_stereo", 2, 20, 64, 96, None),
        ("heavy_tail", 3, 16, 64, 64, None),
        ("sine_small", 1, 16, 192, 192, None),
        ("impulses", 1, 16, 128, 130, Some(3)),
        ("sine_noise", 1, 16, 256, 300, None),
        ("sine_noise", 2, 24, 192, 200, None),
    ];
    while specs.len() < count {
        let fam = *rng.pick(&gen::FAMILIES);
        let ch = 1 + rng.below(3) as usize;
        let bps = *rng.pick(&gen::BPS);
        let bs = *rng.pick(&[32usize, 64, 65, 128, 192, 256]);
        let len = 1 + rng.below(2 * bs as u64 + 10) as usize;
        specs.push((fam, ch, bps, bs, len.min(400 / ch), None));
    }
    for (i, (fam, ch, bps, bs, len, maxp)) in specs.into_iter().take(count).enumerate() {
        let mut cfg = if i < 12 { Cfg::default() } else { gen::random_valid_cfg(rng) };
        cfg.block_size = bs;
        if let Some(m) = maxp {
            cfg.max_parameter = m;
        }
        let rate = *rng.pick(&[44100usize, 48000, 12345, 96000, 8000, 65540]);
        let pcm = gen::pcm(rng, fam, ch, bps, rate, len);
        let mode = if i % 3 == 2 { "frames" } else { "st" };
        if let Ok(stream) = encode(&cfg, &pcm, mode, "mem") {
            let bytes = stream_bytes(&stream);
            out.push(Base { id: format!("b{i}"), cfg, pcm, bytes, kinds: kinds_of(&stream) });
        }
    }
    out
}

/// C15 on one base: parse, verify, re-serialise, decode.
fn c15_oracle(b: &Base) -> String {
    let bytes = b.bytes.clone();
    let orig = b.pcm.data.clone();
    let r = catch(move || match parser::stream::<NomErr>(&bytes) {
        Err(_) => "fail:own_parser_rejects".to_string(),
        Ok((rest, s)) => {
            if !rest.is_empty() {
                return "fail:input_not_consumed".to_string();
            }
            if s.verify().is_err() {
                return "fail:parsed_tree_does_not_verify".to_string();
            }
            if stream_bytes(&s) != bytes {
                return "fail:reserialised_bytes_differ".to_string();
            }
            if s.count_bits() != bytes.len() * 8 {
                return "fail:count_bits_of_parsed_tree".to_string();
            }
            let mut audio = vec![];
            for i in 0..s.frame_count() {
                audio.extend(s.frame(i).unwrap().decode());
            }
            if audio != orig {
                return "fail:decoded_audio_differs".to_string();
            }
            "ok".to_string()
        }
    });
    r.unwrap_or_else(|m| format!("fail:panic_{m}"))
}

fn summarize(out: &str) -> (usize, usize, usize, usize, usize) {
    let c = |ch: char| out.chars().filter(|x| *x == ch).count();
    (c('e'), c('s'), c('d'), c('p'), c('q'))
}

/// First offending mutant index of an outcome string, if any: a panic anywhere (`p`, `q`), or an
/// accepted mutant with different audio (`d`) at index >= `d_from` (the property speaks about
/// alterations INSIDE A FRAME: STREAMINFO is not protected by a check sum, so flipping e.g. a
/// sample-rate bit there is accepted by every FLAC parser).
fn first_bad(out: &str, d_from: usize) -> Option<(usize, char)> {
    out.chars().enumerate().find(|(i, c)| matches!(c, 'p' | 'q') || (*c == 'd' && *i >= d_from))
}


// ---- directed mutants: alterations whose check sums are FORCED to special values -------------------
fn crc16_flac(data: &[u8]) -> u16 {
    let mut r: u16 = 0;
    for b in data {
        r ^= u16::from(*b) << 8;
        for _ in 0..8 {
            r = if r & 0x8000 != 0 { (r << 1) ^ 0x8005 } else { r << 1 };
        }
    }
    r
}

fn crc8_flac(data: &[u8]) -> u8 {
    let mut r: u8 = 0;
    for b in data {
        r ^= *b;
        for _ in 0..8 {
            r = if r & 0x80 != 0 { (r << 1) ^ 0x07 } else { r << 1 };
        }
    }
    r
}

/// Rewrites the two bytes `data[n-2..n]` so that `crc16(data[..n]) == target` (always solvable: the CRC
/// of a two-byte suffix is a bijection).
fn force_crc16(data: &mut [u8], n: usize, target: u16) {
    for v in 0..=u16::MAX {
        // incremental: CRC of the prefix is fixed; only the last two bytes vary
        data[n - 2] = (v >> 8) as u8;
        data[n - 1] = v as u8;
        if crc16_tail(data, n) == target {
            return;
        }
    }
}

fn crc16_tail(data: &[u8], n: usize) -> u16 {
    // CRC over data[..n], with the prefix register cached per (pointer, n) being overkill here: the
    // frames of the base streams are a few hundred bytes, and this is called for a handful of mutants
    thread_local!(static CACHE: std::cell::RefCell<(usize, u64, u16)> = const { std::cell::RefCell::new((0, 0, 0)) });
    let key = data[..n - 2].iter().fold(0xcbf29ce484222325u64, |h, b| (h ^ u64::from(*b)).wrapping_mul(0x100000001b3));
    let pre = CACHE.with(|c| {
        let mut c = c.borrow_mut();
        if c.0 != n || c.1 != key {
            *c = (n, key, crc16_flac(&data[..n - 2]));
        }
        c.2
    });
    let mut r = pre;
    for b in &data[n - 2..n] {
        r ^= u16::from(*b) << 8;
        for _ in 0..8 {
            r = if r & 0x8000 != 0 { (r << 1) ^ 0x8005 } else { r << 1 };
        }
    }
    r
}

/// Directed mutants of one base stream (explicit byte strings): in each of the first frames one body byte
/// is altered and the last two body bytes are then rewritten so that the CRC-16 COMPUTED over the altered
/// frame is 0x0000 / 0xFFFF (a value different from the untouched footer); and one header byte is altered with the last
/// header byte rewritten so that the computed CRC-8 is 0x00 / 0xFF. The footer / CRC-8 byte themselves are
/// left as they were (so a correct parser rejects them all).
fn forced_mutants(b: &Base) -> Vec<Vec<u8>> {
    let mut out = vec![];
    let bytes = b.bytes.clone();
    let Ok((_, stream)) = parser::stream::<NomErr>(&bytes) else { return out };
    let mut start = 42usize;
    for i in 0..stream.frame_count().min(3) {
        let f = stream.frame(i).unwrap();
        let flen = f.count_bits() / 8;
        let hlen = f.header().count_bits() / 8;
        let end = start + flen;
        if end > bytes.len() || flen < hlen + 6 {
            break;
        }
        let footer = (u16::from(bytes[end - 2]) << 8) | u16::from(bytes[end - 1]);
        for (k, target) in [0x0000u16, 0xFFFF].into_iter().enumerate() {
            if target == footer {
                continue; // would be a genuine CRC collision, which no 16-bit check sum can exclude
            }
            let mut m = bytes.clone();
            let pos = start + hlen + 1 + (k * 7) % (flen - hlen - 5);
            m[pos] ^= 0x5A;
            // the frame occupies m[start..end]; the CRC-16 covers m[start..end-2]
            let frame = &mut m[start..end - 2];
            let n = frame.len();
            force_crc16(frame, n, target);
            out.push(m);
        }
        for target in [0x00u8, 0xFF] {
            let mut m = bytes.clone();
            // header = m[start..start+hlen], its last byte is the CRC-8 over the bytes before it
            m[start + 2] ^= 0x10; // block-size nibble
            let fix = start + hlen - 2;
            for v in 0..=255u8 {
                m[fix] = v;
                if crc8_flac(&m[start..start + hlen - 1]) == target {
                    break;
                }
            }
            out.push(m);
        }
        // (c) VALID CRC-8 over an altered header (frame 0 only): every other value of the two tag bytes (block-size /
        // sample-rate codes, channel assignment / sample-size codes / reserved bit), the CRC-8 recomputed and stored
        // where the ALTERED header ends (its length follows the new extra-byte codes). The header check then passes,
        // so reserved codes and inconsistent tags reach the code behind it; the CRC-16 no longer matches.
        if i == 0 {
            let extra = |b2: u8| -> usize {
                (match b2 >> 4 { 6 => 1, 7 => 2, _ => 0 }) + (match b2 & 0x0F { 12 => 1, 13 | 14 => 2, _ => 0 })
            };
            for off in [2usize, 3] {
                for v in 0..=255u8 {
                    if v == bytes[start + off] {
                        continue;
                    }
                    let mut m = bytes.clone();
                    m[start + off] = v;
                    let hl = hlen + extra(m[start + 2]) - extra(bytes[start + 2]);
                    if hl < 6 || start + hl > m.len() {
                        continue;
                    }
                    m[start + hl - 1] = crc8_flac(&m[start..start + hl - 1]);
                    out.push(m);
                }
            }
        }
        start = end;
    }
    out
}

pub fn generate(seed: u64, nbases: usize, burst_stride: usize, nrandom: usize, out: &mut dyn FnMut(String)) {
    let mut rng = Rng::new(seed ^ 0x9a25e7);
    let bs = bases(&mut rng, nbases);
    let pats = burst_patterns();
    let mut tot = [0usize; 5];
    let mut add = |s: &str, tot: &mut [usize; 5]| {
        let (e, k, d, p, q) = summarize(s);
        tot[0] += e;
        tot[1] += k;
        tot[2] += d;
        tot[3] += p;
        tot[4] += q;
    };
    for b in &bs {
        let info = (b.pcm.rate, b.pcm.channels, b.pcm.bps);
        let head = format!(
            "parser id={} prof={} cls={}|b{}c{}|{} cfg={} ch={} bps={} rate={} len={} pcm={} base={}",
            b.id, if cfg!(debug_assertions) { "debug" } else { "release" }, b.pcm.family, b.pcm.bps, b.pcm.channels, b.kinds, b.cfg.render(), b.pcm.channels, b.pcm.bps, b.pcm.rate,
            b.pcm.len(), ints(&b.pcm.data), hex(&b.bytes)
        );
        let o15 = c15_oracle(b);
        // frames start after marker + STREAMINFO block (42 bytes; bases carry no other metadata)
        let nbits = b.bytes.len() * 8;
        // (1) every single-bit flip of the whole stream (frames and metadata)
        let mut flips = String::with_capacity(nbits);
        let mut m = b.bytes.clone();
        for bit in 0..nbits {
            flip(&mut m, bit);
            flips.push(outcome(&m, &b.pcm.data, info));
            flip(&mut m, bit);
        }
        add(&flips, &mut tot);
        // (2) bursts: for every bit position inside the frames (stride = 1 means every position) and
        // every pattern of 2..8 bits
        let mut bursts = String::new();
        let mut pos = 42 * 8;
        while pos < nbits {
            for (len, pat) in &pats {
                if pos + len > nbits {
                    bursts.push('-');
                    continue;
                }
                for j in 0..*len {
                    if pat >> (len - 1 - j) & 1 == 1 {
                        flip(&mut m, pos + j);
                    }
                }
                bursts.push(outcome(&m, &b.pcm.data, info));
                for j in 0..*len {
                    if pat >> (len - 1 - j) & 1 == 1 {
                        flip(&mut m, pos + j);
                    }
                }
            }
            pos += burst_stride;
        }
        add(&bursts, &mut tot);
        // (3) truncation at every byte
        let mut truncs = String::new();
        for n in 0..b.bytes.len() {
            truncs.push(outcome(&b.bytes[..n], &b.pcm.data, info));
        }
        add(&truncs, &mut tot);
        let o16 = match first_bad(&flips, 42 * 8).map(|x| ("flip", x)).or(first_bad(&bursts, 0).map(|x| ("burst", x))).or(first_bad(&truncs, usize::MAX).map(|x| ("trunc", x))) {
            None => "ok".to_string(),
            Some((kind, (i, c))) => format!(
                "fail:{}_{}_{}",
                match c {
                    'p' => "parser_panic",
                    'q' => "decoder_panic_on_accepted_mutant",
                    _ => "altered_stream_accepted_with_different_audio",
                },
                kind,
                i
            ),
        };
        out(format!("{head} stride={burst_stride} flips={flips} bursts={bursts} truncs={truncs} o_c15={o15} o_c16={o16}"));
    }
    // (3b) directed mutants (explicit byte strings): forced check sums
    for b in bs.iter().take(6) {
        let info = (b.pcm.rate, b.pcm.channels, b.pcm.bps);
        let ms = forced_mutants(b);
        if ms.is_empty() {
            continue;
        }
        let outs: String = ms.iter().map(|m| outcome(m, &b.pcm.data, info)).collect();
        add(&outs, &mut tot);
        let o16 = match first_bad(&outs, 0) {
            None => "ok".to_string(),
            Some((i, c)) => format!("fail:{}_forced_crc_{}", match c { 'p' => "parser_panic", 'q' => "decoder_panic_on_accepted_mutant", _ => "altered_stream_accepted_with_different_audio" }, i),
        };
        out(format!(
            "parser id=x{} prof={} cls=forced|b{}c{}|{} ch={} bps={} rate={} pcm={} xonly=1 xm={} impl_xm={outs} xcuts=- impl_xcuts=- base=- o_c15=ok o_c16={o16}",
            b.id, if cfg!(debug_assertions) { "debug" } else { "release" }, b.pcm.bps, b.pcm.channels, b.kinds, b.pcm.channels, b.pcm.bps, b.pcm.rate, ints(&b.pcm.data),
            ms.iter().map(|m| hex(m)).collect::<Vec<_>>().join("|")
        ));
    }
    // (3c) a stream of more than 128 frames (multi-byte coded frame numbers): truncation at every byte of the
    // last three frames and at every 16th byte elsewhere
    {
        let mut cfg = Cfg::default();
        cfg.block_size = 32;
        let pcm = gen::pcm(&mut rng, "sine_small", 1, 8, 8000, 131 * 32 - 5);
        if let Ok(stream) = encode(&cfg, &pcm, "st", "mem") {
            let bytes = stream_bytes(&stream);
            let nf = stream.frame_count();
            let tail: usize = (nf.saturating_sub(3)..nf).map(|i| stream.frame(i).unwrap().count_bits() / 8).sum();
            let cuts: Vec<usize> = (0..bytes.len()).filter(|n| *n + tail >= bytes.len() || n % 16 == 0).collect();
            let info = (pcm.rate, pcm.channels, pcm.bps);
            let outs: String = cuts.iter().map(|n| outcome(&bytes[..*n], &pcm.data, info)).collect();
            add(&outs, &mut tot);
            let o16 = match first_bad(&outs, usize::MAX) {
                None => "ok".to_string(),
                Some((i, c)) => format!("fail:{}_trunc_{}", if c == 'p' { "parser_panic" } else { "decoder_panic_on_accepted_mutant" }, cuts[i]),
            };
            out(format!(
                "parser id=xlong prof={} cls=manyframes|b8c1|{} ch=1 bps=8 rate=8000 pcm={} xonly=1 xm=- impl_xm=- xcuts={} impl_xcuts={outs} base={} o_c15=ok o_c16={o16}",
                if cfg!(debug_assertions) { "debug" } else { "release" }, nf, ints(&pcm.data),
                cuts.iter().map(|n| n.to_string()).collect::<Vec<_>>().join(","), hex(&bytes)
            ));
        }
    }
    // (4) random byte strings and random splices of valid material
    for i in 0..nrandom {
        let bytes: Vec<u8> = match i % 4 {
            0 => (0..rng.below(200) as usize).map(|_| rng.next() as u8).collect(),
            1 => {
                // valid marker + STREAMINFO, random frames area
                let b = &bs[rng.below(bs.len() as u64) as usize];
                let mut v = b.bytes[..42].to_vec();
                v.extend((0..rng.below(120) as usize).map(|_| rng.next() as u8));
                v
            }
            2 => {
                // valid stream with a valid sync code + random header after it
                let b = &bs[rng.below(bs.len() as u64) as usize];
                let mut v = b.bytes[..42].to_vec();
                v.extend([0xFF, 0xF8]);
                v.extend((0..rng.below(60) as usize).map(|_| rng.next() as u8));
                v
            }
            _ => {
                // several random byte substitutions in a valid stream
                let b = &bs[rng.below(bs.len() as u64) as usize];
                let mut v = b.bytes.clone();
                for _ in 0..1 + rng.below(4) {
                    let k = rng.below(v.len() as u64) as usize;
                    v[k] = rng.next() as u8;
                }
                v
            }
        };
        let o = outcome(&bytes, &[], (0, 0, 0));
        // a random string has no original: `d`/`s` just mean "accepted"
        let o16 = if o == 'p' { "fail:parser_panic_random".to_string() } else { "ok".to_string() };
        tot[if o == 'e' { 0 } else if o == 'p' { 3 } else if o == 'q' { 4 } else { 2 }] += 1;
        out(format!("parser id=r{i} prof={} cls=random|{} rand={} impl={} o_c15=ok o_c16={o16}", if cfg!(debug_assertions) { "debug" } else { "release" }, i % 4, hex(&bytes), if o == 's' || o == 'd' || o == 'q' { 'a' } else { o }));
    }
    out(format!("#stat mut_error={} mut_same={} mut_different={} mut_parser_panic={} mut_decoder_panic={}", tot[0], tot[1], tot[2], tot[3], tot[4]));
    if burst_stride == 1 {
        out("#exhaustive flips+bursts+truncations over every base stream".to_string());
    }
}

pub fn replay(line: &str) -> String {
    use crate::util::{field, unhex};
    if let Some(r) = field(line, "rand") {
        let bytes = unhex(r);
        return format!("parser id={} rand={} impl={}", field(line, "id").unwrap_or("?"), r, outcome(&bytes, &[], (0, 0, 0)));
    }
    format!("#cannot-replay-compactly {}", field(line, "id").unwrap_or("?"))
}
