//! `sink` correspondence stream: op sequences on `MemSink<u8>`, `MemSink<u64>` and a user sink
//! that implements only the required trait methods.

use crate::util::{catch, hex, Rng};
use flacenc::bitsink::{BitSink, ByteSink, MemSink};

#[derive(Clone, Debug)]
pub enum Op {
    Align,
    Lsbs(u32, u64, usize),
    Msbs(u32, u64, usize),
    Write(u32, u64),
    Twoc(i64, usize),
    Zeros(usize),
    Bytes(Vec<u8>),
}

impl Op {
    pub fn render(&self) -> String {
        match self {
            Op::Align => "A".into(),
            Op::Lsbs(w, v, n) => format!("L{w}:{v}:{n}"),
            Op::Msbs(w, v, n) => format!("M{w}:{v}:{n}"),
            Op::Write(w, v) => format!("W{w}:{v}"),
            Op::Twoc(v, n) => format!("T{v}:{n}"),
            Op::Zeros(n) => format!("Z{n}"),
            Op::Bytes(b) => format!("B{}", hex(b)),
        }
    }
    pub fn parse(s: &str) -> Op {
        let (k, rest) = s.split_at(1);
        let parts: Vec<&str> = rest.split(':').collect();
        match k {
            "A" => Op::Align,
            "L" => Op::Lsbs(parts[0].parse().unwrap(), parts[1].parse().unwrap(), parts[2].parse().unwrap()),
            "M" => Op::Msbs(parts[0].parse().unwrap(), parts[1].parse().unwrap(), parts[2].parse().unwrap()),
            "W" => Op::Write(parts[0].parse().unwrap(), parts[1].parse().unwrap()),
            "T" => Op::Twoc(parts[0].parse().unwrap(), parts[1].parse().unwrap()),
            "Z" => Op::Zeros(parts[0].parse().unwrap()),
            "B" => Op::Bytes(crate::util::unhex(rest)),
            _ => panic!("bad op {s}"),
        }
    }
}

pub fn apply<S: BitSink>(sink: &mut S, op: &Op) -> Result<(), S::Error> {
    match op {
        Op::Align => sink.align_to_byte().map(|_| ()),
        Op::Lsbs(8, v, n) => sink.write_lsbs(*v as u8, *n),
        Op::Lsbs(16, v, n) => sink.write_lsbs(*v as u16, *n),
        Op::Lsbs(32, v, n) => sink.write_lsbs(*v as u32, *n),
        Op::Lsbs(_, v, n) => sink.write_lsbs(*v, *n),
        Op::Msbs(8, v, n) => sink.write_msbs(*v as u8, *n),
        Op::Msbs(16, v, n) => sink.write_msbs(*v as u16, *n),
        Op::Msbs(32, v, n) => sink.write_msbs(*v as u32, *n),
        Op::Msbs(_, v, n) => sink.write_msbs(*v, *n),
        Op::Write(8, v) => sink.write(*v as u8),
        Op::Write(16, v) => sink.write(*v as u16),
        Op::Write(32, v) => sink.write(*v as u32),
        Op::Write(_, v) => sink.write(*v),
        Op::Twoc(v, n) => sink.write_twoc(*v, *n),
        Op::Zeros(n) => sink.write_zeros(*n),
        Op::Bytes(b) => sink.write_bytes_aligned(b).map(|_| ()),
    }
}

/// A user sink implementing only the four required methods, bit by bit, and recording the
/// operations it receives. Optionally fails on its k-th operation.
#[derive(Default, Clone)]
pub struct UserSink {
    pub bits: Vec<bool>,
    pub ops: Vec<String>,
    pub fail_at: Option<usize>,
    /// when set, only the `fail_at`-th CALL fails (a transient failure); every later call is accepted
    pub transient: bool,
    pub calls: usize,
}

#[derive(Debug)]
pub struct UserSinkError;
impl std::fmt::Display for UserSinkError {
    fn fmt(&self, f: &mut std::fmt::Formatter<'_>) -> std::fmt::Result {
        write!(f, "user sink failure")
    }
}
impl std::error::Error for UserSinkError {}

impl UserSink {
    fn tick(&mut self, what: String) -> Result<(), UserSinkError> {
        let call = self.calls;
        self.calls += 1;
        if self.transient {
            if Some(call) == self.fail_at {
                return Err(UserSinkError);
            }
        } else if Some(self.ops.len()) == self.fail_at {
            return Err(UserSinkError);
        }
        self.ops.push(what);
        Ok(())
    }
    pub fn packed(&self) -> Vec<u8> {
        let mut out = vec![0u8; (self.bits.len() + 7) / 8];
        for (i, b) in self.bits.iter().enumerate() {
            if *b {
                out[i / 8] |= 0x80 >> (i % 8);
            }
        }
        out
    }
}

fn to_u64<T: Into<u64>>(v: T) -> u64 {
    v.into()
}

impl BitSink for UserSink {
    type Error = UserSinkError;
    fn align_to_byte(&mut self) -> Result<usize, Self::Error> {
        self.tick("A".into())?;
        let r = (8 - self.bits.len() % 8) % 8;
        for _ in 0..r {
            self.bits.push(false);
        }
        Ok(r)
    }
    fn write_lsbs<T: flacenc::bitsink::Bits>(&mut self, val: T, n: usize) -> Result<(), Self::Error> {
        let w = 8 * std::mem::size_of::<T>();
        let v = to_u64(val);
        self.tick(format!("L{w}:{v}:{n}"))?;
        for i in 0..n {
            self.bits.push((v >> (n - 1 - i)) & 1 == 1);
        }
        Ok(())
    }
    fn write_msbs<T: flacenc::bitsink::Bits>(&mut self, val: T, n: usize) -> Result<(), Self::Error> {
        let w = 8 * std::mem::size_of::<T>();
        let v = to_u64(val);
        self.tick(format!("M{w}:{v}:{n}"))?;
        for i in 0..n {
            self.bits.push((v >> (w - 1 - i)) & 1 == 1);
        }
        Ok(())
    }
    fn write<T: flacenc::bitsink::Bits>(&mut self, val: T) -> Result<(), Self::Error> {
        let w = 8 * std::mem::size_of::<T>();
        let v = to_u64(val);
        self.tick(format!("W{w}:{v}"))?;
        for i in 0..w {
            self.bits.push((v >> (w - 1 - i)) & 1 == 1);
        }
        Ok(())
    }
}

fn export<S: flacenc::bitsink::Bits + Copy>(sink: &MemSink<S>) -> Vec<u8> {
    let mut out = vec![0u8; (sink.len() + 7) / 8];
    sink.write_to_byte_slice(&mut out);
    out
}

/// Direct oracle: the ideal MSB-first bit string of an op sequence, computed without the crate.
pub fn ideal_bits(ops: &[Op]) -> Vec<bool> {
    let mut bits: Vec<bool> = vec![];
    let push_msb = |bits: &mut Vec<bool>, v: u64, w: usize, n: usize| {
        for i in 0..n {
            bits.push((v >> (w - 1 - i)) & 1 == 1);
        }
    };
    for op in ops {
        match op {
            Op::Align => {
                while bits.len() % 8 != 0 {
                    bits.push(false);
                }
            }
            Op::Lsbs(_, v, n) => {
                for i in 0..*n {
                    bits.push((v >> (n - 1 - i)) & 1 == 1);
                }
            }
            Op::Msbs(w, v, n) => push_msb(&mut bits, *v, *w as usize, *n),
            Op::Write(w, v) => push_msb(&mut bits, *v, *w as usize, *w as usize),
            Op::Twoc(v, n) => {
                for i in 0..*n {
                    bits.push(((*v as u64) >> (n - 1 - i)) & 1 == 1);
                }
            }
            Op::Zeros(n) => {
                for _ in 0..*n {
                    bits.push(false);
                }
            }
            Op::Bytes(b) => {
                while bits.len() % 8 != 0 {
                    bits.push(false);
                }
                for x in b {
                    push_msb(&mut bits, u64::from(*x), 8, 8);
                }
            }
        }
    }
    bits
}

fn pack(bits: &[bool]) -> Vec<u8> {
    let mut out = vec![0u8; (bits.len() + 7) / 8];
    for (i, b) in bits.iter().enumerate() {
        if *b {
            out[i / 8] |= 0x80 >> (i % 8);
        }
    }
    out
}

pub fn run_record(id: &str, kind: &str, ops: &[Op]) -> String {
    let ops_s: Vec<String> = ops.iter().map(Op::render).collect();
    let head = format!("sink id={id} kind={kind} ops={}", if ops_s.is_empty() { "-".into() } else { ops_s.join(",") });
    let ops2 = ops.to_vec();
    let res = match kind {
        "byte" => catch(move || {
            let mut s = ByteSink::new();
            for op in &ops2 {
                apply(&mut s, op).unwrap();
            }
            (s.len(), export(&s), hex(s.as_slice()))
        }),
        "word" => catch(move || {
            let mut s = MemSink::<u64>::new();
            for op in &ops2 {
                apply(&mut s, op).unwrap();
            }
            let raw: Vec<u8> = s.as_slice().iter().flat_map(|w| w.to_be_bytes()).collect();
            (s.len(), export(&s), hex(&raw))
        }),
        _ => catch(move || {
            let mut s = UserSink::default();
            for op in &ops2 {
                apply(&mut s, op).unwrap();
            }
            (s.bits.len(), s.packed(), s.ops.join(","))
        }),
    };
    let ideal = ideal_bits(ops);
    match res {
        Ok((len, bytes, raw)) => {
            let oracle = if len != ideal.len() {
                format!("fail:len_{}_expected_{}", len, ideal.len())
            } else if bytes != pack(&ideal) {
                format!("fail:bits_{}_expected_{}", hex(&bytes), hex(&pack(&ideal)))
            } else {
                "ok".to_string()
            };
            format!("{head} impl_len={len} impl_bytes={} impl_raw={raw} impl_panic=0 oracle={oracle}", hex(&bytes))
        }
        Err(m) => format!("{head} impl_len=0 impl_bytes=- impl_raw=- impl_panic=1 msg={m} oracle=fail:panic"),
    }
}

fn rand_value(rng: &mut Rng, w: u32) -> u64 {
    let mask = if w == 64 { u64::MAX } else { (1u64 << w) - 1 };
    match rng.below(6) {
        0 => 0,
        1 => mask,
        2 => 0xAAAA_AAAA_AAAA_AAAA & mask,
        3 => 1,
        4 => 1u64 << (w - 1),
        _ => rng.next() & mask,
    }
}

pub fn rand_op(rng: &mut Rng) -> Op {
    let w = *rng.pick(&[8u32, 16, 32, 64]);
    match rng.below(12) {
        0 => Op::Align,
        1 | 2 => {
            let n = match rng.below(4) { 0 => 0, 1 => w as usize, _ => rng.below(w as u64 + 1) as usize };
            Op::Lsbs(w, rand_value(rng, w), n)
        }
        3 | 4 => {
            let n = match rng.below(4) { 0 => 0, 1 => w as usize, _ => rng.below(w as u64 + 1) as usize };
            Op::Msbs(w, rand_value(rng, w), n)
        }
        5 | 6 => Op::Write(w, rand_value(rng, w)),
        7 | 8 => {
            let n = 1 + rng.below(64) as usize;
            let v = match rng.below(4) {
                0 => -1i64,
                1 => i64::MIN,
                2 => rng.next() as i64,
                _ => rng.range(-70000, 70000),
            };
            Op::Twoc(v, n)
        }
        9 | 10 => Op::Zeros(match rng.below(4) { 0 => 0, 1 => rng.below(9) as usize, 2 => rng.below(70) as usize, _ => rng.below(300) as usize }),
        _ => {
            // aligned byte slices: short ones, and ones spanning one or several 64-bit storage words
            let n = match rng.below(4) { 0 | 1 => rng.below(5) as usize, 2 => 5 + rng.below(16) as usize, _ => 8 * (1 + rng.below(5) as usize) + rng.below(2) as usize };
            Op::Bytes((0..n).map(|_| rng.next() as u8).collect())
        }
    }
}

/// Emits the records of the stream. `exhaustive` adds the complete (offset, width, n, kind) sweep.
pub fn generate(seed: u64, cases: usize, exhaustive: bool, out: &mut dyn FnMut(String)) {
    let mut rng = Rng::new(seed ^ 0x51);
    // corpus: the confirmed finding F6 (zero-width write on a partial word) first
    out(run_record("corpus-f6a", "word", &[Op::Lsbs(8, 1, 1), Op::Msbs(16, 0xFFFF, 0), Op::Zeros(8)]));
    out(run_record("corpus-f6b", "word", &[Op::Lsbs(8, 1, 1), Op::Lsbs(16, 0xFFFF, 0), Op::Lsbs(8, 0, 8)]));
    out(run_record("corpus-f6c", "byte", &[Op::Lsbs(8, 1, 1), Op::Msbs(16, 0xFFFF, 0), Op::Zeros(8)]));
    let mut n = 0usize;
    if exhaustive {
        for offset in 0..64usize {
            for &w in &[8u32, 16, 32, 64] {
                let mask = if w == 64 { u64::MAX } else { (1u64 << w) - 1 };
                for nb in 0..=(w as usize) {
                    let v = if (offset + nb) % 2 == 0 { mask } else { 0xA5A5_A5A5_A5A5_A5A5 & mask };
                    let pre = Op::Lsbs(64, u64::MAX, offset);
                    let post = Op::Lsbs(16, 0, 16);
                    for (k, op) in [
                        Op::Lsbs(w, v, nb),
                        Op::Msbs(w, v, nb),
                        Op::Twoc(-(v as i64 >> 1) - 1, nb.max(1)),
                    ].into_iter().enumerate() {
                        for kind in ["byte", "word", "user"] {
                            out(run_record(&format!("ex-{offset}-{w}-{nb}-{k}-{kind}"), kind, &[pre.clone(), op.clone(), post.clone()]));
                            n += 1;
                        }
                    }
                }
                for kind in ["byte", "word", "user"] {
                    out(run_record(&format!("ex-{offset}-{w}-w-{kind}"), kind, &[Op::Lsbs(64, u64::MAX, offset), Op::Write(w, 0x8001_8001_8001_8001 & mask), Op::Lsbs(16, 0, 16)]));
                    out(run_record(&format!("ex-{offset}-{w}-z-{kind}"), kind, &[Op::Lsbs(64, u64::MAX, offset), Op::Zeros(w as usize + offset), Op::Lsbs(16, 0xFFFF, 16)]));
                    n += 2;
                }
            }
        }
    }
    if exhaustive {
        // aligned byte slices of every interesting length at every offset (the cursor is byte aligned but
        // mostly not word aligned after the implied padding), followed by more bits
        for offset in 0..64usize {
            for &len in &[0usize, 1, 7, 8, 9, 15, 16, 17, 33] {
                let bytes: Vec<u8> = (0..len).map(|j| (0x81 + 37 * j + offset) as u8).collect();
                for kind in ["byte", "word", "user"] {
                    out(run_record(&format!("ex-{offset}-b{len}-{kind}"), kind, &[Op::Lsbs(64, u64::MAX, offset), Op::Bytes(bytes.clone()), Op::Lsbs(16, 0xA5C3, 11), Op::Bytes(bytes.clone()), Op::Zeros(3)]));
                    n += 1;
                }
            }
        }
        out(format!("#exhaustive sink sweep offset=0..63 width=8,16,32,64 n=0..=width kinds=lsbs,msbs,twoc,write,zeros sinks=byte,word,user records={n}"));
    }
    for i in 0..cases {
        let len = 1 + rng.below(if i % 10 == 0 { 200 } else { 24 }) as usize;
        let ops: Vec<Op> = (0..len).map(|_| rand_op(&mut rng)).collect();
        let kind = ["byte", "word", "user"][i % 3];
        out(run_record(&format!("r{i}"), kind, &ops));
    }
}

pub fn replay(line: &str) -> String {
    use crate::util::field;
    let ops_s = field(line, "ops").unwrap();
    let ops: Vec<Op> = if ops_s == "-" { vec![] } else { ops_s.split(',').map(Op::parse).collect() };
    run_record(field(line, "id").unwrap(), field(line, "kind").unwrap(), &ops)
}
