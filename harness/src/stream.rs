//! `stream` correspondence stream: full encodes through every entry point, with direct oracles
//! (independent decoder, independent STREAMINFO/MD5 recomputation, size bounds).

use crate::gen::{self, Cfg, Pcm};
use crate::util::{catch, hex, ints, Rng};
use flacenc::bitsink::{BitSink, ByteSink};
use flacenc::component::{BitRepr, Stream};
use flacenc::error::{SourceError, Verify};
use flacenc::source::{Context, Fill, FrameBuf, MemSource, Source};
use md5::Digest;

/// A source over a `Pcm` delivering integers or packed bytes, with or without a length hint,
/// optionally failing at its k-th read.
pub struct TestSource {
    pub pcm: Pcm,
    pub pos: usize,
    pub bytes_mode: bool,
    pub hint: bool,
    pub fail_at: Option<usize>,
    /// in bytes mode: the read with this index delivers its samples in containers one byte wider than the
    /// declared sample width (a fill the encoder must reject as a source error)
    pub wide_at: Option<usize>,
    /// in bytes mode: the read with this index delivers a RAGGED buffer - the bytes of its last sample are missing, so the
    /// byte count is not a whole number of inter-channel samples (a fill the frame buffer must reject as a source error
    /// BEFORE anything reaches the MD5 context)
    pub ragged_at: Option<usize>,
    pub reads: usize,
}

impl TestSource {
    pub fn new(pcm: &Pcm, bytes_mode: bool, hint: bool) -> Self {
        TestSource { pcm: pcm.clone(), pos: 0, bytes_mode, hint, fail_at: None, wide_at: None, ragged_at: None, reads: 0 }
    }
}

pub fn le_bytes(samples: &[i32], bytes_per_sample: usize) -> Vec<u8> {
    let mut out = Vec::with_capacity(samples.len() * bytes_per_sample);
    for v in samples {
        out.extend_from_slice(&v.to_le_bytes()[0..bytes_per_sample]);
    }
    out
}

impl Source for TestSource {
    fn channels(&self) -> usize {
        self.pcm.channels
    }
    fn bits_per_sample(&self) -> usize {
        self.pcm.bps
    }
    fn sample_rate(&self) -> usize {
        self.pcm.rate
    }
    fn read_samples<F: Fill>(&mut self, block_size: usize, dest: &mut F) -> Result<usize, SourceError> {
        let k = self.reads;
        self.reads += 1;
        if self.fail_at == Some(k) {
            return Err(SourceError::from_unknown());
        }
        let ch = self.pcm.channels;
        let begin = (self.pos * ch).min(self.pcm.data.len());
        let end = ((self.pos + block_size) * ch).min(self.pcm.data.len());
        let src = &self.pcm.data[begin..end];
        if self.bytes_mode {
            let bps = (self.pcm.bps + 7) / 8;
            let bps = if self.wide_at == Some(k) && bps < 4 { bps + 1 } else { bps };
            let mut bytes = le_bytes(src, bps);
            if self.ragged_at == Some(k) && bytes.len() >= bps && (ch >= 2 || bps >= 2) {
                let cut = if ch >= 2 { bps } else { 1 };
                bytes.truncate(bytes.len() - cut);
            }
            dest.fill_le_bytes(&bytes, bps)?;
        } else {
            dest.fill_interleaved(src)?;
        }
        let n = (end - begin) / ch;
        self.pos += n;
        Ok(n)
    }
    fn len_hint(&self) -> Option<usize> {
        self.hint.then(|| self.pcm.len())
    }
}

/// Upper bound on what the harness is willing to materialise for one stream (a defective encoder can
/// emit gigabyte frames: such a witness must be reported, not suffered).
pub const MAX_STREAM_BYTES: usize = 8 << 20;

/// A sink that refuses to grow beyond `MAX_STREAM_BYTES`.
pub struct CapSink {
    pub inner: ByteSink,
}

#[derive(Debug)]
pub struct CapExceeded;
impl std::fmt::Display for CapExceeded {
    fn fmt(&self, f: &mut std::fmt::Formatter<'_>) -> std::fmt::Result {
        write!(f, "output exceeds the harness cap")
    }
}
impl std::error::Error for CapExceeded {}

impl CapSink {
    fn check(&self, extra_bits: usize) -> Result<(), CapExceeded> {
        if (self.inner.len() + extra_bits) / 8 > MAX_STREAM_BYTES {
            Err(CapExceeded)
        } else {
            Ok(())
        }
    }
}

impl flacenc::bitsink::BitSink for CapSink {
    type Error = CapExceeded;
    fn align_to_byte(&mut self) -> Result<usize, Self::Error> {
        Ok(self.inner.align_to_byte().unwrap())
    }
    fn write_bytes_aligned(&mut self, bytes: &[u8]) -> Result<usize, Self::Error> {
        self.check(bytes.len() * 8 + 8)?;
        Ok(self.inner.write_bytes_aligned(bytes).unwrap())
    }
    fn write_lsbs<T: flacenc::bitsink::Bits>(&mut self, val: T, n: usize) -> Result<(), Self::Error> {
        self.check(n)?;
        self.inner.write_lsbs(val, n).unwrap();
        Ok(())
    }
    fn write_msbs<T: flacenc::bitsink::Bits>(&mut self, val: T, n: usize) -> Result<(), Self::Error> {
        self.check(n)?;
        self.inner.write_msbs(val, n).unwrap();
        Ok(())
    }
    fn write<T: flacenc::bitsink::Bits>(&mut self, val: T) -> Result<(), Self::Error> {
        self.check(64)?;
        self.inner.write(val).unwrap();
        Ok(())
    }
    fn write_zeros(&mut self, n: usize) -> Result<(), Self::Error> {
        self.check(n)?;
        self.inner.write_zeros(n).unwrap();
        Ok(())
    }
}

/// Serialises a stream; panics with a recognisable message when the output exceeds the cap (callers
/// run under `catch`, the record then reports the giant output).
pub fn stream_bytes(stream: &Stream) -> Vec<u8> {
    let mut sink = CapSink { inner: ByteSink::new() };
    match stream.write(&mut sink) {
        Ok(()) => sink.inner.as_slice().to_vec(),
        Err(_) => panic!("emitted_stream_exceeds_{}_MiB", MAX_STREAM_BYTES >> 20),
    }
}

/// Encodes `pcm` in the given mode. Returns the stream or an error kind.
pub fn encode(cfg: &Cfg, pcm: &Pcm, mode: &str, src: &str) -> Result<Stream, String> {
    let mut c = cfg.clone();
    let bs = c.block_size;
    match mode {
        "st" | "frames" => c.multithread = false,
        m => {
            c.multithread = true;
            c.workers = m[3..].parse().unwrap();
        }
    }
    let enc = c.to_encoder().into_verified().map_err(|e| format!("verify:{}", e.1.path()))?;
    let map_err = |e: flacenc::error::EncodeError| match e {
        flacenc::error::EncodeError::Source(_) => "source".to_string(),
        flacenc::error::EncodeError::Config(_) => "config".to_string(),
        _ => "other".to_string(),
    };
    if mode == "frames" {
        // frame-level entry point, assembling the stream by hand
        let mut stream = Stream::new(pcm.rate, pcm.channels, pcm.bps).map_err(|_| "config".to_string())?;
        stream.stream_info_mut().set_block_sizes(bs, bs).map_err(|_| "config".to_string())?;
        let mut fb = FrameBuf::with_size(pcm.channels, bs).map_err(|_| "config".to_string())?;
        let mut ctx = Context::new(pcm.bps, pcm.channels);
        let mut pos = 0;
        let mut number = 0usize;
        while pos < pcm.len() {
            let end = (pos + bs).min(pcm.len());
            let block = &pcm.data[pos * pcm.channels..end * pcm.channels];
            if src == "bytes" {
                let k = (pcm.bps + 7) / 8;
                let b = le_bytes(block, k);
                fb.fill_le_bytes(&b, k).map_err(|_| "source".to_string())?;
                ctx.fill_le_bytes(&b, k).map_err(|_| "source".to_string())?;
            } else {
                fb.fill_interleaved(block).map_err(|_| "source".to_string())?;
                ctx.fill_interleaved(block).map_err(|_| "source".to_string())?;
            }
            let frame = flacenc::encode_fixed_size_frame(&enc, &fb, number, stream.stream_info()).map_err(map_err)?;
            stream.add_frame(frame);
            number += 1;
            pos = end;
        }
        stream.stream_info_mut().set_block_sizes(bs, bs).map_err(|_| "config".to_string())?;
        stream.stream_info_mut().set_md5_digest(&ctx.md5_digest());
        stream.stream_info_mut().set_total_samples(ctx.total_samples());
        return Ok(stream);
    }
    match src {
        "mem" => {
            let s = MemSource::from_samples(&pcm.data, pcm.channels, pcm.bps, pcm.rate);
            flacenc::encode_with_fixed_block_size(&enc, s, bs).map_err(map_err)
        }
        "bytes" => flacenc::encode_with_fixed_block_size(&enc, TestSource::new(pcm, true, true), bs).map_err(map_err),
        "bytes_nohint" => flacenc::encode_with_fixed_block_size(&enc, TestSource::new(pcm, true, false), bs).map_err(map_err),
        _ => flacenc::encode_with_fixed_block_size(&enc, TestSource::new(pcm, false, false), bs).map_err(map_err),
    }
}

pub fn claxon_decode(bytes: &[u8]) -> Result<(Vec<i32>, u32, u32, u32, Option<u64>), String> {
    let mut reader = claxon::FlacReader::new(std::io::Cursor::new(bytes)).map_err(|e| format!("{e:?}"))?;
    let info = reader.streaminfo();
    let mut out = vec![];
    for s in reader.samples() {
        out.push(s.map_err(|e| format!("{e:?}"))?);
    }
    Ok((out, info.channels, info.bits_per_sample, info.sample_rate, info.samples))
}

fn be(bytes: &[u8]) -> u64 {
    bytes.iter().fold(0u64, |a, b| (a << 8) | u64::from(*b))
}

/// Direct oracles on the emitted bytes. Returns (o_c01, o_c03, o_c04, o_c09).
pub fn oracles(cfg: &Cfg, pcm: &Pcm, stream: &Stream, bytes: &[u8]) -> (String, String, String, String) {
    let san = |s: String| s.replace([' ', '\n', '"'], "_");
    // C01: independent decoder
    let o1 = match claxon_decode(bytes) {
        Err(e) => san(format!("fail:claxon_rejects:{e}")),
        Ok((samples, ch, b, r, n)) => {
            if samples != pcm.data {
                "fail:decoded_audio_differs".to_string()
            } else if ch as usize != pcm.channels || b as usize != pcm.bps || r as usize != pcm.rate {
                "fail:format_differs".to_string()
            } else if n.unwrap_or(0) as usize != pcm.len() {
                format!("fail:length_{}_expected_{}", n.unwrap_or(0), pcm.len())
            } else {
                "ok".to_string()
            }
        }
    };
    // STREAMINFO fields by fixed offsets: marker(4) header(4) then the 34 bytes
    let si = &bytes[8..42];
    let min_block = be(&si[0..2]) as usize;
    let max_block = be(&si[2..4]) as usize;
    let min_frame = be(&si[4..7]) as usize;
    let max_frame = be(&si[7..10]) as usize;
    let packed = be(&si[10..18]);
    let rate = (packed >> 44) as usize;
    let ch = ((packed >> 41) & 7) as usize + 1;
    let b = ((packed >> 36) & 31) as usize + 1;
    let total = (packed & ((1u64 << 36) - 1)) as usize;
    let md5 = &si[18..34];
    let k = (pcm.bps + 7) / 8;
    let expected_md5: [u8; 16] = md5::Md5::digest(le_bytes(&pcm.data, k)).into();
    let o3 = if rate != pcm.rate || ch != pcm.channels || b != pcm.bps {
        "fail:format_fields".to_string()
    } else if total != pcm.len() {
        format!("fail:total_{}_expected_{}", total, pcm.len())
    } else if md5 != expected_md5 {
        "fail:md5".to_string()
    } else {
        "ok".to_string()
    };
    // frame lengths as actually written
    let mut lens = vec![];
    let mut blocks = vec![];
    for i in 0..stream.frame_count() {
        let f = stream.frame(i).unwrap();
        let mut sink = CapSink { inner: ByteSink::new() };
        if f.write(&mut sink).is_err() {
            panic!("emitted_frame_exceeds_{}_MiB", MAX_STREAM_BYTES >> 20);
        }
        lens.push(sink.inner.as_slice().len());
        blocks.push(f.block_size());
    }
    let o4 = if lens.is_empty() {
        "ok".to_string()
    } else if max_block != cfg.block_size {
        format!("fail:max_block_{}_expected_{}", max_block, cfg.block_size)
    } else if min_block < 16 {
        format!("fail:min_block_{}_below_16", min_block)
    } else if blocks[..blocks.len() - 1].iter().any(|n| *n < min_block) {
        "fail:min_block_above_a_non_final_frame".to_string()
    } else if min_frame != *lens.iter().min().unwrap() || max_frame != *lens.iter().max().unwrap() {
        format!("fail:frame_size_bounds_{}_{}_actual_{}_{}", min_frame, max_frame, lens.iter().min().unwrap(), lens.iter().max().unwrap())
    } else {
        "ok".to_string()
    };
    // C09: each frame against its verbatim size
    let mut o9 = "ok".to_string();
    for i in 0..stream.frame_count() {
        let f = stream.frame(i).unwrap();
        let n = f.block_size();
        let header_bits = f.header().count_bits();
        let verbatim_bits = header_bits + pcm.channels * (8 + n * pcm.bps);
        let verbatim_bytes = (verbatim_bits + 7) / 8 + 2;
        if lens[i] > verbatim_bytes + 2 * pcm.channels {
            o9 = format!("fail:frame_{}_has_{}_bytes_verbatim_{}", i, lens[i], verbatim_bytes);
            break;
        }
    }
    let total_len: usize = lens.iter().sum();
    if o9 == "ok" && bytes.len() != 42 + total_len {
        o9 = "fail:stream_length_is_not_header_plus_frames".to_string();
    }
    (o1, o3, o4, o9)
}

/// C15 on the emitted bytes: the crate's own parser consumes all input, the tree verifies,
/// re-serialises to the same bytes and decodes to the original samples.
#[cfg(feature = "decode")]
pub fn own_parser_oracle(bytes: &[u8], original: &[i32]) -> String {
    use flacenc::component::Decode;
    match flacenc::component::parser::stream::<nom::error::Error<&[u8]>>(bytes) {
        Err(_) => "fail:own_parser_rejects".to_string(),
        Ok((rest, s)) => {
            if !rest.is_empty() {
                return "fail:input_not_consumed".to_string();
            }
            if s.verify().is_err() {
                return "fail:parsed_tree_does_not_verify".to_string();
            }
            if stream_bytes(&s) != bytes {
                return "fail:reserialised_bytes_differ".to_string();
            }
            let mut audio = vec![];
            for i in 0..s.frame_count() {
                audio.extend(s.frame(i).unwrap().decode());
            }
            if audio != original {
                return "fail:decoded_audio_differs".to_string();
            }
            "ok".to_string()
        }
    }
}

#[cfg(not(feature = "decode"))]
pub fn own_parser_oracle(_bytes: &[u8], _original: &[i32]) -> String {
    "ok".to_string()
}

pub fn run_record(id: &str, cfg: &Cfg, pcm: &Pcm, mode: &str, src: &str, with_oracle_log: bool) -> String {
    let head = format!(
        "stream id={id} cls={}|{}|{}|b{}c{} cfg={} ch={} bps={} rate={} bs={} mode={mode} src={src} len={} pcm={}",
        pcm.family, mode, src, pcm.bps, pcm.channels, cfg.render(), pcm.channels, pcm.bps, pcm.rate, cfg.block_size, pcm.len(), ints(&pcm.data)
    );
    let (c2, p2, m2, s2) = (cfg.clone(), pcm.clone(), mode.to_string(), src.to_string());
    let res = catch(move || {
        if with_oracle_log {
            flacenc::verif_hooks::oracle_start();
        }
        let r = encode(&c2, &p2, &m2, &s2);
        let log = if with_oracle_log { flacenc::verif_hooks::oracle_take() } else { vec![] };
        r.and_then(|stream| {
            // C08 on the whole stream: the reported count against what is really written (under the cap)
            let count = stream.count_bits();
            let mut sink = CapSink { inner: ByteSink::new() };
            if stream.write(&mut sink).is_err() {
                return Err(format!("giant:{count}"));
            }
            Ok(stream)
        })
        .map(|stream| {
            let bytes = stream_bytes(&stream);
            let verify_ok = stream.verify().is_ok();
            let count = stream.count_bits();
            let o = oracles(&c2, &p2, &stream, &bytes);
            // C14: the same audio delivered the other way (integers <-> packed bytes)
            let other = match s2.as_str() {
                "mem" | "nohint" => "bytes",
                "bytes" => "mem",
                _ => "nohint",
            };
            let o14 = match encode(&c2, &p2, &m2, other) {
                Ok(st2) => {
                    if stream_bytes(&st2) == bytes {
                        "ok".to_string()
                    } else {
                        format!("fail:bytes_differ_between_{}_and_{}", s2, other)
                    }
                }
                Err(e) => format!("fail:other_delivery_errors_{e}"),
            };
            let o15 = own_parser_oracle(&bytes, &p2.data);
            (bytes, verify_ok, count, o, log, o14, o15)
        })
    });
    match res {
        Err(m) => format!("{head} impl=panic msg={m} o_c01=fail:panic o_c03=fail:panic o_c04=fail:panic o_c08=fail:panic o_c09=fail:panic o_c14=fail:panic o_c15=fail:panic"),
        Ok(Err(e)) if e.starts_with("giant:") => format!(
            "{head} impl=err:giant o_c01=fail:stream_exceeds_{0}_MiB o_c03=fail:giant o_c04=fail:giant o_c08=fail:count_bits_{1}_but_more_than_{0}_MiB_written o_c09=fail:stream_exceeds_{0}_MiB_for_{2}_input_samples o_c14=fail:giant o_c15=fail:giant",
            MAX_STREAM_BYTES >> 20, &e[6..], pcm.data.len()
        ),
        Ok(Err(e)) => format!("{head} impl=err:{e} o_c01=fail:error_{e} o_c03=fail:error o_c04=fail:error o_c08=fail:error o_c09=fail:error o_c14=fail:error o_c15=fail:error"),
        Ok(Ok((bytes, verify_ok, count, (o1, o3, o4, o9), log, o14, o15))) => {
            let mut olog = String::new();
            for ev in &log {
                match ev {
                    flacenc::verif_hooks::OracleEvent::Qlpc { coefs, shift, precision } => {
                        olog.push_str(&format!("q:{}:{}:{};", shift, precision, ints(coefs).replace(',', "_")));
                    }
                    flacenc::verif_hooks::OracleEvent::FixedEstimate { order, bits } => {
                        olog.push_str(&format!("e:{order}:{bits};"));
                    }
                }
            }
            if olog.is_empty() {
                olog.push('-');
            }
            let olog = if with_oracle_log { format!(" olog={olog}") } else { String::new() };
            format!(
                "{head} impl=ok impl_verify={} impl_count={} impl_bytes={}{olog} o_c01={o1} o_c03={o3} o_c04={o4} o_c08={} o_c09={o9} o_c14={o14} o_c15={o15}",
                verify_ok as u8, count, hex(&bytes), if count == 8 * bytes.len() { "ok".to_string() } else { format!("fail:count_{}_written_{}", count, 8 * bytes.len()) }
            )
        }
    }
}


/// The first quantised LPC parameter set the encoder logs for `pcm` (single-thread), if any.
fn first_qlpc(cfg: &Cfg, pcm: &Pcm) -> Option<(Vec<i16>, i8)> {
    let (c, p) = (cfg.clone(), pcm.clone());
    let log = catch(move || {
        flacenc::verif_hooks::oracle_start();
        let _ = encode(&c, &p, "st", "mem");
        flacenc::verif_hooks::oracle_take()
    })
    .ok()?;
    log.into_iter().find_map(|ev| match ev {
        flacenc::verif_hooks::OracleEvent::Qlpc { coefs, shift, .. } => Some((coefs, shift)),
        _ => None,
    })
}

/// `burst` focus (finding F14): a smooth, strongly low-passed multi-sine makes the LPC estimator return
/// large alternating coefficients (small quantiser shift); a short full-scale burst in the first
/// `order + 1` samples of the block - where the Tukey window weight is ~0, so the estimate hardly moves -
/// whose signs match the signs of the quantised coefficients then maximises |prediction|. The quantised
/// parameters are read from the oracle log of a first pass and the burst is re-fitted up to three times.
/// Variants: (0) largest magnitude still on the 32-bit path of `compute_error` (final subtraction
/// leaves i32), (1) a residual of exactly -2^31 (`encode_signbit(i32::MIN)`), (2) full scale.
fn burst_case(rng: &mut Rng, i: usize, max_samples: usize) -> (Cfg, Pcm) {
    let bps = *rng.pick(&[24usize, 24, 24, 20, 16]);
    let stereo_side = rng.chance(25);
    let blocks: Vec<usize> = [4096usize, 1152, 4608, 16384, 32767, 256, 8192].iter().copied().filter(|b| *b * (1 + stereo_side as usize) <= max_samples.max(256)).collect();
    let block = *rng.pick(&blocks);
    let mut cfg = Cfg::default();
    cfg.block_size = block;
    cfg.lpc_order = *rng.pick(&[4usize, 6, 8, 8, 10, 10, 10, 12, 13, 16, 20, 24]);
    cfg.quant_precision = *rng.pick(&[4usize, 5, 6, 7, 7, 8, 9, 10, 12, 15, 15]);
    cfg.window_rect = rng.chance(10);
    cfg.alpha_bits = (*rng.pick(&[0.1f32, 0.4, 0.4, 0.5, 1.0])).to_bits();
    cfg.use_fixed = rng.chance(70);
    let ns = 8 + rng.below(17) as usize;
    let f0 = *rng.pick(&[0.004f64, 0.006, 0.008, 0.012, 0.016, 0.02, 0.024, 0.03]);
    let wave: Vec<f64> = (0..block)
        .map(|t| (0..ns).map(|k| (6.283185307179586 * f0 * (1.0 + k as f64 * 0.61803) * t as f64 + k as f64 * 1.3).sin()).sum())
        .collect();
    let mx = wave.iter().fold(1e-9f64, |a, b| a.max(b.abs()));
    // the adversarial channel: the only channel, or the side channel (one bit wider) of a stereo pair
    let full: i64 = if stereo_side { (1i64 << bps) - 2 } else { (1i64 << (bps - 1)) - 1 };
    let render = |m: i64, head: &[i64]| -> Pcm {
        let mut ch: Vec<i64> = wave.iter().map(|x| (x / mx * m as f64).round() as i64).collect();
        for (k, h) in head.iter().enumerate() {
            if k < ch.len() {
                ch[k] = *h;
            }
        }
        let data: Vec<i32> = if stereo_side {
            ch.iter().flat_map(|s| { let l = s >> 1; [l as i32, (l - s) as i32] }).collect()
        } else {
            ch.iter().map(|s| *s as i32).collect()
        };
        Pcm { channels: 1 + stereo_side as usize, bps, rate: 48000, data, family: "lowpass_burst" }
    };
    let (mut m, mut head): (i64, Vec<i64>) = (full, vec![]);
    for _ in 0..3 {
        let pcm = render(m, &head);
        let Some((q, sh)) = first_qlpc(&cfg, &pcm) else { break };
        let o = q.len();
        let ssum: i64 = q.iter().map(|c| i64::from(*c).abs()).sum();
        if o == 0 || ssum == 0 || o + 1 >= block {
            break;
        }
        let sgn: i64 = if rng.chance(50) { 1 } else { -1 };
        let mut variant = i % 3;
        if variant == 0 && sh != 0 {
            variant = 1;
        }
        let mut b = full;
        let mut last: Option<i64> = None;
        if variant == 0 {
            b = full.min(((1i64 << 31) - 2) / ssum);
            m = b;
        } else if variant == 1 {
            // (S*b >> sh) + b/2 ~ 2^31, then x[o] is tuned so that the residual is exactly -2^31
            let ratio = ssum as f64 / f64::from(1u32 << sh) + 0.5;
            let cand = ((1u64 << 31) as f64 / ratio) as i64;
            if cand <= full && cand > 0 {
                b = cand;
                let pred = (ssum * b) >> sh;
                let x = pred - (1i64 << 31);
                if x.abs() <= b {
                    last = Some(sgn * x);
                }
            }
        }
        head = vec![0; o + 1];
        for (j, c) in q.iter().enumerate() {
            head[o - 1 - j] = if *c >= 0 { sgn * b } else { -sgn * b };
        }
        head[o] = last.unwrap_or(-sgn * b);
        if std::env::var("FVH_DEBUG").is_ok() {
            eprintln!("burst i={i} bps={bps} side={stereo_side} block={block} lo={} qp={} sh={sh} o={o} S={ssum} maxq={} variant={variant} b={b} full={full} last={last:?}", cfg.lpc_order, cfg.quant_precision, q.iter().map(|c| i64::from(*c).abs()).max().unwrap());
        }
    }
    (cfg, render(m, &head))
}

pub fn generate(seed: u64, cases: usize, max_samples: usize, focus: &str, out: &mut dyn FnMut(String)) {
    let mut rng = Rng::new(seed ^ 0x57);
    // corpus: witnesses of the confirmed findings (F1, F3a, F3b, F4, F9) — always first
    {
        let mut c = Cfg::default();
        c.block_size = 64;
        let p = gen::pcm(&mut rng, "sine_noise", 1, 16, 44100, 69);
        out(run_record("corpus-f1", &c, &p, "st", "mem", true));
        let p0 = gen::pcm(&mut rng, "silence", 2, 16, 44100, 0);
        out(run_record("corpus-f9-empty", &c, &p0, "st", "mem", false));
        out(run_record("corpus-f9-empty-mt", &c, &p0, "mt:2", "mem", false));
        // F3a: one loud 64-sample partition followed by silence, 24-bit, no LPC
        let mut c3 = Cfg::default();
        c3.block_size = 4096;
        c3.use_lpc = false;
        let mut d = vec![0i32; 4096];
        let mut r2 = Rng::new(3);
        for x in d.iter_mut().take(64) {
            *x = r2.range(-(1 << 23), (1 << 23) - 1) as i32;
        }
        let p3 = Pcm { channels: 1, bps: 24, rate: 44100, data: d, family: "loud_silent_mix" };
        out(run_record("corpus-f3a", &c3, &p3, "st", "mem", true));
        // F3b: alternating +-full-scale 24-bit stereo with r = -l, BitCount, no LPC
        let mut c4 = c3.clone();
        c4.order_sel_bitcount = true;
        let mut d = vec![];
        for t in 0..4096 {
            let l = if t % 2 == 0 { (1 << 23) - 1 } else { -(1 << 23) };
            d.push(l);
            d.push((-(l as i64)).clamp(-(1 << 23), (1 << 23) - 1) as i32);
        }
        let p4 = Pcm { channels: 2, bps: 24, rate: 44100, data: d, family: "anti_stereo" };
        out(run_record("corpus-f3b", &c4, &p4, "st", "mem", true));
        // F4: sine*8000 + noise +-256, max_parameter = 0
        let mut c5 = Cfg::default();
        c5.max_parameter = 0;
        let mut r3 = Rng::new(5);
        let d: Vec<i32> = (0..4096).map(|t| ((t as f64 * 0.05).sin() * 8000.0) as i32 + r3.range(-256, 256) as i32).collect();
        let p5 = Pcm { channels: 1, bps: 16, rate: 44100, data: d, family: "sine_noise" };
        out(run_record("corpus-f4", &c5, &p5, "st", "mem", true));
        // quotient sums beyond 2^32: 24-bit impulse train, Rice parameter 0, fixed order 0 only, one-partition
        // entropy estimate (the cached SIMD quotient sum must not wrap)
        let mut c6 = Cfg::default();
        c6.use_lpc = false;
        c6.fixed_max_order = 0;
        c6.max_parameter = 0;
        c6.partitions = 1;
        let d: Vec<i32> = (0..4096).map(|t| if t % 8 == 0 { 1 << 22 } else { 0 }).collect();
        let p6 = Pcm { channels: 1, bps: 24, rate: 44100, data: d, family: "dense_impulses" };
        out(run_record("corpus-quotient-sum-2pow32", &c6, &p6, "st", "mem", true));
        // a Rice parameter ABOVE the sample width is optimal for one partition: 8-bit input, order selection by bit
        // count, a smooth tone (fixed order >= 2 wins) with a 64-sample full-scale alternating burst
        {
            let mut c8 = Cfg::default();
            c8.order_sel_bitcount = true;
            c8.use_lpc = false;
            let d: Vec<i32> = (0..4096)
                .map(|t| if (2048..2112).contains(&t) { if t % 2 == 0 { 127 } else { -128 } } else { ((t as f64 * std::f64::consts::TAU / 80.0).sin() * 100.0) as i32 })
                .collect();
            let p8 = Pcm { channels: 1, bps: 8, rate: 44100, data: d, family: "tone_burst_lowbits" };
            out(run_record("corpus-c13-param-above-width", &c8, &p8, "st", "mem", true));
        }
        // a fixed-predictor candidate within a few bytes of the verbatim size whose PARTITION order (0: odd block length)
        // is below its PREDICTOR order (4): cubic polynomial + one impulse, 24-bit, Rice parameter 0. Any term of the
        // reported size that mixes the two orders up decides the comparison with verbatim wrongly here
        for m in [170i32, 176, 179, 180, 181, 182, 183, 184, 186, 190] {
            let mut c9 = Cfg::default();
            c9.block_size = 255;
            c9.use_lpc = false;
            c9.max_parameter = 0;
            let mut d: Vec<i32> = (0..255i64).map(|t| (t * (t - 1) * (t - 2) / 6) as i32).collect();
            d[128] += m;
            let p9 = Pcm { channels: 1, bps: 24, rate: 48000, data: d, family: "cubic_impulse" };
            out(run_record(&format!("corpus-c09-odd-block-{m}"), &c9, &p9, "st", "mem", true));
        }
        // unary runs longer than 2^16 that are EMITTED (still cheaper than verbatim): 24-bit clicks in silence, Rice parameter 0
        // (quotients 80000 and 139999): every reader of the unary code must take them
        {
            let mut c7 = Cfg::default();
            c7.max_parameter = 0;
            let mut d = vec![0i32; 4096 + 700];
            d[1000] = 40000;
            d[4096 + 300] = -70000;
            let p7 = Pcm { channels: 1, bps: 24, rate: 44100, data: d, family: "click_in_silence" };
            out(run_record("corpus-long-unary", &c7, &p7, "st", "mem", true));
        }
        // F14: LPC prediction error outside the i32 / FLAC residual range (compute_error's final subtraction,
        // encode_signbit(i32::MIN)); explicit samples, so that the cases do not depend on the platform's sin()
        for (name, text) in [
            ("A", include_str!("../../corpus/lpc-overflow-witness/witness_A.txt")),
            ("B", include_str!("../../corpus/lpc-overflow-witness/witness_B.txt")),
            ("C", include_str!("../../corpus/lpc-overflow-witness/witness_C.txt")),
            ("D", include_str!("../../corpus/lpc-overflow-witness/witness_D.txt")),
        ] {
            let get = |k: &str| text.split_whitespace().find_map(|t| t.strip_prefix(&format!("{k}="))).unwrap().to_string();
            let data: Vec<i32> = get("samples").split(',').map(|x| x.parse().unwrap()).collect();
            if data.len() > max_samples.max(4096) {
                continue;
            }
            let mut c = Cfg::default();
            c.block_size = get("block").parse().unwrap();
            c.lpc_order = get("lpc_order").parse().unwrap();
            c.quant_precision = get("quant_precision").parse().unwrap();
            c.alpha_bits = get("alpha_bits").parse().unwrap();
            let p = Pcm { channels: get("channels").parse().unwrap(), bps: 24, rate: 48000, data, family: "lowpass_burst" };
            out(run_record(&format!("corpus-f14-{name}"), &c, &p, "st", "mem", true));
            if name == "A" || name == "D" {
                out(run_record(&format!("corpus-f14-{name}-mt"), &c, &p, "mt:2", "mem", false));
            }
        }
    }
    for i in 0..cases {
        if focus == "burst" {
            let (cfg, pcm) = burst_case(&mut rng, i, max_samples);
            let mode = match i % 5 { 3 => "frames", 4 => "mt:2", _ => "st" };
            out(run_record(&format!("burst{i}"), &cfg, &pcm, mode, "mem", mode == "st"));
            continue;
        }
        let mut cfg = gen::random_valid_cfg(&mut rng);
        if focus == "residues" {
            // C04: every residue of len mod bs for small block sizes
            cfg.block_size = *rng.pick(&[32usize, 33, 64]);
        }
        let mut pcm = gen::random_pcm(&mut rng, cfg.block_size, max_samples);
        if focus == "residues" {
            let bs = cfg.block_size;
            let len = (i % (2 * bs + 1)).min(max_samples / pcm.channels);
            pcm = gen::pcm(&mut rng, pcm.family, pcm.channels, pcm.bps, pcm.rate, len);
        }
        if focus.starts_with("manyframes") {
            // frame numbers crossing 127/128, 2047/2048 (coded-number length boundaries): tiny blocks
            cfg.block_size = *rng.pick(&[32usize, 33]);
            let all = [126usize, 129, 1023, 1025, 1030, 2047, 2049];
            let fit: Vec<usize> = all.iter().copied().filter(|f| f * 33 <= max_samples).collect();
            let frames = *rng.pick(if fit.is_empty() { &all[..1] } else { &fit[..] });
            let fam = *rng.pick(&["silence", "dc", "sine_small", "near_constant", "impulses"]);
            let tail = rng.below(cfg.block_size as u64) as usize;
            let b = *rng.pick(&[8usize, 16]);
            pcm = gen::pcm(&mut rng, fam, 1, b, pcm.rate, (frames - 1) * cfg.block_size + tail.max(1));
        }
        if focus == "threshold" {
            // C09: candidates whose real size is within ~1% of the verbatim size. Noise whose level switches
            // every 64 samples; the number of loud segments sweeps deterministically through the band in
            // which the best Rice-coded candidate crosses the verbatim size (block 4096, finest partitioning).
            let bps = *rng.pick(&[16usize, 16, 12, 20]);
            let ch = if i % 5 == 4 { 2 } else { 1 };
            let loud = 36 + (i % 26); // of 64 segments
            let hi = (1i64 << (bps - 1)) - 1;
            let nblk = 1 + (i % 2);
            let n = (4096 * nblk).min(max_samples / ch).max(64);
            let mut data = Vec::with_capacity(n * ch);
            let mut amps = vec![hi; ch];
            for t in 0..n {
                for c in 0..ch {
                    if t % 64 == 0 {
                        // evenly spread (Bresenham) or random placement of the loud segments
                        let seg = (t / 64) % 64;
                        let is_loud = if i % 3 == 0 { rng.below(64) < loud as u64 } else { (seg * loud) / 64 != ((seg + 1) * loud) / 64 };
                        amps[c] = if is_loud { hi } else { hi / 4 };
                    }
                    data.push(rng.range(-amps[c], amps[c]) as i32);
                }
            }
            cfg = Cfg::default();
            cfg.block_size = 4096.min(n);
            if i % 4 == 1 { cfg.use_fixed = false; }
            if i % 4 == 2 { cfg.order_sel_bitcount = true; }
            if i % 7 == 3 { cfg.max_parameter = 12; }
            pcm = Pcm { channels: ch, bps, rate: 44100, data, family: "bursty_noise" };
        }
        if focus == "loud" {
            let fam = *rng.pick(&["fullscale", "alt_fullscale", "heavy_tail", "loud_silent_mix", "anti_stereo", "white", "dense_impulses", "dense_impulses", "tone_hf", "bursty_noise", "bursty_noise"]);
            let bps = if fam == "bursty_noise" { *rng.pick(&[12usize, 16, 16, 20]) } else { *rng.pick(&[20usize, 24]) };
            pcm = gen::pcm(&mut rng, fam, pcm.channels.min(2), bps, pcm.rate, pcm.len());
            cfg.max_parameter = if fam == "bursty_noise" { *rng.pick(&[14usize, 14, 12, 10]) } else { *rng.pick(&[0usize, 0, 1, 2, 8, 14]) };
            // configurations in which a single candidate decides: no LPC / order-0 fixed predictor only /
            // a one-partition entropy estimate
            if rng.chance(40) {
                cfg.use_lpc = false;
            }
            if rng.chance(30) {
                cfg.fixed_max_order = 0;
            }
            if rng.chance(30) {
                cfg.partitions = 1;
            }
            if rng.chance(50) {
                cfg.block_size = *rng.pick(&[256usize, 1024, 4096, 4096]);
                pcm = gen::pcm(&mut rng, fam, pcm.channels.min(2), bps, pcm.rate, pcm.len().max(cfg.block_size + 7).min(max_samples / pcm.channels.min(2)));
                pcm.family = fam;
            }
        }
        let mode = match i % 8 {
            _ if focus == "manyframes-mt" => "mt:2".to_string(),
            0 | 1 | 2 | 3 => "st".to_string(),
            4 => "frames".to_string(),
            5 => format!("mt:{}", 1 + rng.below(3)),
            6 => "mt:2".to_string(),
            _ => "st".to_string(),
        };
        let src = *rng.pick(&["mem", "bytes", "nohint", "bytes_nohint"]);
        let olog = mode == "st";
        // the block size is an ARGUMENT of the encode call; the configuration carries one of its own, which
        // must not influence the stream (STREAMINFO bounds are restored from the argument)
        if focus == "none" && rng.chance(15) {
            let other = *rng.pick(&[32usize, 192, 1024, 4096, 32767]);
            if other != cfg.block_size {
                cfg.cfg_bs = other;
            }
        }
        out(run_record(&format!("s{i}"), &cfg, &pcm, &mode, src, olog));
    }
}

/// Re-runs one recorded case (inputs taken from the record) and returns the fresh record.
pub fn replay(line: &str) -> String {
    use crate::util::{field, parse_ints};
    let cfg = Cfg::parse(field(line, "cfg").unwrap());
    let pcm = Pcm {
        channels: field(line, "ch").unwrap().parse().unwrap(),
        bps: field(line, "bps").unwrap().parse().unwrap(),
        rate: field(line, "rate").unwrap().parse().unwrap(),
        data: parse_ints(field(line, "pcm").unwrap()),
        family: "replay",
    };
    run_record(field(line, "id").unwrap(), &cfg, &pcm, field(line, "mode").unwrap(), field(line, "src").unwrap(), true)
}
