//! `par` correspondence stream (C05, C06): multi-thread encodes under perturbed schedules with
//! fault-injecting sources; the protocol event log (hooks of `--cfg flacenc_verif`) is replayed
//! through the Lean protocol model; direct oracles compare with the single-thread run, watch for
//! hangs and panics and count OS threads before/after.
//!   par id=… cls=… W=… env=… blocks=<len:valid,…> fail=<k|-> trace=<thread:site:buf:frame;…>
//!       caps=<refill:encode:md5> impl=ok|err:source|err:config|panic|hang st=<…> threads=<before>:<after>
//!       panics=N o_c05=… o_c06=…

use crate::gen::{self, Cfg, Pcm};
use crate::stream::{stream_bytes, TestSource};
use crate::util::{Rng, PANIC_COUNT};
use flacenc::error::{EncodeError, Verify};
use flacenc::verif_hooks as vh;
use std::sync::atomic::Ordering;
use std::sync::mpsc;
use std::time::Duration;

fn thread_count() -> usize {
    std::fs::read_dir("/proc/self/task").map(|d| d.count()).unwrap_or(0)
}

fn kind(r: &Result<Vec<u8>, String>) -> String {
    match r {
        Ok(_) => "ok".to_string(),
        Err(k) => k.clone(),
    }
}

fn err_kind(e: EncodeError) -> String {
    match e {
        EncodeError::Source(_) => "err:source".to_string(),
        EncodeError::Config(_) => "err:config".to_string(),
        _ => "err:other".to_string(),
    }
}

#[derive(Clone)]
pub struct Plan {
    pub w: usize,           // config.workers (0 = None)
    pub env: Option<String>, // FLACENC_WORKERS
    pub fail_at: Option<usize>,
    /// the read at which a byte source uses a container one byte too wide (a source error, like `fail_at`)
    pub wide: bool,
    /// with `wide`: the faulty read is RAGGED (last sample cut) instead of too wide
    pub ragged: bool,
    pub bad_blocks: Vec<usize>,
    pub bytes_mode: bool,
    pub intensity: u32,
}

fn make_source(pcm: &Pcm, bs: usize, plan: &Plan) -> (TestSource, Vec<bool>) {
    let mut p = pcm.clone();
    let nblocks = (p.len() + bs - 1) / bs;
    let mut valid = vec![true; nblocks];
    for &j in &plan.bad_blocks {
        if j < nblocks {
            let idx = (j * bs * p.channels + (j * 7) % p.channels.max(1)).min(p.data.len() - 1);
            p.data[idx] = 1 << (p.bps - 1); // one above the maximum
            valid[j] = false;
        }
    }
    let mut s = TestSource::new(&p, (plan.bytes_mode && plan.bad_blocks.is_empty()) || plan.wide, true);
    if plan.wide && plan.ragged {
        s.ragged_at = plan.fail_at;
    } else if plan.wide {
        s.wide_at = plan.fail_at;
    } else {
        s.fail_at = plan.fail_at;
    }
    (s, valid)
}

/// Runs `f` on its own thread; `None` if it does not return within the limit (hang).
fn with_watchdog<R: Send + 'static>(secs: u64, f: impl FnOnce() -> R + Send + 'static) -> Option<std::thread::Result<R>> {
    let (tx, rx) = mpsc::channel();
    let h = std::thread::spawn(move || {
        let r = std::panic::catch_unwind(std::panic::AssertUnwindSafe(f));
        let _ = tx.send(r);
    });
    match rx.recv_timeout(Duration::from_secs(secs)) {
        Ok(r) => {
            let _ = h.join();
            Some(r)
        }
        Err(_) => None,
    }
}

pub fn run_case(id: &str, cfg: &Cfg, pcm: &Pcm, plan: &Plan, seed: u64) -> String {
    let bs = cfg.block_size;
    let k = (pcm.bps + 7) / 8;
    // single-thread reference (same source, same faults)
    let mut c_st = cfg.clone();
    c_st.multithread = false;
    let enc_st = c_st.to_encoder().into_verified().unwrap();
    let (src_st, valid) = make_source(pcm, bs, plan);
    let st = flacenc::encode_with_fixed_block_size(&enc_st, src_st, bs).map(|s| stream_bytes(&s)).map_err(err_kind);
    // multi-thread run under a perturbed schedule
    let mut c_mt = cfg.clone();
    c_mt.multithread = true;
    c_mt.workers = plan.w;
    let enc_mt = c_mt.to_encoder().into_verified().unwrap();
    match &plan.env {
        Some(v) => std::env::set_var("FLACENC_WORKERS", v),
        None => std::env::remove_var("FLACENC_WORKERS"),
    }
    let (src_mt, _) = make_source(pcm, bs, plan);
    let before = thread_count();
    let panics_before = PANIC_COUNT.load(Ordering::SeqCst);
    vh::sched_start(seed, plan.intensity);
    let res = with_watchdog(30, move || flacenc::encode_with_fixed_block_size(&enc_mt, src_mt, bs).map(|s| stream_bytes(&s)).map_err(err_kind));
    let events = vh::sched_take();
    std::env::remove_var("FLACENC_WORKERS");
    // give exited threads a moment to disappear from /proc (join has returned for all of them)
    let mut after = thread_count();
    for _ in 0..50 {
        if after <= before {
            break;
        }
        std::thread::sleep(Duration::from_millis(2));
        after = thread_count();
    }
    let panics = PANIC_COUNT.load(Ordering::SeqCst) - panics_before;
    let (impl_kind, mt_bytes) = match &res {
        None => ("hang".to_string(), None),
        Some(Err(_)) => ("panic".to_string(), None),
        Some(Ok(r)) => (kind(r), r.as_ref().ok().cloned()),
    };
    let st_kind = kind(&st);
    // worker count actually used: number of distinct threads that received from the encode queue
    let mut worker_threads: Vec<usize> = vec![];
    for e in &events {
        if e.site == "encode_recv" && !worker_threads.contains(&e.thread) {
            worker_threads.push(e.thread);
        }
    }
    let mut caps = [0usize; 3];
    let mut trace = String::new();
    for e in &events {
        match e.site {
            "refill_cap" => caps[0] = e.qlen.unwrap_or(0),
            "encode_cap" => caps[1] = e.qlen.unwrap_or(0),
            "md5_cap" => caps[2] = e.qlen.unwrap_or(0),
            _ => {
                let f = |x: Option<usize>| x.map_or("-".to_string(), |v| v.to_string());
                trace.push_str(&format!("{}:{}:{}:{};", e.thread, e.site, f(e.buf), f(e.frame)));
            }
        }
    }
    if trace.is_empty() {
        trace.push('-');
    }
    // direct oracles
    let o5 = if plan.fail_at.is_none() && plan.bad_blocks.is_empty() {
        // a second multi-thread run WITHOUT the instrumented channels (plain blocking operations),
        // and the stream assembled frame by frame through the frame-level entry point
        let mut c2 = cfg.clone();
        c2.multithread = true;
        c2.workers = plan.w.max(1);
        let plain = crate::stream::encode(&c2, pcm, &format!("mt:{}", plan.w.max(1)), if plan.bytes_mode { "bytes" } else { "nohint" }).map(|s| stream_bytes(&s));
        let frames = crate::stream::encode(cfg, pcm, "frames", "mem").map(|s| stream_bytes(&s));
        match (&st, &mt_bytes) {
            (Ok(a), Some(b)) if a == b => {
                if plain.as_ref().ok() != Some(a) {
                    "fail:second_multithread_run_differs".to_string()
                } else if frames.as_ref().ok() != Some(a) {
                    "fail:frame_by_frame_assembly_differs".to_string()
                } else {
                    "ok".to_string()
                }
            }
            (Ok(_), Some(_)) => "fail:multithread_bytes_differ_from_singlethread".to_string(),
            _ => format!("fail:result_{impl_kind}_vs_{st_kind}"),
        }
    } else {
        "ok".to_string()
    };
    let o6 = if impl_kind == "hang" {
        "fail:hang".to_string()
    } else if impl_kind == "panic" {
        "fail:panic".to_string()
    } else if impl_kind != st_kind {
        format!("fail:returned_{impl_kind}_singlethread_{st_kind}")
    } else if after > before {
        format!("fail:threads_still_running_{before}_to_{after}")
    } else if panics > 0 {
        format!("fail:{panics}_helper_thread_panics")
    } else {
        "ok".to_string()
    };
    let nblocks = valid.len();
    let blocks: Vec<String> = (0..nblocks)
        .map(|j| {
            let n = bs.min(pcm.len() - j * bs);
            format!("{}:{}", n * pcm.channels * k, valid[j] as u8)
        })
        .collect();
    let fault = match (plan.fail_at, plan.bad_blocks.len()) {
        (None, 0) => "nofault",
        (Some(_), 0) => "readfail",
        (None, 1) => "badsample",
        (None, _) => "badsamples",
        _ => "both",
    };
    format!(
        "par id={id} cls=par|W{}|{}|{fault}|i{}|n{} W={} cfgw={} env={} nworkers={} blocks={} fail={} caps={}:{}:{} trace={trace} impl={impl_kind} st={st_kind} threads={before}:{after} panics={panics} o_c05={o5} o_c06={o6}",
        worker_threads.len(), plan.env.clone().unwrap_or("unset".into()), plan.intensity, nblocks,
        worker_threads.len(), plan.w, plan.env.clone().unwrap_or("unset".into()), worker_threads.len(),
        if blocks.is_empty() { "-".to_string() } else { blocks.join(",") },
        plan.fail_at.map_or("-".to_string(), |k| k.to_string()),
        caps[0], caps[1], caps[2]
    )
}

pub fn generate(seed: u64, cases: usize, out: &mut dyn FnMut(String)) {
    let mut rng = Rng::new(seed ^ 0x9a7);
    let ncpu = std::thread::available_parallelism().map(|n| n.get()).unwrap_or(1);
    let mut i = 0usize;
    // corpus: the three confirmed failures of F8 (read error, out-of-range sample, FLACENC_WORKERS=0)
    {
        let mut c = Cfg::default();
        c.block_size = 64;
        let p = gen::pcm(&mut rng, "sine_noise", 2, 16, 44100, 300);
        let base = Plan { w: 2, env: None, fail_at: None, wide: false, ragged: false, bad_blocks: vec![], bytes_mode: false, intensity: 30 };
        out(run_case("corpus-f8a-read-error", &c, &p, &Plan { fail_at: Some(2), ..base.clone() }, seed));
        out(run_case("corpus-f8b-bad-sample", &c, &p, &Plan { bad_blocks: vec![1], ..base.clone() }, seed));
        // more invalid blocks than there are frame buffers (2W): every buffer must come back
        out(run_case("corpus-many-bad-blocks", &c, &p, &Plan { w: 1, bad_blocks: vec![0, 1, 2, 3, 4], ..base.clone() }, seed));
        out(run_case("corpus-f8c-env-zero", &c, &p, &Plan { w: 0, env: Some("0".into()), ..base.clone() }, seed));
        // a byte source that delivers a ragged block (cut in the middle of an inter-channel sample): the frame buffer rejects
        // it before the MD5 context sees anything, in both modes
        for (name, ch, k) in [("2ch-k1", 2usize, 1usize), ("3ch-k0", 3, 0), ("1ch-k2", 1, 2)] {
            let pr = gen::pcm(&mut rng, "sine_noise", ch, 16, 44100, 300);
            out(run_case(&format!("corpus-ragged-{name}"), &c, &pr, &Plan { fail_at: Some(k), wide: true, ragged: true, bytes_mode: true, ..base.clone() }, seed));
        }
        // block sizes at both ends of the supported range (32..=32767), incl. sizes that are not a multiple of a
        // SIMD vector: the two modes must accept exactly the same sizes
        for bs in [32767usize, 32766, 32753, 32752, 33, 32] {
            let mut cb = Cfg::default();
            cb.block_size = bs;
            let pb = gen::pcm(&mut rng, "sine_small", 1, 8, 8000, if bs > 1000 { bs + 40 } else { 3 * bs + 5 });
            out(run_case(&format!("corpus-bs-edge-{bs}"), &cb, &pb, &Plan { w: 2, ..base.clone() }, seed));
        }
    }
    while i < cases {
        let mut cfg = gen::random_valid_cfg(&mut rng);
        cfg.block_size = *rng.pick(&[32usize, 64, 64, 96, 192, 256]);
        if cfg!(feature = "experimental") && std::env::var("FVH_EXPERIMENTAL").is_ok() {
            cfg.block_size = *rng.pick(&[192usize, 256, 576, 1024]);
        }
        let bs = cfg.block_size;
        let nblocks = match rng.below(8) {
            0 => 0,
            1 => 1,
            2 => 2,
            _ => 1 + rng.below(24) as usize,
        };
        // "near-full tail" plans: a final block a few samples shorter than the block size, tonal content,
        // LPC with a tapered window, few blocks and several workers - per-thread caches keyed by (a function
        // of) the block length are then hit by one thread in single-thread mode and missed by a fresh worker
        // experimental estimators keep per-thread state (only in the dedicated experimental run)
        let exp_case = cfg!(feature = "experimental") && std::env::var("FVH_EXPERIMENTAL").is_ok() && rng.chance(60);
        if exp_case {
            cfg.use_lpc = true;
            cfg.use_fixed = rng.chance(30);
            cfg.use_direct_mse = true;
            cfg.mae_steps = *rng.pick(&[0usize, 1, 2, 3]);
            cfg.lpc_order = *rng.pick(&[2usize, 4, 8, 12]);
            cfg.quant_precision = *rng.pick(&[12usize, 15]);
        }
        let near_full = !exp_case && rng.chance(15);
        let (nblocks, tail) = if near_full {
            (2 + rng.below(2) as usize, bs - 1 - rng.below(15.min(bs as u64 - 2)) as usize)
        } else {
            (nblocks, if rng.chance(50) { 0 } else { 1 + rng.below(bs as u64 - 1) as usize })
        };
        if near_full {
            cfg.use_lpc = true;
            cfg.window_rect = false;
            cfg.use_direct_mse = false;
        }
        let nblocks = if exp_case { nblocks.max(4) } else { nblocks };
        let len = if nblocks == 0 { 0 } else { (nblocks - 1) * bs + if tail == 0 { bs } else { tail } };
        let ch = 1 + rng.below(3) as usize;
        let fam = if near_full || exp_case { *rng.pick(&["sine_noise", "sine_small", "tone_hf", "ar1"]) } else { *rng.pick(&gen::FAMILIES) };
        let bps = if exp_case { *rng.pick(&[16usize, 16, 24]) } else { *rng.pick(&gen::BPS) };
        let rate = if rng.chance(50) { *rng.pick(&gen::RATES) } else { 1 + rng.below(96000) as usize };
        let pcm = gen::pcm(&mut rng, fam, ch, bps, rate, len);
        let (w, env) = match rng.below(10) {
            0 => (0, None), // core count
            1 => (0, Some("3".to_string())),
            2 => (0, Some("0".to_string())),
            3 => (0, Some("x".to_string())),
            4 => (2, Some("7".to_string())), // config wins
            5 => (1, None),
            6 => (ncpu.min(16), None),
            _ => (*rng.pick(&[1usize, 2, 3, 5, 8]), None),
        };
        let (w, env) = if near_full || exp_case { (*rng.pick(&[2usize, 3, 4]), None) } else { (w, env) };
        let fault = if near_full || exp_case { 9 } else { rng.below(10) };
        let fail_at = if fault == 0 || fault == 1 || fault == 2 { Some(rng.below(nblocks as u64 + 2) as usize) } else { None };
        let mut bad_blocks = vec![];
        if (fault == 2 || fault == 3 || fault == 4) && nblocks > 0 {
            // one invalid block, or many (more than the 2W frame buffers when the input is long enough)
            let k = if rng.chance(50) { 1 } else { 1 + rng.below(2 * w.max(1) as u64 + 3) as usize };
            for _ in 0..k {
                let j = rng.below(nblocks as u64) as usize;
                if !bad_blocks.contains(&j) {
                    bad_blocks.push(j);
                }
            }
        }
        // a read "failure" is either an error returned by the source itself or a byte fill with the wrong
        // container width, which the fill must reject (only meaningful below 25 bits and without bad blocks)
        let wide = fail_at.is_some() && bad_blocks.is_empty() && pcm.bps <= 24 && fail_at.unwrap() < nblocks && rng.chance(35);
        let ragged = wide && (pcm.channels >= 2 || pcm.bps > 8) && rng.chance(50);
        let plan = Plan { w, env, fail_at, wide, ragged, bad_blocks, bytes_mode: rng.chance(30), intensity: *rng.pick(&[0u32, 10, 40, 80]) };
        out(run_case(&format!("p{i}"), &cfg, &pcm, &plan, seed.wrapping_add(i as u64 * 7919)));
        i += 1;
    }
}
