//! `history` correspondence stream (C10): random sequences of calls on ONE long-lived thread —
//! stream-level and frame-level encodes (single- and multi-thread), serialisation, parsing, and the
//! integer kernels that own thread-local scratch storage — with shrinking and growing block sizes,
//! mono/stereo/multichannel switches, width switches and window parameters that differ by one ulp
//! or by less than 2^-16. Every call's result is compared with the same call made alone on a fresh
//! thread.
//!   history id=… cls=history|<n> calls=<desc;…> same=<0/1 per call> o_c10=ok|fail:call_<k>_<desc>

use crate::gen::{self, Cfg, Pcm};
use crate::stream::{encode, stream_bytes};
use crate::util::{catch, Rng};
use flacenc::verif_hooks as vh;
use md5::Digest;

#[derive(Clone)]
enum Call {
    Encode(Cfg, Pcm, String),
    Parse(Cfg, Pcm),
    Search(Vec<i32>, usize, usize),
    FixedErrors(Vec<i32>),
    LpcError(Vec<i16>, i8, usize, Vec<i32>),
    Subframe(Cfg, Vec<i32>, u8),
    /// `Stream::write` to a user sink that fails on its k-th operation (returns Err part-way).
    FailingWrite(Cfg, Pcm, usize),
    /// `FrameHeader::write` of a header whose start sample number cannot be coded (returns Err after
    /// part of the header went into the scratch buffer), followed by nothing: the NEXT call must not care.
    BadHeaderWrite(u64),
}

fn digest(bytes: &[u8]) -> String {
    let d: [u8; 16] = md5::Md5::digest(bytes).into();
    crate::util::hex(&d[..6])
}

fn ints_bytes(v: &[i32]) -> Vec<u8> {
    v.iter().flat_map(|x| x.to_le_bytes()).collect()
}

fn run(c: &Call) -> String {
    let c = c.clone();
    catch(move || match c {
        Call::Encode(cfg, pcm, mode) => match encode(&cfg, &pcm, &mode, "mem") {
            Ok(s) => digest(&stream_bytes(&s)),
            Err(e) => format!("err:{e}"),
        },
        Call::Parse(cfg, pcm) => match encode(&cfg, &pcm, "st", "mem") {
            Ok(s) => {
                let bytes = stream_bytes(&s);
                #[cfg(feature = "decode")]
                {
                    match flacenc::component::parser::stream::<nom::error::Error<&[u8]>>(&bytes) {
                        Ok((_, parsed)) => {
                            use flacenc::component::Decode;
                            let mut audio = vec![];
                            for i in 0..parsed.frame_count() {
                                audio.extend(parsed.frame(i).unwrap().decode());
                            }
                            format!("{}{}", digest(&stream_bytes(&parsed)), digest(&ints_bytes(&audio)))
                        }
                        Err(_) => "parse_error".to_string(),
                    }
                }
                #[cfg(not(feature = "decode"))]
                {
                    // builds without the parser: the call is an encode (keeps histories identical across builds)
                    format!("noparser:{}", digest(&bytes))
                }
            }
            Err(e) => format!("err:{e}"),
        },
        Call::Search(sig, warm, maxp) => {
            let (o, ps, b) = vh::find_partitioned_rice_parameter(&sig, warm, maxp);
            format!("{o}:{}:{b}", digest(&ps))
        }
        Call::FixedErrors(sig) => {
            let e = vh::fixed_lpc_errors(&sig);
            let n = sig.len();
            let mut all = vec![];
            for p in &e {
                all.extend_from_slice(&p[..n.min(p.len())]);
            }
            digest(&ints_bytes(&all))
        }
        Call::LpcError(coefs, shift, precision, sig) => digest(&ints_bytes(&vh::compute_error(&coefs, shift, precision, &sig))),
        Call::FailingWrite(cfg, pcm, k) => match encode(&cfg, &pcm, "st", "mem") {
            Ok(st) => {
                use flacenc::component::BitRepr;
                let mut sink = crate::sink::UserSink { fail_at: Some(k), ..crate::sink::UserSink::default() };
                let r = st.write(&mut sink);
                format!("{}:{}:{}", r.is_err(), sink.ops.len(), digest(&sink.packed()))
            }
            Err(e) => format!("err:{e}"),
        },
        Call::BadHeaderWrite(n) => {
            use flacenc::component::{BitRepr, ChannelAssignment, FrameHeader, FrameOffset};
            let mut h = FrameHeader::new(192, ChannelAssignment::Independent(1), 16, 44100, FrameOffset::Frame(0)).unwrap();
            h.set_frame_offset(FrameOffset::StartSample(n));
            let mut sink = flacenc::bitsink::MemSink::<u8>::new();
            let r = h.write(&mut sink);
            format!("{}:{}", r.is_err(), digest(sink.as_slice()))
        }
        Call::Subframe(cfg, sig, bps) => {
            use flacenc::component::BitRepr;
            let sf = vh::encode_subframe(&cfg.to_encoder().subframe_coding, &sig, bps);
            let mut sink = flacenc::bitsink::MemSink::<u8>::new();
            sf.write(&mut sink).unwrap();
            digest(sink.as_slice())
        }
    })
    .unwrap_or_else(|m| format!("panic:{m}"))
}

fn describe(c: &Call) -> String {
    match c {
        Call::Encode(cfg, pcm, mode) => format!("enc:{mode}:bs{}:c{}:b{}:n{}:a{}:{}", cfg.block_size, pcm.channels, pcm.bps, pcm.len(), if cfg.window_rect { 0 } else { cfg.alpha_bits }, pcm.family),
        Call::Parse(cfg, pcm) => format!("parse:bs{}:c{}:b{}:n{}", cfg.block_size, pcm.channels, pcm.bps, pcm.len()),
        Call::Search(s, w, m) => format!("search:n{}:w{w}:m{m}", s.len()),
        Call::FixedErrors(s) => format!("fixederr:n{}", s.len()),
        Call::LpcError(c, sh, p, s) => format!("lpcerr:o{}:s{sh}:p{p}:n{}", c.len(), s.len()),
        Call::Subframe(cfg, s, b) => format!("subframe:n{}:b{b}:a{}", s.len(), if cfg.window_rect { 0 } else { cfg.alpha_bits }),
        Call::FailingWrite(cfg, pcm, k) => format!("failwrite:bs{}:c{}:n{}:k{k}", cfg.block_size, pcm.channels, pcm.len()),
        Call::BadHeaderWrite(n) => format!("badheader:{n}"),
    }
}

fn random_call(rng: &mut Rng) -> Call {
    // window parameters that collide under any quantisation coarser than the bit pattern
    let alphas: [u32; 10] = [
        0.0f32.to_bits(), 1e-6f32.to_bits(), 1, 0.4f32.to_bits(), 0.4f32.to_bits() + 1, 0.40001f32.to_bits(),
        (0.4f32 + 1.0 / 131072.0).to_bits(), 1.0f32.to_bits(), 1.0f32.to_bits() - 1, 0.5f32.to_bits(),
    ];
    let mut cfg = gen::random_valid_cfg(rng);
    cfg.block_size = *rng.pick(&[32usize, 64, 64, 128, 192, 256, 576, 1024, 4096]);
    cfg.window_rect = rng.chance(10);
    cfg.alpha_bits = *rng.pick(&alphas);
    if rng.chance(60) {
        // make LPC matter: otherwise the window is irrelevant
        cfg.use_lpc = true;
        cfg.use_fixed = rng.chance(50);
        cfg.lpc_order = *rng.pick(&[2usize, 8, 12, 24]);
    }
    if rng.chance(20) {
        // only the LPC candidate and verbatim remain: whatever the thread-local LPC buffers hold decides the frame
        cfg.use_lpc = true;
        cfg.use_fixed = false;
        cfg.use_constant = false;
        cfg.lpc_order = *rng.pick(&[2usize, 8, 12, 24]);
    }
    // experimental estimators (direct MSE / IRLS-MAE) keep per-thread state of their own; only in the
    // dedicated experimental run (the generator must not depend on the build in cross-build comparisons)
    if cfg!(feature = "experimental") && std::env::var("FVH_EXPERIMENTAL").is_ok() && rng.chance(60) {
        cfg.use_lpc = true;
        cfg.use_direct_mse = true;
        cfg.mae_steps = *rng.pick(&[0usize, 1, 2, 3]);
        cfg.lpc_order = *rng.pick(&[2usize, 4, 8, 12]);
    }
    let bs = cfg.block_size;
    let fam = *rng.pick(&["sine_noise", "sine_noise", "sine_small", "ramp", "white", "heavy_tail", "anti_stereo", "impulses", "fullscale"]);
    let ch = *rng.pick(&[1usize, 1, 2, 2, 2, 3, 8]);
    let bps = *rng.pick(&gen::BPS);
    let len = match rng.below(5) {
        0 => bs,
        1 => bs + 1 + rng.below(bs as u64) as usize,
        2 => 2 * bs + rng.below(40) as usize,
        3 => 1 + rng.below(bs as u64) as usize,
        _ => 3 * bs,
    }
    .min(9000 / ch);
    match rng.below(14) {
        12 => {
            let k = rng.below(60) as usize;
            Call::FailingWrite(cfg, gen::pcm(rng, fam, ch.min(2), bps, 44100, len.min(500)), k)
        }
        13 => Call::BadHeaderWrite(*rng.pick(&[1u64 << 36, (1u64 << 36) + 5, u64::MAX, (1u64 << 36) - 1])),
        0..=4 => Call::Encode(cfg, gen::pcm(rng, fam, ch, bps, 44100, len), (*rng.pick(&["st", "st", "frames", "mt:2", "mt:3"])).to_string()),
        5 => Call::Parse(cfg, gen::pcm(rng, fam, ch, bps, 44100, len.min(600))),
        6 | 7 => {
            let n = *rng.pick(&[64usize, 128, 192, 256, 1024, 4096, 96, 320]);
            let scale = 1i64 << rng.below(28);
            let warm = rng.below(5) as usize;
            let mut s: Vec<i32> = (0..n).map(|_| rng.range(-scale, scale) as i32).collect();
            for x in s.iter_mut().take(warm) {
                *x = 0;
            }
            Call::Search(s, warm, *rng.pick(&[0usize, 3, 8, 14]))
        }
        8 => {
            let n = *rng.pick(&[64usize, 65, 100, 17, 256, 31, 4096, 33]);
            Call::FixedErrors(gen::channel(rng, fam, bps, n))
        }
        9 => {
            let order = 1 + rng.below(24) as usize;
            let precision = 1 + rng.below(15) as usize;
            let cmax = (1i64 << (precision - 1)) - 1;
            let coefs: Vec<i16> = (0..order).map(|_| rng.range(-cmax - 1, cmax) as i16).collect();
            let n = order + 1 + rng.below(300) as usize;
            Call::LpcError(coefs, rng.below(16) as i8, precision, gen::channel(rng, fam, bps, n))
        }
        _ => {
            let n = *rng.pick(&[64usize, 100, 192, 256, 1024]);
            Call::Subframe(cfg, gen::channel(rng, fam, bps, n), bps as u8)
        }
    }
}

pub fn generate(seed: u64, cases: usize, out: &mut dyn FnMut(String)) {
    let mut rng = Rng::new(seed ^ 0x415);
    // corpus: F7 — Tukey alpha 0.0 then 1e-6 (and 0.4 / 0.40001) on one thread
    let mut histories: Vec<Vec<Call>> = vec![];
    {
        let mut h = vec![];
        for a in [0.0f32, 1e-6, 0.4, 0.40001, 0.0] {
            let mut c = Cfg::default();
            c.block_size = 256;
            c.alpha_bits = a.to_bits();
            let mut r2 = Rng::new(77);
            h.push(Call::Encode(c, gen::pcm(&mut r2, "sine_noise", 1, 16, 44100, 700), "st".to_string()));
        }
        histories.push(h);
    }
    for _ in 0..cases {
        let n = 6 + rng.below(30) as usize;
        let mut h: Vec<Call> = vec![];
        while h.len() < n {
            let c = random_call(&mut rng);
            // near-miss follow-ups: the same configuration with a block / signal length that differs by
            // less than one SIMD vector (16 samples), and the same length with a window parameter one ulp
            // away — cache keys that are coarser than (exact size, exact bits) collide exactly here
            let follow = match &c {
                Call::Encode(cfg, pcm, mode) if rng.chance(45) && pcm.len() > 40 => {
                    let mut out = vec![];
                    let d = 1 + rng.below(15) as usize;
                    let shorter = if rng.chance(50) { pcm.len() - d } else { pcm.len() + d };
                    let mut r2 = Rng::new(rng.next());
                    out.push(Call::Encode(cfg.clone(), gen::pcm(&mut r2, pcm.family, pcm.channels, pcm.bps, pcm.rate, shorter), mode.clone()));
                    if rng.chance(45) {
                        // DEGENERATE content of the same shape right after real content: digital silence, DC, one
                        // impulse. Fast paths that skip a write leave the previous call's scratch contents in place
                        let fam2 = *rng.pick(&["silence", "silence", "dc", "impulses"]);
                        let mut r3 = Rng::new(rng.next());
                        out.push(Call::Encode(cfg.clone(), gen::pcm(&mut r3, fam2, pcm.channels, pcm.bps, pcm.rate, pcm.len()), mode.clone()));
                    }
                    if !cfg.window_rect && rng.chance(50) {
                        let mut c2 = cfg.clone();
                        c2.alpha_bits = if c2.alpha_bits > 0 { c2.alpha_bits - 1 } else { 1 };
                        out.push(Call::Encode(c2, pcm.clone(), mode.clone()));
                    }
                    out
                }
                Call::Subframe(cfg, sig, bps) if rng.chance(45) && sig.len() > 80 => {
                    let d = 1 + rng.below(15) as usize;
                    let mut v = vec![Call::Subframe(cfg.clone(), sig[..sig.len() - d].to_vec(), *bps)];
                    if rng.chance(50) {
                        v.push(Call::Subframe(cfg.clone(), vec![0i32; sig.len()], *bps));
                    }
                    v
                }
                _ => vec![],
            };
            h.push(c);
            h.extend(follow);
        }
        histories.push(h);
    }
    for (i, h) in histories.iter().enumerate() {
        // the whole history on ONE long-lived thread
        let h2 = h.clone();
        let on_one_thread: Vec<String> = std::thread::spawn(move || h2.iter().map(run).collect()).join().unwrap_or_default();
        // each call alone on a fresh thread
        let mut same = String::new();
        let mut first_bad = None;
        for (k, c) in h.iter().enumerate() {
            let c2 = c.clone();
            let fresh = std::thread::spawn(move || run(&c2)).join().unwrap_or_else(|_| "thread_panic".to_string());
            let ok = on_one_thread.get(k) == Some(&fresh) && !fresh.starts_with("panic");
            same.push(if ok { '1' } else { '0' });
            if !ok && first_bad.is_none() {
                first_bad = Some(k);
            }
        }
        let descs: Vec<String> = h.iter().map(describe).collect();
        let o = match first_bad {
            None => "ok".to_string(),
            Some(k) => format!("fail:call_{k}_{}_differs_from_a_fresh_thread", descs[k]),
        };
        out(format!(
            "history id={}{i} cls=history|{} calls={} same={same} res={} o_c10={o}",
            if i == 0 { "corpus-f7-" } else { "h" },
            descs.iter().map(|d| d.split(':').next().unwrap_or("")).collect::<Vec<_>>().join("+"),
            descs.join(";"),
            on_one_thread.join(";")
        ));
    }
    // window fingerprints (kernel): distinct windows must have distinct fingerprints
    let mut bits: Vec<u32> = vec![0, 1, 0x8000_0000, 0.4f32.to_bits(), 0.4f32.to_bits() + 1, 0.40001f32.to_bits(), 1e-6f32.to_bits(), 1.0f32.to_bits(), u32::MAX, 0x7FC0_0000];
    for _ in 0..200 {
        bits.push(rng.next() as u32);
    }
    let fps: Vec<String> = bits.iter().map(|b| vh::window_fingerprint(&flacenc::config::Window::Tukey { alpha: f32::from_bits(*b) }).to_string()).collect();
    out(format!(
        "history id=winfp cls=winfp|all fn=winfp bits={} impl={} rect={} o_c10=ok",
        crate::util::ints(&bits), fps.join(","), vh::window_fingerprint(&flacenc::config::Window::Rectangle)
    ));
}
