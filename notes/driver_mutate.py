#!/usr/bin/env python3
"""Mutation experiments for translator part `driver` (scratch tree only; never touches /repo or /verif)."""
import json, os, re, shutil, subprocess, sys

W = "/tmp/build/driver/verif"
MUT = "/tmp/build/driver/mut/verif"
PRISTINE = "/tmp/build/driver/pristine"
SCRATCH = "/tmp/build/driver/repo"

C = "src/coding.rs"
D = "src/component/datatype.rs"

MUTS = [
    # (id, kind, file, old, new, description)
    ("M01", "sem", C, "if read_samples == 0 {", "if read_samples == 1 {", "loop ends on a block of 1 sample instead of 0"),
    ("M02", "sem", C, """    // `add_frame` lowers `min_block_size` to the size of a short final block,
    // but FLAC excludes the last block from this bound (and values below 16
    // are invalid), so the fixed block size is restored here.
    stream
        .stream_info_mut()
        .set_block_sizes(block_size, block_size)
        .unwrap();

    let (_, context)""", "    let (_, context)", "second set_block_sizes after the loop dropped (reverts fix 643cf2e)"),
    ("M03", "sem", C, """    stream
        .stream_info_mut()
        .set_block_sizes(block_size, block_size)
        .unwrap();

    loop {""", """    stream
        .stream_info_mut()
        .set_block_sizes(block_size, block_size + 1)
        .unwrap();

    loop {""", "first set_block_sizes(bs, bs + 1)"),
    ("M04", "sem", C, "Stream::new(src.sample_rate(), src.channels(), src.bits_per_sample())?",
     "Stream::new(src.sample_rate(), src.bits_per_sample(), src.channels())?", "Stream::new: channels / bits_per_sample swapped"),
    ("M05", "sem", C, "Context::new(src.bits_per_sample(), src.channels())", "Context::new(src.channels(), src.bits_per_sample())",
     "Context::new arguments swapped"),
    ("M06", "sem", C, "FrameBuf::with_size(src.channels(), block_size)?", "FrameBuf::with_size(block_size, src.channels())?",
     "FrameBuf::with_size arguments swapped"),
    ("M07", "sem", C, "framebuf_and_context.1.current_frame_number().unwrap(),", "framebuf_and_context.1.total_samples(),",
     "frame number := sample count of the context"),
    ("M08", "sem", C, "        stream.add_frame(frame);\n", "", "add_frame dropped (frame variable unused)"),
    ("M09", "sem", C, """    stream
        .stream_info_mut()
        .set_md5_digest(&context.md5_digest());
""", "", "set_md5_digest dropped"),
    ("M10", "sem", C, "src.len_hint().unwrap_or_else(|| context.total_samples())", "context.total_samples()", "len_hint ignored"),
    ("M11", "sem", C, "if config.multithread {", "if !config.multithread {", "par dispatch inverted"),
    ("M12", "sem", C, "src.read_samples(block_size, &mut framebuf_and_context)?", "src.read_samples(block_size + 1, &mut framebuf_and_context)?",
     "reads block_size + 1 samples"),
    ("M13", "sem", C, """        .set_block_sizes(block_size, block_size)
        .unwrap();

    loop {""", """        .set_block_sizes(block_size, block_size)
        .ok();

    loop {""", "first unwrap() replaced by ok() (error swallowed)"),
    ("M14", "sem", C, "framebuf_and_context.1.current_frame_number().unwrap(),", "0,", "every frame gets number 0"),
    ("M15", "sem", C, "        if read_samples == 0 {\n            break;\n        }\n", "", "loop never ends (break dropped)"),
    ("M16", "sem", C, "set_total_samples(src.len_hint().unwrap_or_else(|| context.total_samples()))",
     "set_total_samples(src.len_hint().unwrap_or_else(|| context.total_samples()) + 1)", "total samples + 1"),
    ("M17", "sem", D, "self.min_block_size = min(block_size, self.min_block_size);", "self.min_block_size = max(block_size, self.min_block_size);",
     "update_frame_info: min -> max for min_block_size"),
    ("M18", "sem", D, "let frame_size_in_bytes = (frame.count_bits() / 8) as u32;", "let frame_size_in_bytes = (frame.count_bits() / 4) as u32;",
     "frame size = bits / 4"),
    ("M19", "sem", D, "        self.total_samples += u64::from(block_size);\n", "", "total_samples not advanced"),
    ("M20", "sem", D, "self.max_frame_size = max(frame_size_in_bytes, self.max_frame_size);", "self.max_frame_size = frame_size_in_bytes;",
     "max_frame_size := last frame size"),
    ("M21", "sem", D, "        self.stream_info_mut().update_frame_info(&frame);\n", "", "add_frame no longer updates STREAMINFO"),
    ("M22", "sem", D, "stream_info: MetadataBlock::from_stream_info(stream_info, true),", "stream_info: MetadataBlock::from_stream_info(stream_info, false),",
     "with_stream_info: is_last = false"),
    ("M23", "sem", D, "    pub fn min_frame_size(&self) -> usize {\n        self.min_frame_size as usize", "    pub fn min_frame_size(&self) -> usize {\n        self.max_frame_size as usize",
     "accessor min_frame_size reads max_frame_size"),
    ("M24", "sem", D, "    pub fn block_size(&self) -> usize {\n        self.header.block_size()\n", "    pub fn block_size(&self) -> usize {\n        self.header.block_size() + 1\n",
     "Frame::block_size + 1"),
    ("M25", "sem", D, "let block_size = frame.block_size() as u16;", "let block_size = frame.block_size() as u8;", "block size cast to u8"),
    ("M26", "sem", D, "self.total_samples += u64::from(block_size);", "self.total_samples += 1;", "total_samples counts frames"),
    ("M27", "sem", D, "        self.md5.copy_from_slice(digest);\n", "", "set_md5_digest does nothing"),
    ("M28", "sem", D, "self.min_frame_size = min(frame_size_in_bytes, self.min_frame_size);\n        self.max_frame_size = max(frame_size_in_bytes, self.max_frame_size);",
     "self.max_frame_size = max(frame_size_in_bytes, self.min_frame_size);\n        self.min_frame_size = min(frame_size_in_bytes, self.max_frame_size);",
     "min/max frame size cross-wired"),
    ("M29", "sem", "src/source.rs", "    fn len_hint(&self) -> Option<usize> {\n        None\n    }\n}\n\nimpl<T: Source> Source for &mut T",
     "    fn len_hint(&self) -> Option<usize> {\n        Some(0)\n    }\n}\n\nimpl<T: Source> Source for &mut T", "default Source::len_hint returns Some(0)"),
    ("M30", "sem", C, "pub fn encode_fixed_size_frame(\n    config: &Verified<config::Encoder>,\n    framebuf: &FrameBuf,\n    frame_number: usize,\n    stream_info: &StreamInfo,",
     "pub fn encode_fixed_size_frame(\n    config: &Verified<config::Encoder>,\n    framebuf: &FrameBuf,\n    stream_info: &StreamInfo,\n    frame_number: usize,",
     "callee signature changed (parameters reordered) together with the call"),
    ("F01", "sem", C, '    #[cfg(feature = "par")]\n    {\n        if config.multithread {', '    #[cfg(not(feature = "par"))]\n    {\n        if config.multithread {', "feature predicate negated (cfg(not(feature = par)))"),
    ("F02", "sem", C, "        stream.add_frame(frame);\n", '        stream.add_frame(frame);\n        #[cfg(feature = "log")]\n        log::info!("frame added");\n', "a `log` feature site inside the loop"),
    ("F03", "sem", C, "        if config.multithread {", '        if config.multithread && cfg!(feature = "simd-nightly") {', "cfg!(unknown feature) inside the body"),
    ("F04", "sem", C, '    #[cfg(feature = "par")]\n    {\n        if config.multithread {', '    {\n        if config.multithread {', "feature attribute dropped (dispatch unconditional)"),
    # harmless rewrites
    ("H01", "harmless", C, "let read_samples = src.read_samples(block_size, &mut framebuf_and_context)?;\n        if read_samples == 0 {",
     "let n_read = src.read_samples(block_size, &mut framebuf_and_context)?;\n        if n_read == 0 {", "local renamed"),
    ("H02", "harmless", C, "if read_samples == 0 {", "if 0 == read_samples {", "comparison flipped"),
    ("H03", "harmless", C, "        .set_md5_digest(&context.md5_digest());", "        .set_md5_digest(&(context.md5_digest()));", "extra parentheses"),
    ("H04", "harmless", D, "        self.min_block_size = min(block_size, self.min_block_size);\n        self.max_block_size = max(block_size, self.max_block_size);",
     "        self.max_block_size = max(block_size, self.max_block_size);\n        self.min_block_size = min(block_size, self.min_block_size);",
     "two independent assignments swapped"),
    ("H05", "harmless", C, "        let frame = encode_fixed_size_frame(\n            config,", "        let frame: Frame = encode_fixed_size_frame(\n            config,", "type annotation added"),
    ("H06", "harmless", C, """    stream
        .stream_info_mut()
        .set_md5_digest(&context.md5_digest());
    stream
        .stream_info_mut()
        .set_total_samples(src.len_hint().unwrap_or_else(|| context.total_samples()));""", """    stream
        .stream_info_mut()
        .set_total_samples(src.len_hint().unwrap_or_else(|| context.total_samples()));
    stream
        .stream_info_mut()
        .set_md5_digest(&context.md5_digest());""", "two independent epilogue statements swapped"),
]


def theorem_at(lines, ln):
    # an error reported inside the doc comment of a declaration belongs to that declaration
    j = ln - 1
    while j >= 0 and not lines[j].startswith("/--") and not re.match(r"(theorem|def|example|instance|abbrev|inductive)\b", lines[j]):
        j -= 1
    if j >= 0 and lines[j].startswith("/--"):
        k = j
        while k < len(lines) and not re.match(r"(theorem|def|example|instance|abbrev|inductive)\b", lines[k]):
            k += 1
        if k < len(lines):
            ln = k + 1
    for i in range(ln - 1, -1, -1):
        m = re.match(r"(?:theorem|def|example|instance|abbrev|inductive)\s*([A-Za-z0-9_.]*)", lines[i])
        if m and not lines[i].startswith(" "):
            return m.group(1) or "example"
    return "?"


def run(mid, kind, rel, old, new, desc, extra=None):
    shutil.rmtree(SCRATCH + "/src")
    shutil.copytree(PRISTINE + "/src", SCRATCH + "/src")
    path = os.path.join(SCRATCH, rel)
    s = open(path).read()
    if s.count(old) != 1:
        return (mid, kind, desc, f"SETUP ERROR: pattern occurs {s.count(old)} times")
    s = s.replace(old, new)
    if mid == "M30":   # adapt the call as well
        s2 = s.replace("""            framebuf_and_context.1.current_frame_number().unwrap(),
            stream.stream_info(),""", """            stream.stream_info(),
            framebuf_and_context.1.current_frame_number().unwrap(),""")
        assert s2 != s
        s = s2
    open(path, "w").write(s)
    # restore generated files of the mutation tree from the workspace
    for f in os.listdir(W + "/lean/FlacVerif/Gen"):
        shutil.copy(W + "/lean/FlacVerif/Gen/" + f, MUT + "/lean/FlacVerif/Gen/" + f)
    env = dict(os.environ, FV_ROOT=MUT, FV_REPO=SCRATCH)
    subprocess.run([sys.executable, MUT + "/tools/translate.py"], env=env, capture_output=True, text=True)
    st = json.load(open(MUT + "/.cache/translate_status.json"))
    bad = {k: v for k, v in st.items() if v != "ok"}
    if bad:
        if "driver" in bad:
            return (mid, kind, desc, "fails closed: " + bad["driver"][:230] + ("" if len(bad) == 1 else f"   [also: {', '.join(k for k in bad if k != 'driver')}]"))
        return (mid, kind, desc, "OTHER PART fails closed: " + "; ".join(f"{k}: {v[:120]}" for k, v in bad.items()))
    changed = [f for f in os.listdir(W + "/lean/FlacVerif/Gen")
               if open(W + "/lean/FlacVerif/Gen/" + f).read() != open(MUT + "/lean/FlacVerif/Gen/" + f).read()]
    r = subprocess.run(["lake", "build", "FlacVerif.Theorems.C03Gen"], cwd=MUT + "/lean", env=dict(os.environ, LAKE_JOBS="4"),
                       capture_output=True, text=True)
    out = r.stdout + r.stderr
    if r.returncode == 0:
        return (mid, kind, desc, f"PASSES (generated files changed: {changed or 'none'})")
    errs = re.findall(r"error: (FlacVerif/[A-Za-z0-9_/]+\.lean):(\d+):\d+", out)
    names = []
    for f, ln in errs:
        lines = open(MUT + "/lean/" + f).read().split("\n")
        nm = f.split("/")[-1].replace(".lean", "") + ":" + theorem_at(lines, int(ln))
        if nm not in names:
            names.append(nm)
    return (mid, kind, desc, "breaks " + ", ".join(names[:4]) + f"   (changed: {changed})")


if __name__ == "__main__":
    only = set(sys.argv[1:])
    if not os.path.exists(MUT):
        os.makedirs(os.path.dirname(MUT), exist_ok=True)
        subprocess.run(["rsync", "-a", "--exclude", ".cache", W + "/", MUT + "/"], check=True)
    else:
        subprocess.run(["rsync", "-a", "--exclude", ".cache", "--exclude", ".lake", W + "/", MUT + "/"], check=True)
    res = []
    for m in MUTS:
        if only and m[0] not in only:
            continue
        r = run(*m)
        print(" | ".join(r), flush=True)
        res.append(r)
    json.dump(res, open("/tmp/build/driver/mut_results%s.json" % ("_" + "_".join(sorted(only)) if only else ""), "w"), indent=1)
