#!/bin/sh
# Builds the framework from files on disk only (offline): Lean project + driver, Rust harness.
set -e
cd "$(dirname "$0")/.."
export CARGO_NET_OFFLINE=true
if [ -f tools/translate.py ]; then python3 tools/translate.py; fi
(cd lean && lake build FlacVerif fvdriver fvconfig)
(cd harness && cargo build --offline --release && cargo build --offline)
echo "setup ok"
