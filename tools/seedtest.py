#!/usr/bin/env python3
"""Runs registered checks against a seeded change (DESIGN Appendix D / section 10.5).

  tools/seedtest.py <seeded dir containing patch.diff> [--checks C01,C05|all] [--tier quick]

Applies the patch to /repo (which must be clean), runs the checks, records for each whether it
reported a VIOLATION (and of which kind), undoes the patch (git checkout), and writes
<seeded dir>/result.json. Never commits anything to /repo.
"""
import json, os, re, subprocess, sys, time

ROOT = os.path.dirname(os.path.dirname(os.path.abspath(__file__)))
REPO = "/repo"


def sh(cmd, cwd=None, timeout=None):
    p = subprocess.run(cmd, cwd=cwd, stdout=subprocess.PIPE, stderr=subprocess.STDOUT, text=True, timeout=timeout)
    return p.returncode, p.stdout


def main():
    d = os.path.abspath(sys.argv[1])
    checks = "all"
    tier = "quick"
    if "--checks" in sys.argv:
        checks = sys.argv[sys.argv.index("--checks") + 1]
    if "--tier" in sys.argv:
        tier = sys.argv[sys.argv.index("--tier") + 1]
    ids = [json.loads(l)["id"] for l in open(os.path.join(ROOT, "properties.jsonl"))]
    todo = ids if checks == "all" else checks.split(",")
    rc, out = sh(["git", "status", "--porcelain"], cwd=REPO)
    if out.strip():
        print("refusing: /repo is not clean:\n" + out)
        sys.exit(2)
    patch = os.path.join(d, "patch.diff")
    rc, out = sh(["git", "apply", "--check", patch], cwd=REPO)
    if rc != 0:
        print("patch does not apply:", out)
        sys.exit(2)
    sh(["git", "apply", patch], cwd=REPO)
    results = {}
    # the evidence files describe runs on the UNCHANGED tree: keep them out of the seeded runs
    saved = {}
    for pid in todo:
        ep = os.path.join(ROOT, "evidence", pid + ".json")
        saved[pid] = open(ep).read() if os.path.exists(ep) else None
    try:
        for pid in todo:
            t0 = time.time()
            try:
                rc, out = sh([os.path.join(ROOT, "check"), pid, "--tier", tier], cwd=ROOT, timeout=2400)
            except subprocess.TimeoutExpired:
                rc, out = 124, "TIMEOUT"
            lines = [l for l in out.splitlines() if l.startswith(("VIOLATION", "OK ", "KNOWN-FINDING"))]
            viol = [l for l in lines if l.startswith("VIOLATION")]
            kind = "none"
            detail = ""
            if viol:
                kind = "no-failing-input-found" if all("no-failing-input-found" in v for v in viol) else "failing-input"
                m = re.search(r"replay=(\S+)", viol[0])
                if m and os.path.exists(m.group(1)):
                    rp = json.load(open(m.group(1)))
                    detail = (rp.get("what") or "; ".join(rp.get("broken_obligations", [])[:2]) or
                              "; ".join(x.get("driver", "") for x in rp.get("disagreements", [])[:2]))[:300]
            elif rc != 0:
                kind = "error"
                detail = out[-300:]
            results[pid] = {"fired": bool(viol), "kind": kind, "detail": detail, "wall_s": round(time.time() - t0, 1)}
            print(pid, results[pid]["kind"], results[pid]["detail"][:140], flush=True)
    finally:
        for pid, text in saved.items():
            ep = os.path.join(ROOT, "evidence", pid + ".json")
            if text is not None:
                open(ep, "w").write(text)
        sh(["git", "checkout", "--", "."], cwd=REPO)
        rc, out = sh(["git", "status", "--porcelain"], cwd=REPO)
        if out.strip():
            print("WARNING: /repo not clean after undo:\n" + out)
    # merge with earlier runs of other checks against the same change (each entry keeps its own time)
    now = time.strftime("%Y-%m-%dT%H:%M:%S")
    for r in results.values():
        r["at"] = now
    rp = os.path.join(d, "result.json")
    old = {}
    if os.path.exists(rp):
        try:
            old = json.load(open(rp)).get("checks", {})
        except Exception:
            old = {}
    old.update(results)
    json.dump({"tier": tier, "checks": old, "at": now}, open(rp, "w"), indent=1)
    fired = [p for p, r in results.items() if r["fired"]]
    print("fired:", ",".join(fired) or "none")


if __name__ == "__main__":
    main()
