"""Part `par` of tools/translate.py: the THREAD PROTOCOL of src/par.rs -> lean/FlacVerif/Gen/Par.lean.

What is extracted.  For each of the three thread roles of the multi-thread encoder its program, as DATA in the statement
language of lean/FlacVerif/Model/ParProg.lean (`Stmt` / `Act`):
  mainSetup    `par::encode_with_fixed_block_size` up to the statement that calls `feed_fixed_block_size`
               (`ParFrameBuf::new`, `ParSink::new`, the spawn loop, `ParContext::new` inlined): channel creation with
               capacities, initial refill tokens, buffer creation, thread spawns
  mainProg     the rest of `par::encode_with_fixed_block_size` (`feed_fixed_block_size`, `ParContext::request_stop`,
               `ParContext::finalize`, the join loop, the result assembly), helper methods INLINED from their own bodies
  workerProg   the closure given to `thread::spawn` in the spawn loop
  hasherProg   the closure given to `thread::spawn` in `ParContext::new`
  fillInterleaved / fillLeBytes   the two methods of `impl Fill for ParContext` (called from `src.read_samples`)
plus the generated constants `refillCap`, `encodeCap`, `md5Cap`, `nbuf`, `initTokens`, `spawnedWorkers` (functions of the
worker count; `FRAMEBUF_MULTIPLICITY` is taken from Gen/Constants.lean).

The lexer (`hdr_lex`), the item index (`HdrItems`, extended here by generic `impl<T>` heads and `struct` items) and the
failure convention (`fail` -> `Unreadable`) of tools/translate.py are reused; statements and expressions of the bodies
are parsed by the small parser below (labels, `while let`, closures, `match`, `if let`, struct literals, macros,
`#[cfg(..)]` statements), every node keeping its token span.  A statement is then CLASSIFIED: either it matches one of
the protocol shapes (channel operation, mutex lock, scope end of a guard, `sched_point` hook, call of an inlined helper,
loop / branch / return ...), or its exact token text is in the allow-list PAR_NOTES (not protocol relevant, emitted as
`Act.note "<text>"`, never dropped), or the part FAILS CLOSED.

`determine_worker_count` is translated as a FUNCTION (`Gen.Par.determineWorkerCount`): the result of
`std::thread::available_parallelism()` and the value of the environment variable named by
`envvar_key::DEFAULT_PARALLELISM` are parameters, `config.workers` is the field of Gen/Config.lean's `Encoder`; the method
chains are read through the table WC_STD below.

Trusted base of this part (everything that is not read from the source):
  WC_STD            readings of the std calls of `determine_worker_count` (`Option::and_then/filter/unwrap_or/map_or`,
                    `Result::ok`, `str::parse::<usize>` = ParProg.parseUsize: optional `+`, decimal digits only, no
                    whitespace, overflow = error; `NonZeroUsize::get` = the value; `available_parallelism().map_err(..)?`
                    = a parameter whose `Err` returns `Err`; `std::env::var(KEY).ok()` = a parameter: `None` when the
                    variable is unset or not unicode)
  PAR_CHAN_FIELDS   struct field -> channel; `.0` is the Sender, `.1` the Receiver (checked against the struct definitions)
  PAR_STRUCT_FP     fingerprints of the four struct definitions the readings below rely on
  PAR_EXTERNAL      readings of calls that leave par.rs (`src.read_samples`, `coding::encode_fixed_size_frame`,
                    `thread::spawn`, `JoinHandle::join`, `destruct_arc(..).finalize(..)`, `Mutex::lock`, `drop`, ...)
  PAR_FN_FP         fingerprints of `destruct_arc` (both versions) and `ParSink::finalize` (read as "in key order")
  PAR_NOTES         the allow-list of bookkeeping statements (exact token text -> why it is not protocol relevant)
  the guard discipline: a `let g = <lock>` guard is released at the end of its block, at `drop(g)`, and at every
  `break` / `return` that leaves the block (the generator emits `Act.unlock` there)
The meaning of `Stmt` / `Act` is lean/FlacVerif/Model/ParProg.lean (hand-written, also trusted).
"""
import hashlib
import os
import re

T = None

PAR_CHAN_FIELDS = {"refill_queue": "refill", "encode_queue": "encode", "process_queue": "md5"}

# struct definitions the readings rely on: name -> sha256 prefix of the token text of the item
PAR_STRUCT_FP = {
    "ParSink": "fe45abadcd0a63c7",
    "NumberedFrameBuf": "1e23254c5bf52c5b",
    "ParFrameBuf": "6fdf619360c41d79",
    "ParContext": "157967e564111d14",
}

# functions read as a whole: name -> (fingerprints of the accepted bodies, reading)
PAR_FN_FP = {
    "destruct_arc": (["9054b03b76d00885", "f5fb66dcc6371ad7"], "unwraps the only remaining Arc reference (panics otherwise)"),
    "ParSink::finalize": (["f83f3a724da21dcc"], "calls `f` on the values in the order of the keys (BTreeMap::into_values)"),
    "ParSink::new": (["1a22ac06a0ece798"], "an empty map behind a new mutex"),
}

PANIC_MSGS = {"recv": "panic_msg :: MPMC_RECV_FAILED", "send": "panic_msg :: MPMC_SEND_FAILED",
              "lock": "panic_msg :: MUTEX_LOCK_FAILED", "join": "panic_msg :: THREAD_JOIN_FAILED"}

# allow-list: exact token text of statements that are not protocol relevant -> reason
PAR_NOTES = {
    # feed_fixed_block_size
    "let mut src = src ;": "rebinding",
    "let mut worker_starvation_count = 0usize ;": "statistics",
    "let mut framebuf_and_ctx = ( & mut numbuf . framebuf , & mut context ) ;": "the pair `Fill` target handed to read_samples",
    "worker_starvation_count += 1 ;": "statistics",
    # ParContext::request_stop / finalize / new
    "let bytes_per_sample = inner . bytes_per_sample ( ) ;": "width of the samples",
    "let inner = Arc :: new ( Mutex :: new ( inner ) ) ;": "the MD5 context behind its mutex",
    "let receiver = process_queue . 1 . clone ( ) ;": "receiver end for the hasher (alias recorded)",
    "let inner = Arc :: clone ( & inner ) ;": "Arc clone for the hasher",
    # Fill for ParContext
    "let bps = self . bytes_per_sample ;": "width of the samples",
    "self . bytebuf . resize ( interleaved . len ( ) * bps , 0u8 ) ;": "size of the byte buffer (its content is set by the next statement)",
    # par::encode_with_fixed_block_size
    "let config : Arc < Verified < config :: Encoder >> = Arc :: new ( config . clone ( ) ) ;": "configuration shared with the workers",
    "let mut stream = Stream :: new ( src . sample_rate ( ) , src . channels ( ) , src . bits_per_sample ( ) ) ? ;":
        "may return before any thread or channel exists",
    "stream . stream_info_mut ( ) . set_block_sizes ( block_size , block_size ) ? ;":
        "STREAMINFO block sizes BEFORE the threads exist (may return early); the call after the joins is `Act.setBlockSizes`",
    "let worker_count = determine_worker_count ( & config ) ? ;": "DEFINES the worker count `Count.workers` (hand model: determineWorkerCount)",
    "let parbuf = Arc :: clone ( & parbuf ) ;": "Arc clone for a worker",
    "let parsink = Arc :: clone ( & parsink ) ;": "Arc clone for a worker",
    "let parerrors = Arc :: clone ( & parerrors ) ;": "Arc clone for a worker",
    "let stream_info = stream . stream_info ( ) . clone ( ) ;": "STREAMINFO copy for a worker",
    "let config = Arc :: clone ( & config ) ;": "Arc clone for a worker",
    "let src_len_hint = src . len_hint ( ) ;": "length hint of the source",
    "let mut first_encode_error = None ;": "initial value of the first error (set by the drain)",
    "frame . precompute_bitstream ( ) ;": "serialises the frame inside the worker (C08_precompute)",
    # ParFrameBuf::new
    "let mut buffers = Vec :: with_capacity ( replicas ) ;": "empty buffer vector",
    "let buf = Mutex :: new ( NumberedFrameBuf { framebuf : FrameBuf :: with_size ( channels , block_size ) ? , frame_number : None , } ) ;":
        "a new buffer WITHOUT frame number (`Par.emptyBuf`), pushed by the next statement",
}


def fp(toks):
    return hashlib.sha256(" ".join(toks).encode()).hexdigest()[:16]


def fail(msg):
    T.fail("par.rs: " + msg)


# =====================================================================================================================
# item index

def build_items(toks):
    class ParItems(T.HdrItems):
        def scan(self):
            t = self.toks
            self.structs = {}
            self.fn_versions = {}
            i, attrs = 0, []
            while i < len(t):
                x = t[i]
                if x == "#" and t[i + 1:i + 2] == ["["]:
                    j = self.group_end(i + 1)
                    attrs.append("".join(t[i:j]))
                    i = j
                    continue
                if x == "mod" and t[i + 2] == "{":       # `mod tests { .. }`
                    i = self.group_end(i + 2)
                    attrs = []
                    continue
                if x == "struct":
                    name = t[i + 1]
                    j = i + 2
                    while t[j] not in ("{", ";", "("):
                        j += 1
                    end = self.group_end(j) if t[j] != ";" else j + 1
                    self.structs[name] = t[i:end]
                    i, attrs = end, []
                    continue
                if x == "impl":
                    j = i + 1
                    while t[j] != "{":
                        if t[j] == ";":
                            fail("impl header")
                        j = self.group_end(j) if t[j] in ("(", "[") else j + 1
                    head = [z for z in strip_generics(t[i + 1:j])]
                    end = self.group_end(j)
                    if len(head) == 1:
                        key = (None, head[0])
                    elif len(head) == 3 and head[1] == "for":
                        key = (head[0], head[2])
                    else:
                        fail(f"impl header {' '.join(t[i + 1:j])!r}")
                    self.impls.setdefault(key, {})
                    self.scan_fns(j + 1, end - 1, self.impls[key], f"impl {' '.join(head)}")
                    i, attrs = end, []
                    continue
                if x == "fn":
                    rec, i = self.parse_fn(i, attrs, "")
                    self.fn_versions.setdefault(rec["name"], []).append(rec)
                    self.fns[rec["name"]] = rec
                    attrs = []
                    continue
                if x in ("{", "(", "["):
                    i = self.group_end(i)
                    if x == "{":
                        attrs = []
                    continue
                if x == ";":
                    attrs = []
                i += 1

    return ParItems("par.rs", toks)


def strip_generics(ts):
    out, d = [], 0
    for z in ts:
        if z == "<":
            d += 1
        elif z == ">":
            d -= 1
        elif z == ">>":
            d -= 2
        elif d == 0:
            out.append(z)
    return out


# =====================================================================================================================
# parser: nodes are dicts with `k` (kind), `lo`, `hi` (token span) and kind-specific fields

BINOPS = [["||"], ["&&"], ["==", "!=", "<", ">", "<=", ">="], [".."], ["+", "-"], ["*", "/", "%"]]
ASSIGN = ("=", "+=", "-=", "*=")


class P:
    def __init__(self, toks, lo, hi):
        self.t, self.p, self.hi = toks, lo, hi

    def err(self, msg):
        ctx = " ".join(self.t[max(0, self.p - 6):self.p + 6])
        fail(f"parser: {msg} near `{ctx}`")

    def peek(self, k=0):
        return self.t[self.p + k] if self.p + k < self.hi else None

    def eat(self, x):
        if self.peek() != x:
            self.err(f"expected {x!r}, found {self.peek()!r}")
        self.p += 1

    def txt(self, n):
        return " ".join(self.t[n["lo"]:n["hi"]])

    def node(self, k, lo, **kw):
        d = dict(k=k, lo=lo, hi=self.p)
        d.update(kw)
        return d

    def is_ident(self, x):
        return x is not None and re.fullmatch(r"[A-Za-z_][A-Za-z0-9_]*", x) is not None and x not in (
            "if", "match", "loop", "while", "for", "let", "return", "break", "move", "in", "else", "as", "mut")

    def group_end(self, i):
        pairs = {"(": ")", "[": "]", "{": "}"}
        st = []
        while i < self.hi:
            x = self.t[i]
            if x in pairs:
                st.append(pairs[x])
            elif x in pairs.values():
                if not st or st.pop() != x:
                    self.err("unbalanced bracket")
                if not st:
                    return i + 1
            i += 1
        self.err("unbalanced brackets")

    # ---- statements
    def block(self):
        lo = self.p
        self.eat("{")
        stmts = []
        while True:
            cfg = None
            while self.peek() == "#" and self.peek(1) == "[":
                j = self.group_end(self.p + 1)
                a = self.t[self.p:j]
                if a[2] == "cfg":
                    if cfg is not None:
                        self.err("two cfg attributes")
                    cfg = "".join(a[4:-2])
                elif "".join(a) not in ("#[inline]",):
                    self.err(f"attribute {''.join(a)}")
                self.p = j
            x = self.peek()
            if x == "}":
                if cfg is not None:
                    self.err("cfg attribute before `}`")
                self.p += 1
                break
            if x == ";":
                self.p += 1
                continue
            slo = self.p
            if x == "let":
                self.p += 1
                plo = self.p
                d = 0
                while not (d == 0 and self.peek() in ("=", ":", ";")):
                    if self.peek() in ("(", "["):
                        d += 1
                    elif self.peek() in (")", "]"):
                        d -= 1
                    elif self.peek() is None:
                        self.err("let pattern")
                    self.p += 1
                pat = self.t[plo:self.p]
                ty = None
                if self.peek() == ":":
                    self.p += 1
                    tlo, d = self.p, 0
                    while not (d == 0 and self.peek() in ("=", ";")):
                        if self.peek() in ("<", "(", "["):
                            d += 1
                        elif self.peek() in (">", ")", "]"):
                            d -= 1
                        elif self.peek() == ">>":
                            d -= 2
                        elif self.peek() is None:
                            self.err("let type")
                        self.p += 1
                    ty = self.t[tlo:self.p]
                init = None
                if self.peek() == "=":
                    self.p += 1
                    init = self.expr()
                self.eat(";")
                stmts.append(self.node("let", slo, pat=pat, ty=ty, init=init, cfg=cfg))
                continue
            e = self.expr()
            if self.peek() in ASSIGN:
                op = self.peek()
                self.p += 1
                rhs = self.expr()
                self.eat(";")
                stmts.append(self.node("assign", slo, op=op, lhs=e, rhs=rhs, cfg=cfg))
                continue
            semi = False
            if self.peek() == ";":
                self.p += 1
                semi = True
            elif self.peek() != "}" and e["k"] not in ("if", "iflet", "match", "loop", "whilelet", "for", "block"):
                self.err(f"expected `;` or `}}`, found {self.peek()!r}")
            stmts.append(self.node("expr", slo, e=e, semi=semi, cfg=cfg))
        return self.node("block", lo, stmts=stmts)

    # ---- expressions
    def expr(self, nostruct=False, level=0):
        if level == len(BINOPS):
            return self.unary(nostruct)
        lo = self.p
        if BINOPS[level] == [".."] and self.peek() == "..":
            self.err("open range")
        a = self.expr(nostruct, level + 1)
        while self.peek() in BINOPS[level]:
            op = self.peek()
            self.p += 1
            b = self.expr(nostruct, level + 1)
            a = self.node("bin", lo, op=op, a=a, b=b)
        return a

    def unary(self, nostruct):
        lo = self.p
        x = self.peek()
        if x in ("&", "&&"):
            self.p += 1
            if self.peek() == "mut":
                self.p += 1
            e = self.unary(nostruct)
            return self.node("ref", lo, e=e)
        if x in ("*", "!", "-"):
            self.p += 1
            e = self.unary(nostruct)
            return self.node("unary", lo, op=x, e=e)
        return self.postfix(nostruct)

    def args(self):
        self.eat("(")
        out = []
        while self.peek() != ")":
            out.append(self.expr())
            if self.peek() == ",":
                self.p += 1
            elif self.peek() != ")":
                self.err("argument list")
        self.p += 1
        return out

    def postfix(self, nostruct):
        lo = self.p
        e = self.primary(nostruct)
        while True:
            x = self.peek()
            if x == "(":
                a = self.args()
                e = self.node("call", lo, f=e, args=a)
            elif x == "." and self.is_ident(self.peek(1)):
                name = self.peek(1)
                self.p += 2
                if self.peek() == "::":
                    self.p += 1
                    self.eat("<")
                    d = 1
                    while d:
                        d += {"<": 1, ">": -1, ">>": -2}.get(self.peek(), 0)
                        self.p += 1
                if self.peek() == "(":
                    a = self.args()
                    e = self.node("mcall", lo, recv=e, name=name, args=a)
                else:
                    e = self.node("field", lo, recv=e, name=name)
            elif x == "." and self.peek(1) is not None and re.fullmatch(r"\d+", self.peek(1)):
                self.p += 2
                e = self.node("field", lo, recv=e, name=self.t[self.p - 1])
            elif x == "[":
                self.p += 1
                i = self.expr()
                self.eat("]")
                e = self.node("index", lo, recv=e, idx=i)
            elif x == "?":
                self.p += 1
                e = self.node("try", lo, e=e)
            else:
                return e

    def label(self):
        if self.peek() is not None and self.peek().startswith("'") and self.peek(1) == ":":
            l = self.peek()
            self.p += 2
            return l
        return None

    def primary(self, nostruct):
        lo = self.p
        x = self.peek()
        if x is None:
            self.err("unexpected end")
        lab = self.label()
        x = self.peek()
        if lab is not None and x not in ("loop", "while", "for"):
            self.err("label on a non-loop")
        if x == "loop":
            self.p += 1
            b = self.block()
            return self.node("loop", lo, label=lab, body=b)
        if x == "while":
            self.p += 1
            if self.peek() != "let":
                self.err("`while` without `let`")
            self.p += 1
            plo = self.p
            while self.peek() != "=":
                if self.peek() is None:
                    self.err("while-let pattern")
                self.p += 1
            pat = self.t[plo:self.p]
            self.p += 1
            e = self.expr(nostruct=True)
            b = self.block()
            return self.node("whilelet", lo, label=lab, pat=pat, e=e, body=b)
        if x == "for":
            self.p += 1
            plo = self.p
            while self.peek() != "in":
                if self.peek() is None:
                    self.err("for pattern")
                self.p += 1
            pat = self.t[plo:self.p]
            self.p += 1
            it = self.expr(nostruct=True)
            b = self.block()
            return self.node("for", lo, label=lab, pat=pat, it=it, body=b)
        if x == "if":
            self.p += 1
            if self.peek() == "let":
                self.p += 1
                plo = self.p
                while self.peek() != "=":
                    if self.peek() is None:
                        self.err("if-let pattern")
                    self.p += 1
                pat = self.t[plo:self.p]
                self.p += 1
                e = self.expr(nostruct=True)
                th = self.block()
                el = None
                if self.peek() == "else":
                    self.p += 1
                    el = self.block()
                return self.node("iflet", lo, pat=pat, e=e, th=th, el=el)
            c = self.expr(nostruct=True)
            th = self.block()
            el = None
            if self.peek() == "else":
                self.p += 1
                if self.peek() == "if":
                    self.err("else-if chain")
                el = self.block()
            return self.node("if", lo, c=c, th=th, el=el)
        if x == "match":
            self.p += 1
            s = self.expr(nostruct=True)
            self.eat("{")
            arms = []
            while self.peek() != "}":
                plo, d = self.p, 0
                while not (d == 0 and self.peek() == "=>"):
                    if self.peek() in ("(", "[", "{"):
                        d += 1
                    elif self.peek() in (")", "]", "}"):
                        d -= 1
                    elif self.peek() is None:
                        self.err("match arm pattern")
                    self.p += 1
                pat = self.t[plo:self.p]
                self.p += 1
                body = self.expr()
                if self.peek() == ",":
                    self.p += 1
                elif self.peek() != "}" and body["k"] != "block":
                    self.err("match arm")
                arms.append((pat, body))
            self.p += 1
            return self.node("match", lo, s=s, arms=arms)
        if x == "{":
            b = self.block()
            return b
        if x == "return":
            self.p += 1
            e = None
            if self.peek() not in (";", "}", ","):
                e = self.expr()
            return self.node("return", lo, e=e)
        if x == "break":
            self.p += 1
            l = None
            if self.peek() is not None and self.peek().startswith("'") and len(self.peek()) > 1 and not self.peek().endswith("'"):
                l = self.peek()
                self.p += 1
            if self.peek() not in (";", "}", ","):
                self.err("break with a value")
            return self.node("break", lo, label=l)
        if x in ("move", "|", "||"):
            if x == "move":
                self.p += 1
            params = []
            if self.peek() == "||":
                self.p += 1
            else:
                self.eat("|")
                plo, d = self.p, 0
                while not (d == 0 and self.peek() == "|"):
                    if self.peek() in ("(", "[", "<"):
                        d += 1
                    elif self.peek() in (")", "]", ">"):
                        d -= 1
                    elif self.peek() is None:
                        self.err("closure parameters")
                    self.p += 1
                params = self.t[plo:self.p]
                self.p += 1
            body = self.expr()
            return self.node("closure", lo, params=params, body=body)
        if x == "(":
            self.p += 1
            items, trailing = [], False
            while self.peek() != ")":
                items.append(self.expr())
                trailing = False
                if self.peek() == ",":
                    self.p += 1
                    trailing = True
                elif self.peek() != ")":
                    self.err("tuple")
            self.p += 1
            if len(items) == 1 and not trailing:
                return self.node("paren", lo, e=items[0])
            return self.node("tuple", lo, items=items)
        if re.fullmatch(r"\d[0-9A-Za-z_]*", x) or x.startswith('"'):
            self.p += 1
            return self.node("lit", lo)
        if self.is_ident(x) or x in ("self", "Self", "super", "crate"):
            self.p += 1
            while self.peek() == "::":
                self.p += 1
                if self.peek() == "<":
                    d = 0
                    while True:
                        d += {"<": 1, ">": -1, ">>": -2}.get(self.peek(), 0)
                        self.p += 1
                        if d <= 0:
                            break
                    continue
                if not self.is_ident(self.peek()):
                    self.err("path")
                self.p += 1
            if self.peek() == "!":
                self.p += 1
                if self.peek() not in ("(", "[", "{"):
                    self.err("macro call")
                self.p = self.group_end(self.p)
                return self.node("macro", lo)
            if self.peek() == "{" and not nostruct and self.t[self.p - 1][0].isupper():
                self.p += 1
                fields = []
                while self.peek() != "}":
                    fn = self.peek()
                    if not self.is_ident(fn):
                        self.err("struct literal field")
                    self.p += 1
                    if self.peek() == ":":
                        self.p += 1
                        fields.append((fn, self.expr()))
                    else:
                        fields.append((fn, None))
                    if self.peek() == ",":
                        self.p += 1
                    elif self.peek() != "}":
                        self.err("struct literal")
                self.p += 1
                return self.node("struct", lo, fields=fields)
            return self.node("path", lo)
        self.err(f"expression starting with {x!r}")


# =====================================================================================================================
# classification / translation into the IR (python tuples mirroring ParProg.Stmt)

RECEIVER_TYPES = {"parbuf": "ParFrameBuf", "parsink": "ParSink", "parerrors": "ParSink", "context": "ParContext"}
SINK_ROLE = {"parsink": "sink", "parerrors": "errs"}
MULT_PATH = "constant :: par :: FRAMEBUF_MULTIPLICITY"
MULT_LEAN = "FlacVerif.Gen.Const.par_FRAMEBUF_MULTIPLICITY"

SCHED_SITES = {"f_read_err", "f_eof", "f_filled", "w_lock", "w_push", "w_err", "m_joined_hasher", "m_joined_worker"}
SCHED_ARGS = {"None": "none", "Some ( bufid )": "(some .bufid)", "Some ( frame_count )": "(some .frameCount)",
              "Some ( frame_number )": "(some .frameNumber)"}


class Ctx:
    def __init__(self, fn, role, parent=None):
        self.fn, self.role = fn, role
        self.counts = {}
        self.alias = {}
        self.names = {}
        self.selftype = None
        self.selfrole = None
        self.frames = []        # guard frames: lists of [name, mtx]
        self.loops = []         # (rust label, id, frame depth)
        self.flags = {}
        self.loopvar = None
        self.read_binder = None
        self.for_handles = False
        self.outer = []         # mutexes held by the callers of an inlined helper

    def held(self):
        return self.outer + [g[1] for fr in self.frames for g in fr]

    def resolve(self, text):
        return self.names.get(text, text)


class Tx:
    def __init__(self, items):
        self.items = items
        self.t = items.toks
        self.next_label = 0
        self.labels = {}
        self.worker_body = None
        self.hasher_body = None
        self.notes_used = []
        self.inlined = []

    def txt(self, n):
        return " ".join(self.t[n["lo"]:n["hi"]])

    def label(self, name):
        i = self.next_label
        self.next_label += 1
        self.labels[i] = name
        return i

    # ---- helpers
    def count(self, n, ctx):
        k = n["k"]
        tx = self.txt(n)
        if k == "paren":
            return self.count(n["e"], ctx)
        if k == "path":
            if tx in ctx.counts:
                return ctx.counts[tx]
            if tx == MULT_PATH:
                return f"(.lit {MULT_LEAN})"
            return None
        if k == "lit":
            m = re.fullmatch(r"(\d+)(usize)?", tx)
            return f"(.lit {int(m.group(1))})" if m else None
        if k == "bin" and n["op"] in ("+", "-", "*"):
            a, b = self.count(n["a"], ctx), self.count(n["b"], ctx)
            if a is None or b is None:
                return None
            return f"(.{ {'+': 'add', '-': 'sub', '*': 'mul'}[n['op']] } {a} {b})"
        return None

    def chan_end(self, n, ctx):
        if n["k"] == "field" and n["name"] in ("0", "1") and n["recv"]["k"] == "field" and n["recv"]["name"] in PAR_CHAN_FIELDS \
                and self.txt(n["recv"]["recv"]) == "self":
            return PAR_CHAN_FIELDS[n["recv"]["name"]], int(n["name"])
        if n["k"] == "path" and self.txt(n) in ctx.alias:
            c, e = ctx.alias[self.txt(n)]
            if e in (0, 1):
                return c, e
        return None

    def expect_wrapped(self, n, what):
        """`X.expect(panic_msg::..)` -> X"""
        if n["k"] == "mcall" and n["name"] == "expect" and len(n["args"]) == 1 and self.txt(n["args"][0]) == PANIC_MSGS[what]:
            return n["recv"]
        return None

    def payload(self, a, chan, ctx):
        tx = self.txt(a)
        r = ctx.resolve(tx)
        if chan == "refill" and r == "bufid":
            return ".bufid"
        if chan == "refill" and ctx.loopvar is not None and tx == ctx.loopvar:
            return ".loopVar"
        if chan == "encode" and a["k"] == "call" and self.txt(a["f"]) == "Some" and len(a["args"]) == 1 \
                and ctx.resolve(self.txt(a["args"][0])) == "bufid":
            return ".someBufid"
        if chan == "encode" and tx == "None":
            return ".noneTok"
        if chan == "md5" and tx == "self . bytebuf . clone ( )":
            return ".bytebuf"
        if chan == "md5" and tx == "vec ! [ ]":
            return ".emptyVec"
        fail(f"{ctx.fn}: cannot classify what is sent on `{chan}`: `{tx}`")

    def mutex_of(self, n, ctx):
        """n = the expression `.lock()` is called on"""
        tx = self.txt(n)
        if n["k"] == "index" and self.txt(n["recv"]) in ("self . buffers", "parbuf . buffers"):
            if ctx.resolve(self.txt(n["idx"])) != "bufid":
                fail(f"{ctx.fn}: buffer mutex indexed by `{self.txt(n['idx'])}` (expected the local `bufid`)")
            return "buf"
        if tx == "self . data" and ctx.selfrole in ("sink", "errs"):
            return ctx.selfrole
        if tx == "inner" and ctx.role == "hasher":
            return "ctx"
        return None

    def unlocks(self, ctx, depth):
        out = []
        for fr in reversed(ctx.frames[depth:]):
            for name, m in reversed(fr):
                out.append(("act", f".unlock .{m}"))
        return out

    def branch(self, e, ctx, block=False):
        """a conditional branch: guards dropped inside it stay dropped only if the branch leaves (return / break)"""
        saved = [[list(g) for g in fr] for fr in ctx.frames]
        out, v = (self.tx_block(e, ctx) if block else self.tx_expr(e, ctx, None))
        now = [[list(g) for g in fr] for fr in ctx.frames]
        if now != saved:
            if not (out and out[-1][0] in ("ret", "brk")):
                fail(f"{ctx.fn}: a guard is dropped on one path only, and the path continues")
            ctx.frames[:] = saved
        return out, v

    def live_guard(self, ctx, name):
        for fr in ctx.frames:
            for g in fr:
                if g[0] == name:
                    return g
        return None

    def note(self, text, ctx):
        if text not in PAR_NOTES:
            fail(f"{ctx.fn}: statement not classified and not in the allow-list: `{text}`")
        self.notes_used.append(text)
        esc = text.replace("\\", "\\\\").replace('"', '\\"')
        return ("act", f'.note "{esc}"')

    # ---- blocks and statements
    def tx_block(self, b, ctx, binder=None, frame=True):
        if frame:
            ctx.frames.append([])
        out, value = [], None
        stmts = b["stmts"]
        for i, st in enumerate(stmts):
            last = i == len(stmts) - 1
            s, v = self.tx_stmt(st, ctx, binder if last else None, last)
            out += s
            if last:
                value = v
        if frame:
            if not (out and out[-1][0] in ("ret", "brk")):
                out += self.unlocks(ctx, len(ctx.frames) - 1)
            ctx.frames.pop()
        return out, value

    def tx_stmt(self, st, ctx, binder, last):
        k = st["k"]
        text = self.txt(st)
        if st["cfg"] is not None:
            if st["cfg"] != "flacenc_verif":
                fail(f"{ctx.fn}: statement under cfg({st['cfg']})")
            if k != "expr" or not st["semi"]:
                fail(f"{ctx.fn}: cfg(flacenc_verif) on something that is not a hook statement")
            return [self.sched(st["e"], ctx)], None
        if k == "let":
            pat = " ".join(st["pat"])
            name = pat[4:] if pat.startswith("mut ") else pat
            if text in PAR_NOTES:
                self.note_effects(text, ctx)
                return [self.note(text, ctx)], None
            m = re.fullmatch(r"let mut frame_count = (\d+)usize ;", text)
            if m and ctx.fn == "feed_fixed_block_size":
                return [("act", f".initFrameCount {int(m.group(1))}")], None
            if st["init"] is None:
                fail(f"{ctx.fn}: `let` without initialiser: `{text}`")
            s, v = self.tx_expr(st["init"], ctx, name)
            if v is not None and v[0] == "guard":
                if not re.fullmatch(r"[a-z_][a-z0-9_]*", name):
                    fail(f"{ctx.fn}: guard bound by pattern `{pat}`")
                ctx.frames[-1].append([name, v[1]])
            elif v is not None and v[0] == "needs":
                if name != v[1]:
                    fail(f"{ctx.fn}: `{text}`: the result must be bound to `{v[1]}`, found `{name}`")
            elif v is not None and v[0] == "cond":
                ctx.flags[name] = v[1]
            elif v is not None and v[0] == "count":
                ctx.counts[name] = v[1]
            elif v is None:
                fail(f"{ctx.fn}: `{text}`: initialiser has no classified value")
            return s, None
        if k == "assign":
            if text == "numbuf . frame_number = Some ( frame_count ) ;":
                g = self.live_guard(ctx, "numbuf")
                if g is None or g[1] != "buf":
                    fail(f"{ctx.fn}: frame number stored without the buffer guard `numbuf`")
                return [("act", ".storeFrameNumber")], None
            if text == "frame_count += 1 ;":
                return [("act", ".incFrameCount")], None
            return [self.note(text, ctx)], None
        # expression statement
        e = st["e"]
        if not st["semi"] and last:
            return self.tx_expr(e, ctx, binder, tail=True)
        if getattr(ctx, "after_feed", False) and ctx.fn == "encode_with_fixed_block_size":
            if text == "stream . stream_info_mut ( ) . set_block_sizes ( block_size , block_size ) ? ;":
                return [("act", ".setBlockSizes")], None
            if text == "stream . stream_info_mut ( ) . set_total_samples ( src_len_hint . unwrap_or_else ( || context . total_samples ( ) ) ) ;":
                return [("act", ".setTotalSamples")], None
        if text in PAR_NOTES:
            return [self.note(text, ctx)], None
        s, v = self.tx_expr(e, ctx, None)
        if v is not None and v[0] in ("guard", "needs"):
            fail(f"{ctx.fn}: `{text}`: the result ({v[0]}) is dropped")
        return s, None

    def note_effects(self, text, ctx):
        if text == "let receiver = process_queue . 1 . clone ( ) ;":
            if ctx.alias.get("process_queue") != ("md5", "pair"):
                fail(f"{ctx.fn}: `receiver` cloned from something that is not the md5 channel")
            ctx.alias["receiver"] = ("md5", 1)
        if text.startswith("let worker_count ="):
            ctx.counts["worker_count"] = ".workers"

    def sched(self, e, ctx):
        if e["k"] != "call" or self.txt(e["f"]) != "super :: verif_hooks :: sched_point" or len(e["args"]) != 4:
            fail(f"{ctx.fn}: cfg(flacenc_verif) statement is not a sched_point call: `{self.txt(e)}`")
        site, buf, frame, qlen = e["args"]
        if self.txt(qlen) != "None":
            fail(f"{ctx.fn}: sched_point with a queue length")
        args = []
        for a in (buf, frame):
            tx = self.txt(a)
            if a["k"] == "call" and len(a["args"]) == 1:
                tx = f"Some ( {ctx.resolve(self.txt(a['args'][0]))} )"
            if tx not in SCHED_ARGS:
                fail(f"{ctx.fn}: sched_point argument `{self.txt(a)}`")
            args.append(SCHED_ARGS[tx])
        if site["k"] == "lit":
            s = self.txt(site).strip('"')
            if s not in SCHED_SITES:
                fail(f"{ctx.fn}: unknown sched_point site {s!r}")
            return ("act", f'.sched "{s}" {args[0]} {args[1]}')
        if site["k"] == "if" and self.txt(site["c"]) == "encode_result . is_ok ( )" and site["el"] is not None:
            a, b = self.txt(site["th"]), self.txt(site["el"])
            ma, mb = re.fullmatch(r'\{ "(\w+)" \}', a), re.fullmatch(r'\{ "(\w+)" \}', b)
            if ma and mb and ma.group(1) in SCHED_SITES and mb.group(1) in SCHED_SITES:
                return ("act", f'.schedIf .encOk "{ma.group(1)}" "{mb.group(1)}" {args[0]} {args[1]}')
        fail(f"{ctx.fn}: sched_point site `{self.txt(site)}`")

    # ---- expressions
    def tx_expr(self, e, ctx, binder, tail=False):
        k = e["k"]
        tx = self.txt(e)
        if k == "paren":
            return self.tx_expr(e["e"], ctx, binder, tail)
        if k == "ref":
            return self.tx_expr(e["e"], ctx, binder, tail)
        if k == "block":
            return self.tx_block(e, ctx, binder)
        if k == "loop":
            l = self.label(e["label"] or "loop")
            ctx.loops.append((e["label"], l, len(ctx.frames)))
            body, _ = self.tx_block(e["body"], ctx)
            ctx.loops.pop()
            return [("loop", l, body)], None
        if k == "whilelet":
            if " ".join(e["pat"]) != "Some ( bufid )":
                fail(f"{ctx.fn}: while-let pattern `{' '.join(e['pat'])}`")
            head, v = self.tx_expr(e["e"], ctx, "<while-let>")
            while len(head) == 1 and head[0][0] == "call":
                head = head[0][2]
            if head != [("act", ".recv .encode")] or v != ("needs", "<while-let>"):
                fail(f"{ctx.fn}: head of while-let is not a receive on the encode channel: `{self.txt(e['e'])}`")
            l = self.label(e["label"] or "while")
            ctx.loops.append((e["label"], l, len(ctx.frames)))
            body, _ = self.tx_block(e["body"], ctx)
            ctx.loops.pop()
            return [("whileRecv", "encode", l, body)], None
        if k == "for":
            pat = " ".join(e["pat"])
            it = e["it"]
            c = None
            handles = False
            if it["k"] == "bin" and it["op"] == ".." and self.txt(it["a"]) == "0" and re.fullmatch(r"_[a-z]+", pat):
                c = self.count(it["b"], ctx)
            elif it["k"] == "path" and self.txt(it) == "join_handles" and pat == "h" and "join_handles" in ctx.counts:
                c = ctx.counts["join_handles"]
                handles = True
            if c is None:
                fail(f"{ctx.fn}: for loop `for {pat} in {self.txt(it)}`")
            l = self.label(e["label"] or "for")
            ctx.loops.append((e["label"], l, len(ctx.frames)))
            save, ctx.for_handles = ctx.for_handles, handles
            body, _ = self.tx_block(e["body"], ctx)
            ctx.for_handles = save
            ctx.loops.pop()
            return [("forN", l, c, body)], None
        if k == "if":
            pre, cond = [], None
            ctext = self.txt(e["c"])
            if ctext == "read_samples == 0" and ctx.read_binder == "read_samples":
                cond = "readZero"
            elif ctext == "data . is_empty ( )" and ctx.role == "hasher":
                cond = "dataEmpty"
            elif ctext == "bytes_per_sample != self . bytes_per_sample" and ctx.role == "fill":
                cond = "bpsMismatch"
            else:
                pre, v = self.tx_expr(e["c"], ctx, None)
                if v is None or v[0] != "cond":
                    fail(f"{ctx.fn}: condition `{ctext}`")
                cond = v[1]
            th, _ = self.branch(e["th"], ctx, True)
            el = []
            if e["el"] is not None:
                el, _ = self.branch(e["el"], ctx, True)
            return pre + [("ite", cond, th, el)], None
        if k == "iflet":
            if " ".join(e["pat"]) == "Some ( e )" and self.txt(e["e"]) == "first_encode_error" and e["el"] is None:
                th, _ = self.branch(e["th"], ctx, True)
                return [("ite", "firstErrSome", th, [])], None
            fail(f"{ctx.fn}: if-let `{tx}`")
        if k == "match":
            return self.tx_match(e, ctx, binder)
        if k == "return":
            r = None
            rt = self.txt(e)
            if rt == "return Err ( e )" and ctx.fn == "feed_fixed_block_size":
                r = "feedErr"
            elif rt == "return Err ( SourceError :: by_reason ( SourceErrorReason :: InvalidBuffer ) )" and ctx.role == "fill":
                r = "fillErr"
            elif rt == "return Err ( EncodeError :: Config ( e ) )" and ctx.fn == "encode_with_fixed_block_size":
                r = "errConfig"
            if r is None:
                fail(f"{ctx.fn}: `{rt}`")
            return self.unlocks(ctx, 0) + [("ret", r)], None
        if k == "break":
            tgt = None
            for lab, l, depth in reversed(ctx.loops):
                if e["label"] is None or lab == e["label"]:
                    tgt = (l, depth)
                    break
            if tgt is None:
                fail(f"{ctx.fn}: break target `{e['label']}`")
            return self.unlocks(ctx, tgt[1]) + [("brk", tgt[0])], None
        return self.tx_leaf(e, ctx, binder, tail)

    def tx_match(self, e, ctx, binder):
        s = self.txt(e["s"])
        pats = [" ".join(p) for p, _ in e["arms"]]
        if s == "src . read_samples ( block_size , & mut framebuf_and_ctx )":
            if binder != "read_samples" or pats != ["Ok ( n )", "Err ( e )"] or self.txt(e["arms"][0][1]) != "n":
                fail(f"{ctx.fn}: shape of the match on read_samples")
            if self.live_guard(ctx, "numbuf") is None:
                fail(f"{ctx.fn}: read_samples called without the buffer guard")
            ctx.read_binder = "read_samples"
            err, _ = self.branch(e["arms"][1][1], ctx)
            return [("matchRead", [], err)], ("needs", "read_samples")
        if s == "encode_result" and ctx.role == "worker":
            if pats != ["Ok ( mut frame )", "Err ( EncodeError :: Config ( e ) )", "Err ( e )"]:
                fail(f"{ctx.fn}: arms of the match on encode_result: {pats}")
            arms = []
            for _, body in e["arms"]:
                a, _ = self.branch(body, ctx)
                arms.append(a)
            return [("matchEnc", arms[0], arms[1], arms[2])], None
        fail(f"{ctx.fn}: match on `{s}`")

    def tx_leaf(self, e, ctx, binder, tail):
        tx = self.txt(e)
        k = e["k"]
        # channel operations
        x = self.expect_wrapped(e, "recv")
        if x is not None and x["k"] == "mcall" and x["name"] == "recv" and not x["args"]:
            ce = self.chan_end(x["recv"], ctx)
            if ce is None or ce[1] != 1:
                fail(f"{ctx.fn}: receive on `{self.txt(x['recv'])}`")
            need = {"refill": "bufid", "md5": "data", "encode": "<while-let>"}[ce[0]]
            return [("act", f".recv .{ce[0]}")], ("needs", need)
        x = self.expect_wrapped(e, "send")
        if x is not None and x["k"] == "mcall" and x["name"] == "send" and len(x["args"]) == 1:
            ce = self.chan_end(x["recv"], ctx)
            if ce is None or ce[1] != 0:
                fail(f"{ctx.fn}: send on `{self.txt(x['recv'])}`")
            return [("act", f".send .{ce[0]} {self.payload(x['args'][0], ce[0], ctx)}")], ("unit",)
        if k == "mcall" and e["name"] in ("is_empty", "len") and not e["args"]:
            ce = self.chan_end(e["recv"], ctx)
            if ce is not None:
                if e["name"] == "is_empty":
                    if ce[0] != "encode":
                        fail(f"{ctx.fn}: is_empty on channel {ce[0]}")
                    return [("act", f".chanIsEmpty .{ce[0]}")], ("cond", "starved")
                return [("act", f".chanLen .{ce[0]}")], ("value",)
        # mutex
        x = self.expect_wrapped(e, "lock")
        if x is not None and x["k"] == "mcall" and x["name"] == "lock" and not x["args"]:
            m = self.mutex_of(x["recv"], ctx)
            if m is None:
                fail(f"{ctx.fn}: lock of `{self.txt(x['recv'])}`")
            if m in ctx.held():
                fail(f"{ctx.fn}: lock of `{self.txt(x['recv'])}` while this thread still holds a guard of it")
            return [("act", f".lock .{m}")], ("guard", m)
        if tx == "drop ( numbuf )":
            g = self.live_guard(ctx, "numbuf")
            if g is None:
                fail(f"{ctx.fn}: drop of a guard that is not live")
            for fr in ctx.frames:
                if g in fr:
                    fr.remove(g)
            return [("act", f".unlock .{g[1]}")], ("unit",)
        # externals (PAR_EXTERNAL)
        r = self.external(e, tx, ctx, binder)
        if r is not None:
            return r
        # inlined helpers
        if k == "mcall" and e["recv"]["k"] == "path":
            rv = self.txt(e["recv"])
            ty = RECEIVER_TYPES.get(rv) if rv != "self" else ctx.selftype
            if ty is not None and (None, ty) in self.items.impls and e["name"] in self.items.impls[(None, ty)]:
                return self.inline((None, ty), e["name"], rv, e["args"], ctx, binder)
        if k == "mcall" and e["name"] == "map" and tx.endswith(". map ( | ( stats , _ ) | stats )") and e["recv"]["k"] == "call" \
                and self.txt(e["recv"]["f"]) == "feed_fixed_block_size":
            s, v = self.inline_fn("feed_fixed_block_size", e["recv"]["args"], ctx)
            return s, ("needs", "feed_result")
        # plain values
        if k == "path" and tx in ctx.flags:
            return [], ("cond", ctx.flags[tx])
        if k == "path" and tx == "ret":
            return [], ("value",)
        if tail and tx == "Ok ( ( ) )" and ctx.role == "fill":
            return [("ret", "fillOk")], None
        if tail and ctx.fn == "feed_fixed_block_size" and tx == "Ok ( ( FeedStats { frame_count , worker_starvation_count , } , context , ) )":
            return [("ret", "feedOk")], None
        if tail and ctx.fn == "encode_with_fixed_block_size" and tx == "Ok ( stream )":
            return [("ret", "okStream")], None
        if k == "macro" and tx.startswith("info ! ("):
            bad = [w for w in ("send", "recv", "lock", "join", "spawn", "sched_point") if w in self.t[e["lo"]:e["hi"]]]
            if bad:
                fail(f"{ctx.fn}: protocol operation inside info!: {bad}")
            return [("act", '.note "info!(..)"')], ("unit",)
        r = self.setup_leaf(e, tx, ctx, binder, tail)
        if r is not None:
            return r
        fail(f"{ctx.fn}: expression not classified: `{tx}`")

    def external(self, e, tx, ctx, binder):
        """PAR_EXTERNAL: readings of calls that leave par.rs (trusted)."""
        if tx == "numbuf . frame_number . expect ( panic_msg :: FRAMENUM_NOT_SET )":
            g = self.live_guard(ctx, "numbuf")
            if g is None or g[1] != "buf":
                fail(f"{ctx.fn}: frame number read without the buffer guard")
            return [("act", ".readFrameNumber")], ("needs", "frame_number")
        if e["k"] == "tuple" and len(e["items"]) == 2 and self.txt(e["items"][0]) == "frame_number" and e["items"][1]["k"] == "call" \
                and self.txt(e["items"][1]["f"]) == "coding :: encode_fixed_size_frame":
            args = [self.txt(a) for a in e["items"][1]["args"]]
            if args != ["& config", "& numbuf . framebuf", "frame_number", "& stream_info"]:
                fail(f"{ctx.fn}: arguments of encode_fixed_size_frame: {args}")
            if self.live_guard(ctx, "numbuf") is None:
                fail(f"{ctx.fn}: encode_fixed_size_frame without the buffer guard")
            return [("act", ".encode")], ("needs", "( frame_number , encode_result )")
        if tx == "self . thread_handle . join ( ) . expect ( panic_msg :: THREAD_JOIN_FAILED )" and ctx.fn == "ParContext::finalize":
            return [("act", ".joinHasher")], ("unit",)
        if tx == "destruct_arc ( self . inner ) . into_inner ( ) . unwrap ( )" and ctx.fn == "ParContext::finalize":
            return [("act", '.destructArc "inner"')], ("needs", "context")
        if tx == "h . join ( ) . expect ( panic_msg :: THREAD_JOIN_FAILED )" and ctx.for_handles:
            return [("act", ".joinWorker")], ("unit",)
        if tx == "destruct_arc ( parerrors ) . finalize ( | e : VerifyError | { first_encode_error . get_or_insert ( e ) ; } )":
            return [("act", '.destructArc "parerrors"'), ("act", ".drainErrors")], ("unit",)
        if tx == "destruct_arc ( parsink ) . finalize ( | f : Frame | stream . add_frame ( f ) )":
            return [("act", '.destructArc "parsink"'), ("act", ".drainSink")], ("unit",)
        if tx == "stream . stream_info_mut ( ) . set_md5_digest ( & context . md5_digest ( ) )":
            return [("act", ".setMd5")], ("unit",)
        if tx == "feed_result ?":
            return [("tryFeed",)], ("needs", "feed_stats")
        if tx == "inner . fill_le_bytes ( & data , bytes_per_sample ) . expect ( panic_msg :: NO_ERROR_EXPECTED )" and ctx.role == "hasher":
            g = self.live_guard(ctx, "inner")
            if g is None or g[1] != "ctx":
                fail(f"{ctx.fn}: MD5 context used without its guard")
            return [("act", ".hashFill")], ("unit",)
        if ctx.role == "fill":
            if tx == "i32s_to_le_bytes ( interleaved , & mut self . bytebuf , bps )":
                return [("act", ".bytebufSet")], ("unit",)
            if tx == "self . bytebuf . clear ( )":
                return [("act", ".bytebufClear")], ("unit",)
            if tx == "self . bytebuf . extend_from_slice ( bytes )":
                return [("act", ".bytebufExtend")], ("unit",)
        if e["k"] == "mcall" and e["name"] == "insert" and self.txt(e["recv"]) == "data" and len(e["args"]) == 2:
            g = self.live_guard(ctx, "data")
            if g is None or g[1] != ctx.selfrole:
                fail(f"{ctx.fn}: map insert without the guard of the sink")
            if ctx.resolve(self.txt(e["args"][0])) != "frame_number":
                fail(f"{ctx.fn}: sink key is `{ctx.resolve(self.txt(e['args'][0]))}` (expected the local `frame_number`)")
            el = ctx.resolve(self.txt(e["args"][1]))
            if ctx.selfrole == "sink" and el != "frame":
                fail(f"{ctx.fn}: pushed element `{el}` (expected the encoded `frame`)")
            return [("act", f".sinkInsert .{ctx.selfrole}")], ("unit",)
        if e["k"] == "mcall" and self.txt(e["recv"]) in SINK_ROLE and e["name"] == "push":
            return None     # inlined below
        return None

    def bind_params(self, rec, args, ctx, new):
        ps = [p for p in rec["params"] if "self" not in p[:3] or ":" in p]
        if len(ps) != len(args):
            fail(f"{new.fn}: {len(args)} arguments for {len(ps)} parameters")
        for p, a in zip(ps, args):
            p = p[1:] if p[0] == "mut" else p
            name, ty = p[0], p[2:]
            c = self.count(a, ctx) if ty == ["usize"] else None
            if c is not None:
                new.counts[name] = c
            at = self.txt(a)
            at = re.sub(r"^& (mut )?", "", at)
            new.names[name] = ctx.resolve(at)

    def inline(self, key, name, recv, args, ctx, binder):
        rec = self.items.impls[key][name]
        fn = f"{key[1]}::{name}"
        new = Ctx(fn, ctx.role if key[1] != "ParContext" or ctx.role == "fill" else ctx.role)
        new.selftype = key[1]
        new.selfrole = SINK_ROLE.get(recv, ctx.selfrole)
        new.loopvar = None
        new.outer = ctx.held()
        self.bind_params(rec, args, ctx, new)
        if rec["body"] is None:
            fail(f"{fn}: no body")
        self.inlined.append(fn)
        b = P(self.t, rec["body"][0], rec["body"][1]).block()
        if fn == "ParFrameBuf::new":
            self.prescan_new(b, new)
        if fn == "ParContext::new":
            new.role = "setup"
        body, v = self.tx_block(b, new, binder)
        if new.frames:
            fail(f"{fn}: unbalanced guard frames")
        return [("call", fn, body)], v

    def inline_fn(self, name, args, ctx):
        rec = self.items.fns[name]
        new = Ctx(name, ctx.role)
        new.outer = ctx.held()
        self.bind_params(rec, args, ctx, new)
        self.inlined.append(name)
        b = P(self.t, rec["body"][0], rec["body"][1]).block()
        body, v = self.tx_block(b, new, None)
        return [("call", name, body)], v

    # ---- set-up
    def prescan_new(self, b, ctx):
        """ParFrameBuf::new: which local is which channel end is decided by the struct literal it returns"""
        last = b["stmts"][-1]
        e = last.get("e")
        if e is None or e["k"] != "call" or self.txt(e["f"]) != "Ok" or e["args"][0]["k"] != "struct":
            fail(f"{ctx.fn}: does not end in Ok(Self {{ .. }})")
        for f, v in e["args"][0]["fields"]:
            if f in PAR_CHAN_FIELDS and v is not None and v["k"] == "tuple" and len(v["items"]) == 2:
                ctx.alias[self.txt(v["items"][0])] = (PAR_CHAN_FIELDS[f], 0)
                ctx.alias[self.txt(v["items"][1])] = (PAR_CHAN_FIELDS[f], 1)

    def setup_leaf(self, e, tx, ctx, binder, tail):
        k = e["k"]
        if ctx.fn == "ParFrameBuf::new":
            if k == "call" and self.txt(e["f"]) == "bounded" and len(e["args"]) == 1 and binder is not None:
                m = re.fullmatch(r"\( (\w+) , (\w+) \)", binder)
                c = self.count(e["args"][0], ctx)
                if m and c is not None and ctx.alias.get(m.group(1), (None,))[0] == ctx.alias.get(m.group(2), (0,))[0] \
                        and ctx.alias[m.group(1)][1] == 0 and ctx.alias[m.group(2)][1] == 1:
                    return [("act", f".newChan .{ctx.alias[m.group(1)][0]} {c}")], ("needs", binder)
            if k == "mcall" and e["name"] == "for_each" and self.txt(e["recv"]).startswith("( 0 .. ") and len(e["args"]) == 1 \
                    and e["args"][0]["k"] == "closure" and len(e["args"][0]["params"]) == 1:
                rng = e["recv"]["e"]
                c = self.count(rng["b"], ctx) if rng["k"] == "bin" and rng["op"] == ".." and self.txt(rng["a"]) == "0" else None
                if c is None:
                    fail(f"{ctx.fn}: range of for_each")
                l = self.label("for_each")
                save, ctx.loopvar = ctx.loopvar, e["args"][0]["params"][0]
                body, _ = self.tx_expr(e["args"][0]["body"], ctx, None)
                ctx.loopvar = save
                return [("forN", l, c, body)], ("unit",)
            if tx == "buffers . push ( buf )":
                return [("act", ".pushBuffer")], ("unit",)
            if tail and k == "call" and self.txt(e["f"]) == "Ok" and e["args"][0]["k"] == "struct":
                out = []
                seen = []
                for f, v in e["args"][0]["fields"]:
                    seen.append(f)
                    if f == "buffers" and v is None:
                        continue
                    if f in PAR_CHAN_FIELDS and v["k"] == "call" and self.txt(v["f"]) == "bounded" and len(v["args"]) == 1:
                        c = self.count(v["args"][0], ctx)
                        if c is None:
                            fail(f"{ctx.fn}: capacity `{self.txt(v['args'][0])}`")
                        out.append(("act", f".newChan .{PAR_CHAN_FIELDS[f]} {c}"))
                        continue
                    if f in PAR_CHAN_FIELDS and v["k"] == "tuple":
                        continue
                    fail(f"{ctx.fn}: field `{f}` of the returned value")
                if sorted(seen) != ["buffers", "encode_queue", "refill_queue"]:
                    fail(f"{ctx.fn}: fields of the returned value: {seen}")
                return out + [("ret", "value")], None
        if ctx.fn == "ParContext::new":
            if tx == "bounded ( 16 )" or (k == "call" and self.txt(e["f"]) == "bounded" and len(e["args"]) == 1):
                c = self.count(e["args"][0], ctx)
                if binder in PAR_CHAN_FIELDS and c is not None:
                    ctx.alias[binder] = (PAR_CHAN_FIELDS[binder], "pair")
                    return [("act", f".newChan .{PAR_CHAN_FIELDS[binder]} {c}")], ("needs", binder)
            if k == "call" and self.txt(e["f"]) == "thread :: spawn" and len(e["args"]) == 1 and e["args"][0]["k"] == "closure" \
                    and not e["args"][0]["params"] and binder == "thread_handle":
                if self.hasher_body is not None:
                    fail("two hasher spawns")
                self.hasher_body = (e["args"][0]["body"], dict(ctx.alias))
                return [("act", ".spawnHasher")], ("needs", "thread_handle")
            if tail and k == "struct":
                fs = [(f, None if v is None else self.txt(v)) for f, v in e["fields"]]
                if fs != [("inner", None), ("thread_handle", None), ("bytebuf", "vec ! [ ]"), ("bytes_per_sample", None), ("process_queue", None)]:
                    fail(f"{ctx.fn}: fields of the returned value: {fs}")
                return [("ret", "value")], None
        if ctx.fn == "encode_with_fixed_block_size":
            if binder in SINK_ROLE and tx == "Arc :: new ( ParSink :: new ( ) )":
                return [("act", f".newSink .{SINK_ROLE[binder]}")], ("needs", binder)
            if binder == "parbuf" and k == "call" and self.txt(e["f"]) == "Arc :: new" and e["args"][0]["k"] == "try" \
                    and e["args"][0]["e"]["k"] == "call" and self.txt(e["args"][0]["e"]["f"]) == "ParFrameBuf :: new":
                s, v = self.inline((None, "ParFrameBuf"), "new", "ParFrameBuf", e["args"][0]["e"]["args"], ctx, None)
                return s, ("needs", "parbuf")
            if binder == "context" and k == "call" and self.txt(e["f"]) == "ParContext :: new" \
                    and tx == "ParContext :: new ( Context :: new ( src . bits_per_sample ( ) , src . channels ( ) ) )":
                s, v = self.inline((None, "ParContext"), "new", "ParContext", e["args"], ctx, None)
                return s, ("needs", "context")
            if binder == "join_handles" and k == "mcall" and e["name"] == "collect" and e["recv"]["k"] == "mcall" \
                    and e["recv"]["name"] == "map" and e["recv"]["recv"]["k"] == "paren" and len(e["recv"]["args"]) == 1 \
                    and e["recv"]["args"][0]["k"] == "closure":
                rng = e["recv"]["recv"]["e"]
                c = self.count(rng["b"], ctx) if rng["k"] == "bin" and rng["op"] == ".." and self.txt(rng["a"]) == "0" else None
                if c is None:
                    fail(f"{ctx.fn}: range of the spawn loop")
                l = self.label("spawn")
                save, ctx.fn = ctx.fn, "encode_with_fixed_block_size/spawn"
                body, _ = self.tx_expr(e["recv"]["args"][0]["body"], ctx, None, tail=True)
                ctx.fn = save
                return [("forN", l, c, body)], ("count", c)
            if binder == "remaining_md5_blocks" or binder == "context":
                pass
        if ctx.fn == "encode_with_fixed_block_size/spawn":
            if tail and k == "call" and self.txt(e["f"]) == "thread :: spawn" and len(e["args"]) == 1 \
                    and e["args"][0]["k"] == "closure" and not e["args"][0]["params"]:
                if self.worker_body is not None:
                    fail("two worker spawns")
                self.worker_body = e["args"][0]["body"]
                return [("act", ".spawnWorker")], None
        return None


# =====================================================================================================================
# determine_worker_count as a function

# readings of std (trusted): method -> Lean template ({r} receiver, {0}.. arguments)
WC_STD = {
    "and_then": ("Option.bind {r} {0}", 1, "Option::and_then"),
    "filter": ("Option.filter {0} {r}", 1, "Option::filter (the closure takes a reference)"),
    "unwrap_or": ("Option.getD {r} {0}", 1, "Option::unwrap_or"),
    "map_or": ("ParProg.mapOr {r} {0} {1}", 2, "Option::map_or(default, f)"),
}
WC_AVAILABLE = "std :: thread :: available_parallelism ( ) . map_err ( SourceError :: from_io_error ) ? . get ( )"
WC_ENV = "std :: env :: var ( envvar_key :: DEFAULT_PARALLELISM ) . ok ( )"
WC_PARSE = r"(\w+) \. parse :: < usize > \( \) \. ok \( \)"
WC_CMP = {">": ">", ">=": "≥", "<": "<", "<=": "≤", "==": "=", "!=": "≠"}


class WcTx:
    def __init__(self, tx):
        self.tx = tx

    def txt(self, n):
        return self.tx.txt(n)

    def value(self, e, env, fn_ok=False):
        """Lean term of a value expression; env = set of locals in scope"""
        k, tx = e["k"], self.txt(e)
        if k == "paren":
            return self.value(e["e"], env)
        if tx == WC_ENV:
            return "env_value"
        if tx == "config . workers":
            return "config.workers"
        if k == "path" and tx in env:
            return tx
        if k == "lit":
            m = re.fullmatch(r"(\d+)(usize)?", tx)
            if m:
                return str(int(m.group(1)))
        if k in ("closure",) and not fn_ok:
            fail(f"determine_worker_count: a closure where a value is expected: `{tx}`")
        if k == "closure":
            if len(e["params"]) != 1 or not re.fullmatch(r"[a-z_]+", e["params"][0]):
                fail(f"determine_worker_count: closure parameters `{' '.join(e['params'])}`")
            v = e["params"][0]
            return f"(fun {v} => {self.value(e['body'], env | {v})})"
        if k == "path" and tx == "NonZeroUsize :: get":
            if not fn_ok:
                fail("determine_worker_count: `NonZeroUsize::get` where a value is expected")
            return "(fun n => n)"
        m = re.fullmatch(WC_PARSE, tx)
        if m and m.group(1) in env:
            return f"(ParProg.parseUsize {T.HDR_BITS['usize']} {m.group(1)})"
        if k == "bin" and e["op"] in WC_CMP:
            def side(x):
                if x["k"] == "unary" and x["op"] == "*" and self.txt(x["e"]) in env:
                    return self.txt(x["e"])
                if x["k"] == "lit" and re.fullmatch(r"\d+(usize)?", self.txt(x)):
                    return str(int(re.match(r"\d+", self.txt(x)).group(0)))
                if x["k"] == "path" and self.txt(x) in env:
                    return self.txt(x)
                fail(f"determine_worker_count: operand `{self.txt(x)}`")
            return f"(decide ({side(e['a'])} {WC_CMP[e['op']]} {side(e['b'])}))"
        if k == "mcall" and e["name"] in WC_STD:
            tpl, n, _ = WC_STD[e["name"]]
            if len(e["args"]) != n:
                fail(f"determine_worker_count: `{e['name']}` with {len(e['args'])} arguments")
            fpos = {"and_then": 0, "filter": 0, "map_or": 1}.get(e["name"])
            args = [self.value(a, env, fn_ok=(i == fpos)) for i, a in enumerate(e["args"])]
            if fpos is not None and not (e["args"][fpos]["k"] == "closure" or self.txt(e["args"][fpos]) == "NonZeroUsize :: get"):
                fail(f"determine_worker_count: `{e['name']}` expects a function, found `{self.txt(e['args'][fpos])}`")
            return "(" + tpl.format(*args, r=self.value(e["recv"], env)) + ")"
        fail(f"determine_worker_count: expression not classified: `{tx}`")

    def function(self, rec):
        if T_sig(rec) != "config:&config::Encoder->Result<usize,SourceError>":
            fail(f"determine_worker_count: signature {T_sig(rec)}")
        b = P(self.tx.t, rec["body"][0], rec["body"][1]).block()
        lines, env = [], set()
        stmts = b["stmts"]
        for i, st in enumerate(stmts):
            last = i == len(stmts) - 1
            if st["cfg"] is not None:
                fail("determine_worker_count: cfg attribute")
            if st["k"] == "let" and not last:
                name = " ".join(st["pat"])
                if not re.fullmatch(r"[a-z_]+", name) or st["init"] is None:
                    fail(f"determine_worker_count: `{self.txt(st)}`")
                if self.txt(st["init"]) == WC_AVAILABLE:
                    lines.append(f"ParProg.bindO available_parallelism fun {name} =>")
                else:
                    lines.append(f"let {name} := {self.value(st['init'], env)}")
                env = env | {name}
            elif last and st["k"] == "expr" and not st["semi"] and st["e"]["k"] == "call" and self.txt(st["e"]["f"]) == "Ok" \
                    and len(st["e"]["args"]) == 1:
                lines.append(f"some {self.value(st['e']['args'][0], env)}")
            else:
                fail(f"determine_worker_count: statement `{self.txt(st)}`")
        return lines


def T_sig(rec):
    return ",".join("".join(p) for p in rec["params"]) + "->" + "".join(rec["ret"])


# =====================================================================================================================
# emission

def lean_stmt(s, ind):
    pad = " " * ind
    k = s[0]
    if k == "act":
        return f"{pad}.act ({s[1]})"
    if k == "loop":
        return f"{pad}.loop {s[1]} {lean_list(s[2], ind)}"
    if k == "whileRecv":
        return f"{pad}.whileRecv .{s[1]} {s[2]} {lean_list(s[3], ind)}"
    if k == "forN":
        return f"{pad}.forN {s[1]} {s[2]} {lean_list(s[3], ind)}"
    if k == "brk":
        return f"{pad}.brk {s[1]}"
    if k == "ite":
        return f"{pad}.ite .{s[1]} {lean_list(s[2], ind)} {lean_list(s[3], ind)}"
    if k == "matchRead":
        return f"{pad}.matchRead {lean_list(s[1], ind)} {lean_list(s[2], ind)}"
    if k == "matchEnc":
        return f"{pad}.matchEnc {lean_list(s[1], ind)} {lean_list(s[2], ind)} {lean_list(s[3], ind)}"
    if k == "call":
        return f'{pad}.call "{s[1]}" {lean_list(s[2], ind)}'
    if k == "ret":
        return f"{pad}.ret .{s[1]}"
    if k == "tryFeed":
        return f"{pad}.tryFeed"
    raise KeyError(k)


def lean_list(stmts, ind):
    if not stmts:
        return "[]"
    inner = ",\n".join(lean_stmt(s, ind + 2) for s in stmts)
    return "[\n" + inner + "\n" + " " * ind + "]"


def find_acts(stmts, pred, path=()):
    """all (act text, enclosing forN counts) in program order"""
    out = []
    for s in stmts:
        if s[0] == "act":
            if pred(s[1]):
                out.append((s[1], path))
        elif s[0] == "forN":
            out += find_acts(s[3], pred, path + (s[2],))
        else:
            for x in s[1:]:
                if isinstance(x, list):
                    out += find_acts(x, pred, path)
    return out


def emit_par(tmod, cinfo=None):
    global T
    T = tmod
    path = os.path.join(T.REPO, "src", "par.rs")
    if not os.path.exists(path):
        fail("file not found")
    toks = T.hdr_lex(open(path).read(), "par.rs")
    items = build_items(toks)
    # the item set this part was written for
    for name, want in PAR_STRUCT_FP.items():
        if name not in items.structs:
            fail(f"struct {name} not found")
        got = fp(items.structs[name])
        if got != want:
            fail(f"struct {name} changed (fingerprint {got}, the readings of this part were written for {want})")
    for key in ((None, "ParSink"), (None, "ParFrameBuf"), (None, "ParContext"), ("Fill", "ParContext")):
        if key not in items.impls:
            fail(f"impl {key} not found")
    want_methods = {
        (None, "ParSink"): ["finalize", "new", "push"],
        (None, "ParFrameBuf"): ["enqueue_encode", "enqueue_refill", "lock_buffer", "new", "pop_encode_queue", "recv_refill_request",
                                "request_stop"],
        (None, "ParContext"): ["enqueue_buffer", "finalize", "new", "request_stop"],
        ("Fill", "ParContext"): ["fill_interleaved", "fill_le_bytes"],
    }
    for key, ms in want_methods.items():
        if sorted(items.impls[key]) != ms:
            fail(f"impl {key[1]}: methods {sorted(items.impls[key])}, expected {ms}")
    fps = {"destruct_arc": [fp(toks[r["body"][0]:r["body"][1]]) for r in items.fn_versions.get("destruct_arc", [])],
           "ParSink::finalize": [fp(toks[items.impls[(None, "ParSink")]["finalize"]["body"][0]:items.impls[(None, "ParSink")]["finalize"]["body"][1]])],
           "ParSink::new": [fp(toks[items.impls[(None, "ParSink")]["new"]["body"][0]:items.impls[(None, "ParSink")]["new"]["body"][1]])]}
    for name, (want, _) in PAR_FN_FP.items():
        if sorted(fps[name]) != sorted(want):
            fail(f"{name} changed (fingerprints {sorted(fps[name])}, this part reads it as a whole and was written for {sorted(want)})")
    for f in ("feed_fixed_block_size", "encode_with_fixed_block_size"):
        if f not in items.fns or len(items.fn_versions[f]) != 1:
            fail(f"fn {f}: not found or defined twice")

    tx = Tx(items)
    rec = items.fns["encode_with_fixed_block_size"]
    body = P(toks, rec["body"][0], rec["body"][1]).block()
    ctx = Ctx("encode_with_fixed_block_size", "main")
    ctx.frames.append([])
    setup, prog = [], []
    seen_feed = False
    n = len(body["stmts"])
    for i, st in enumerate(body["stmts"]):
        if not seen_feed and "feed_fixed_block_size" in toks[st["lo"]:st["hi"]]:
            seen_feed = True
            ctx.after_feed = True
        s, _ = tx.tx_stmt(st, ctx, None, i == n - 1)
        (prog if seen_feed else setup).extend(s)
    if not seen_feed:
        fail("encode_with_fixed_block_size does not call feed_fixed_block_size")
    if ctx.frames != [[]]:
        fail("encode_with_fixed_block_size: a guard is live at the end of the function")
    if tx.worker_body is None or tx.hasher_body is None:
        fail("the worker / hasher spawn was not found")
    wctx = Ctx("worker closure", "worker")
    wctx.frames.append([])
    worker, _ = tx.tx_expr(tx.worker_body, wctx, None)
    hctx = Ctx("hasher closure", "hasher")
    hctx.alias = dict(tx.hasher_body[1])
    hctx.frames.append([])
    hasher, _ = tx.tx_expr(tx.hasher_body[0], hctx, None)
    fills = {}
    for m in ("fill_interleaved", "fill_le_bytes"):
        frec = items.impls[("Fill", "ParContext")][m]
        fctx = Ctx(f"ParContext::{m}", "fill")
        fctx.selftype = "ParContext"
        fb = P(toks, frec["body"][0], frec["body"][1]).block()
        fills[m], _ = tx.tx_block(fb, fctx, None)
    # protocol acts may not appear in the set-up, set-up acts not in the programs
    setup_only = lambda a: a.split()[0] in (".newChan", ".pushBuffer", ".newSink", ".spawnWorker", ".spawnHasher")
    for nm, pr in (("mainProg", prog), ("workerProg", worker), ("hasherProg", hasher), ("fillInterleaved", fills["fill_interleaved"]),
                   ("fillLeBytes", fills["fill_le_bytes"])):
        bad = find_acts(pr, setup_only)
        if bad:
            fail(f"{nm}: set-up action after the start of the protocol: {bad[0][0]}")
    bad = find_acts(setup, lambda a: a.split()[0] in (".recv", ".lock", ".sched", ".joinHasher", ".joinWorker", ".readSamples") or
                    (a.split()[0] == ".send" and a != ".send .refill .loopVar"))
    if bad:
        fail(f"set-up: protocol action before the threads exist: {bad[0][0]}")
    # generated constants
    chans = find_acts(setup, lambda a: a.startswith(".newChan"))
    caps = {}
    for a, pth in chans:
        m = re.fullmatch(r"\.newChan \.(\w+) (.*)", a)
        if m.group(1) in caps or pth:
            fail(f"channel {m.group(1)} created twice or inside a loop")
        caps[m.group(1)] = m.group(2)
    if sorted(caps) != ["encode", "md5", "refill"]:
        fail(f"channels created: {sorted(caps)}")
    toks_sent = find_acts(setup, lambda a: a == ".send .refill .loopVar")
    if len(toks_sent) != 1 or len(toks_sent[0][1]) != 1:
        fail("initial refill tokens: expected one send inside one counting loop")
    bufs = find_acts(setup, lambda a: a == ".pushBuffer")
    if len(bufs) != 1 or len(bufs[0][1]) != 1:
        fail("buffer creation: expected one push inside one counting loop")
    sp = find_acts(setup, lambda a: a == ".spawnWorker")
    if len(sp) != 1 or len(sp[0][1]) != 1:
        fail("worker spawn: expected one spawn inside one counting loop")
    sh = find_acts(setup, lambda a: a == ".spawnHasher")
    if len(sh) != 1 or sh[0][1]:
        fail("hasher spawn: expected exactly one, outside loops")

    L = []
    L.append("/- GENERATED by tools/translate_par.py (part `par` of tools/translate.py) from src/par.rs — do not edit.")
    L.append("   The programs of the three thread roles of the multi-thread encoder as data of Model/ParProg.lean. -/")
    L.append("import FlacVerif.Model.ParProg")
    L.append("import FlacVerif.Gen.Constants")
    L.append("import FlacVerif.Gen.Config")
    L.append("")
    L.append("namespace FlacVerif.Gen.Par")
    L.append("open FlacVerif.ParProg")
    L.append("")
    L.append("/-- loop labels: " + ", ".join(f"{i} = {n}" for i, n in sorted(tx.labels.items())) + " -/")
    L.append("def labelCount : Nat := " + str(tx.next_label))
    L.append("")
    L.append("/-- helpers inlined from their own bodies, in order of inlining -/")
    L.append("def inlined : List String := [" + ", ".join(f'"{x}"' for x in tx.inlined) + "]")
    L.append("")
    for ch in ("refill", "encode", "md5"):
        L.append(f"/-- capacity of the `{ch}` channel: argument of its `bounded(..)` call -/")
        L.append(f"def {ch}CapExpr : Count := {caps[ch]}")
        L.append(f"def {ch}Cap (W : Nat) : Nat := {ch}CapExpr.eval W")
    L.append("/-- number of buffers pushed by `ParFrameBuf::new` -/")
    L.append(f"def nbufExpr : Count := {bufs[0][1][0]}")
    L.append("def nbuf (W : Nat) : Nat := nbufExpr.eval W")
    L.append("/-- the refill tokens sent by `ParFrameBuf::new`: `(0..n).for_each(|t| send(t))` -/")
    L.append(f"def initTokensExpr : Count := {toks_sent[0][1][0]}")
    L.append("def initTokens (W : Nat) : List Nat := (List.range (initTokensExpr.eval W)).map (fun t => t)")
    L.append("/-- number of worker threads spawned -/")
    L.append(f"def spawnedWorkersExpr : Count := {sp[0][1][0]}")
    L.append("def spawnedWorkers (W : Nat) : Nat := spawnedWorkersExpr.eval W")
    L.append("")
    for nm, doc, pr in (
            ("mainSetup", "`par::encode_with_fixed_block_size` before the call of `feed_fixed_block_size`", setup),
            ("mainProg", "`par::encode_with_fixed_block_size` from the call of `feed_fixed_block_size` on", prog),
            ("workerProg", "the closure of a worker thread", worker),
            ("hasherProg", "the closure of the hashing thread (`ParContext::new`)", hasher),
            ("fillInterleaved", "`<ParContext as Fill>::fill_interleaved`", fills["fill_interleaved"]),
            ("fillLeBytes", "`<ParContext as Fill>::fill_le_bytes`", fills["fill_le_bytes"])):
        L.append(f"/-- {doc} -/")
        L.append(f"def {nm} : List Stmt := {lean_list(pr, 0)}")
        L.append("")
    # determine_worker_count
    if "determine_worker_count" not in items.fns or len(items.fn_versions["determine_worker_count"]) != 1:
        fail("fn determine_worker_count: not found or defined twice")
    wc_lines = WcTx(tx).function(items.fns["determine_worker_count"])
    cpath = os.path.join(T.REPO, "src", "constant.rs")
    m = re.search(r'pub const DEFAULT_PARALLELISM: &str = "([A-Za-z0-9_]+)";', open(cpath).read()) if os.path.exists(cpath) else None
    if not m:
        fail("constant.rs: envvar_key::DEFAULT_PARALLELISM not found")
    wc_note = "let worker_count = determine_worker_count ( & config ) ? ;"
    if wc_note not in tx.notes_used:
        fail("encode_with_fixed_block_size: the worker count is not bound by `let worker_count = determine_worker_count(&config)?;`")
    L.append("/-- name of the environment variable read by `determine_worker_count` (`envvar_key::DEFAULT_PARALLELISM`) -/")
    L.append(f'def workerEnvKey : String := "{m.group(1)}"')
    L.append("")
    L.append("/-- `determine_worker_count`: `available_parallelism` = `std::thread::available_parallelism()` (`none` = `Err`, the")
    L.append("function returns `Err`; `some n` with `n ≥ 1`: it is a `NonZeroUsize`), `env_value` = value of the environment variable")
    L.append("`workerEnvKey` (`none`: unset or not unicode), `config.workers` = the `Option<NonZeroUsize>` field.  Its value is bound to")
    L.append("`worker_count` by `let worker_count = determine_worker_count(&config)?;` in `mainSetup` and is `Count.workers` of the")
    L.append("programs below: `replicas = worker_count * FRAMEBUF_MULTIPLICITY`, the number of spawned workers, the `request_stop` count. -/")
    L.append("def determineWorkerCount (available_parallelism : Option Nat) (env_value : Option String)")
    L.append("    (config : FlacVerif.Gen.Encoder) : Option Nat :=")
    for ln in wc_lines:
        L.append("  " + ln)
    L.append("")
    L.append("end FlacVerif.Gen.Par")
    return "\n".join(L) + "\n"
