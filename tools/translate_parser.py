"""Part `parser` of tools/translate.py: the nom-based parser of src/component/parser.rs (feature `decode`).

  src/component/parser.rs  -> lean/FlacVerif/Gen/Parser.lean (namespace FlacVerif.Gen.Parser); theorems: Theorems/C16Gen.lean

Every translated function is PARSED from the current source text (lexer / item index / expression parser of translate.py,
extended here by nested tuple patterns, `move` closures, `continue`, range patterns, `(a..=b)` ranges, `error_position!`).
The translation is a continuation-passing walk that emits one Lean step per Rust operation:

  * a parser `Input -> IResult<Input, T, E>` becomes `Input -> PM (Input x T)` with `PM a = Option (Except PErr a)`:
    `none` = the Rust code panics, `some (.error .incomplete)` = `Err(nom::Err::Incomplete)`, `some (.error .error)` =
    `Err(nom::Err::Error(_))`, `some (.ok (rest, v))` = `Ok((rest, v))`.  The error KIND and POSITION are not represented
    (`E` is a type parameter of every function; no combinator in use branches on them).
  * a bit-level input `(&[u8], usize)` is the list of unread bits (`List Bool`), a byte-level input the list of unread
    bytes (`List Nat`).
  * dev / release: `dbg : Bool` through the prelude functions of Gen/Decode.lean (`addU`, `subU`, `mulU`, `shAmt`, ...).
  * a function `fn f(args) -> impl FnMut(I) -> IResult<..>` becomes `f_pre dbg args : Option Unit` (the statements that
    run when the combinator is BUILT, e.g. `debug_assert!`) and `f_run dbg args input` (the closure); `f` = both.

What is NOT read from the source is in the tables below (trusted base of the part): PS_NOM (readings of the nom
combinators, each checked against a fingerprint of its source in the cargo registry), PS_STD (std / heapless methods),
PS_CALLEES (functions of datatype.rs called by the parser: signature + body fingerprint + hand-written reading in
PS_PRELUDE), PS_USES (the `use` lines that give the short names their meaning).
Anything else raises `fail(..)`: the part's status becomes "translator cannot read ..." and nothing is written.
"""
import glob
import hashlib
import os
import re

T = None

NOM_VERSION = "7.1.3"

# `use` lines of parser.rs that must be present verbatim: local name -> nom item
PS_USES = {
    "bits": "use nom :: bits :: bits ;",
    "bit_tag": "use nom :: bits :: streaming :: tag as bit_tag ;",
    "bit_take": "use nom :: bits :: streaming :: take as bit_take ;",
    "alt": "use nom :: branch :: alt ;",
    "byte_take": "use nom :: bytes :: streaming :: take as byte_take ;",
    "into": "use nom :: combinator :: into ;",
    "map": "use nom :: combinator :: map ;",
    "verify": "use nom :: combinator :: verify ;",
    "be_u16": "use nom :: number :: streaming :: be_u16 ;",
    "be_u8": "use nom :: number :: streaming :: be_u8 ;",
    "be_u24": "use nom :: number :: streaming :: be_u24 ;",
    "byte_tag": "use nom :: bytes :: streaming :: tag as byte_tag ;",
    "many_till": "use nom :: multi :: many_till ;",
    "error_position": "use nom :: error_position ;",
    "IResult": "use nom :: IResult ;",
    "Offset": "use nom :: Offset ;",
    "component": "use crate :: component ;",
    "HEADER_CRC": "use crate :: component :: bitrepr :: HEADER_CRC ;",
    "FrameOffset": "use crate :: component :: FrameOffset ;",
    "MAX_BITS_PER_SAMPLE": "use crate :: constant :: MAX_BITS_PER_SAMPLE ;",
}

# nom combinators: local name -> (file in the nom crate, fn name, reading); the files are fingerprinted in PS_NOM_FILES
PS_NOM = {
    "bit_take": ("src/bits/streaming.rs", "take",
                 "takeBits W n: n = 0 -> Ok(0) without reading; fewer than n unread bits -> Incomplete; n > W (width of the output "
                 "type O) -> `none` (the accumulation `acc += val << k` panics on the shift in the dev profile or silently loses "
                 "bits: over-approximated as a panic in both profiles); else the next n bits, MSB first"),
    "bit_tag": ("src/bits/streaming.rs", "tag",
                "tagBits W p n: take(n), then Error unless the value equals the pattern p"),
    "bits": ("src/bits/mod.rs", "bits",
             "bitsP p: run p on the bits of the byte input (offset 0); the rest is the byte slice after the last (partially) "
             "read byte; Incomplete / Error keep their class"),
    "alt": ("src/branch/mod.rs", "alt",
            "altP: the next alternative runs only after Err::Error; the last Error is returned (kind not represented)"),
    "into": ("src/combinator/mod.rs", "into", "into(p): p with the value converted by `Into` (table PS_INTO)"),
    "map": ("src/combinator/mod.rs", "map", "mapP p f: f applied to the value of p"),
    "verify": ("src/combinator/mod.rs", "verify", "verifyP p c: Error unless c holds of the value of p"),
    "byte_take": ("src/bytes/streaming.rs", "take", "byteTake n: fewer than n bytes -> Incomplete; else the next n bytes"),
    "be_u8": ("src/number/streaming.rs", "be_u8", "beU 1: one byte; empty input -> Incomplete"),
    "byte_tag": ("src/bytes/streaming.rs", "tag",
                 "byteTagP t: Error if the available prefix differs from t, Incomplete if it matches but is shorter, else the rest"),
    "many_till": ("src/multi/mod.rs", "many_till",
                  "manyTillEof f (second parser = nom::combinator::eof): at the end of input Ok(collected); otherwise run f: any Err is "
                  "returned, a success that consumes nothing is Error; iterated with fuel len + 1 (`none` = fuel exhausted, impossible "
                  "because every iteration consumes input)"),
    "be_u24": ("src/number/streaming.rs", "be_u24", "beU 3: three bytes, big endian, as a u32; short input -> Incomplete"),
    "be_u16": ("src/number/streaming.rs", "be_u16", "beU 2: two bytes, big endian; short input -> Incomplete"),
    "many_m_n": ("src/multi/mod.rs", "many_m_n",
                 "manyMNS n s f (min = max = n): up to n runs of f; Err::Error from f -> Error (count < min); any other Err is "
                 "returned; a success that consumes nothing -> Error; the closure's captured mutable variables are the state s"),
    "many0_count": ("src/multi/mod.rs", "many0_count",
                    "many0Count f: repeat f until Err::Error (then Ok(count)); any other Err is returned; a success that consumes "
                    "nothing is Error (infinite-loop check)"),
}

# std / heapless readings
PS_STD = [
    "x.into() / T::from(x) between integer types: the lossless widening (anything else stops the translator)",
    "i32::try_from(x).unwrap(): panics (both profiles) unless x < 2^31",
    "(a..=b).contains(&x) / (a..b).contains(&x): a <= x && x <= b / a <= x && x < b",
    "Vec::with_capacity(n) = [], v.push(x) = v ++ [x], v.as_slice() / & / * transparent, for x in a..b = loop over [a, .., b-1], "
    "for b in slice = loop over its elements, v.into_iter().map(f).collect() = List.map f v",
    "heapless::Vec::<T, N>::try_from(slice): Err(()) iff the slice is longer than N (N read from the parameter type of the "
    "constructor that receives the value)",
    "Option::ok_or_else(|| e)? / Result::map_err(|_| e)? with e = nom::Err::Error(error_position!(..)): Error on None / Err",
    "`continue` ends the current loop iteration; `return Err(nom::Err::Error(..))` ends the parser with Error",
    "x[0] on a slice: panics iff it is empty",
    "bool::then(f): Some(f()) iff the bool holds; Option::map_or(d, f)",
    "HEADER_CRC.checksum(bytes) / FRAME_CRC.checksum(bytes) (crate `crc`, not translated): the hand model's `crcBits rfcCrc8` / "
    "`crcBits rfcCrc16` on the bits of the bytes; the two statics of bitrepr.rs are compared textually (table PS_CRC)",
    "input_start.offset(rest) with rest a suffix of input_start (nom::Offset): the number of bytes consumed, "
    "input_start.len() - rest.len()",
]

# values converted by `into(p)`: source component -> target (both are the hand model's SubFrame: the identity)
PS_INTO = {("Constant", "SubFrame"), ("FixedLpc", "SubFrame"), ("Lpc", "SubFrame"), ("Verbatim", "SubFrame")}

# functions of other files called by the parser:
#   (owner, name) -> (file, params (token text), ret, body fingerprint, lean function, can panic, result type)
PS_CALLEES = {
    ("Residual", "from_parts"): ("datatype.rs", ["partition_order : u8", "block_size : usize", "warmup_length : usize", "rice_params : Vec < u8 >",
                                                 "quotients : Vec < u32 >", "remainders : Vec < u32 >"], "Self", None,
                                 "Residual_from_parts", True, ("comp", "Residual")),
    ("Constant", "from_parts"): ("datatype.rs", ["block_size : usize", "dc_offset : i32", "bits_per_sample : u8"], "Self", None,
                                 "Constant_from_parts", False, ("comp", "Constant")),
    ("Verbatim", "from_samples"): ("datatype.rs", ["samples : & [ i32 ]", "bits_per_sample : u8"], "Self", None,
                                   "Verbatim_from_samples", False, ("comp", "Verbatim")),
    ("FixedLpc", "from_parts"): ("datatype.rs", ["warm_up : heapless :: Vec < i32 , 4 >", "residual : Residual", "bits_per_sample : u8"], "Self", None,
                                 "FixedLpc_from_parts", False, ("comp", "FixedLpc")),
    ("Lpc", "from_parts"): ("datatype.rs", ["warm_up : heapless :: Vec < i32 , MAX_LPC_ORDER >", "parameters : QuantizedParameters", "residual : Residual",
                                            "bits_per_sample : u8"], "Self", None,
                            "Lpc_from_parts", True, ("comp", "Lpc")),
    ("QuantizedParameters", "new"): ("datatype.rs", ["coefs : & [ i16 ]", "order : usize", "shift : i8", "precision : usize"],
                                     "Result < Self , VerifyError >", None,
                                     "FlacVerif.Gen.Verify.QuantizedParameters.new", True, ("res", ("comp", "QuantizedParameters"))),
    ("MetadataBlockData", "new_unknown"): ("datatype.rs", ["tag : u8", "data : & [ u8 ]"], "Result < Self , VerifyError >", None,
                                           "FlacVerif.Gen.Verify.MetadataBlockData.new_unknown", True,
                                           ("res", ("comp", "MetadataBlockData"))),
    ("Stream", "with_stream_info"): ("datatype.rs", ["stream_info : StreamInfo"], "Self", None,
                                     "Stream_with_stream_info", False, ("comp", "Stream")),
    ("MetadataBlock", "from_parts"): ("datatype.rs", ["is_last : bool", "data : MetadataBlockData"], "Self", None,
                                      "MetadataBlock_from_parts", False, ("comp", "MetadataBlock")),
    ("StreamInfo", "new"): ("datatype.rs", ["sample_rate : usize", "channels : usize", "bits_per_sample : usize"],
                            "Result < Self , VerifyError >", None,
                            "FlacVerif.Gen.Verify.StreamInfo.new", True, ("res", ("comp", "StreamInfo"))),
    ("Frame", "from_parts"): ("datatype.rs", ["header : FrameHeader", "subframes : Vec < SubFrame >"], "Self", None,
                              "Frame_from_parts", False, ("comp", "Frame")),
    ("FrameHeader", "from_specs"): ("datatype.rs", ["block_size_spec : BlockSizeSpec", "channel_assignment : ChannelAssignment",
                                                    "sample_size_spec : SampleSizeSpec", "sample_rate_spec : SampleRateSpec"], "Self", None,
                                    "FrameHeader_from_specs", False, ("comp", "FrameHeader")),
}
# body fingerprints (sha256/16 of the token text of the body); filled in below, checked on every run
PS_CALLEE_FP = {
    ("Residual", "from_parts"): "a757681489a76fd1",
    ("Constant", "from_parts"): "f987fa5a793cdd4d",
    ("Verbatim", "from_samples"): "48af78f6871d8fef",
    ("FixedLpc", "from_parts"): "f0471fb271b1b8e4",
    ("Lpc", "from_parts"): "8f25b3c4b85e324b",
    ("QuantizedParameters", "new"): None,     # translated by part `verify` (Gen/Verify.lean, theorem C18G_qparams_new): no fingerprint
    ("FrameHeader", "from_specs"): "46377fcb4c7c67d6",
    ("Frame", "from_parts"): "93c34241bf40a108",
    ("StreamInfo", "new"): None,
    ("MetadataBlockData", "new_unknown"): None,
    ("MetadataBlock", "from_parts"): "f6e7fa6b0e2ff509",
    ("Stream", "with_stream_info"): "da9836ddab3f3196",
}
# constants of datatype.rs used in parameter types: name -> (`use` line that must be present, key of constant.rs)
PS_DT_CONSTS = {"MAX_LPC_ORDER": ("use crate :: constant :: qlpc :: MAX_ORDER as MAX_LPC_ORDER ;", "qlpc.MAX_ORDER")}

# accessors of datatype.rs: (owner, name) -> (exact token text of the body, lean term with {r} = receiver, result type)
PS_ACCESSORS = {
    ("MetadataBlockData", "as_stream_info"): ("{ if let Self :: StreamInfo ( ref info ) = self { Some ( info ) } else { None } }",
                                              "(match {r} with | .StreamInfo s => some s | _ => none)", ("opt", ("comp", "StreamInfo"))),
    ("StreamInfo", "channels"): ("{ self . channels as usize }", "{r}.channels", "usize"),
    ("StreamInfo", "bits_per_sample"): ("{ self . bits_per_sample as usize }", "{r}.bps", "usize"),
    ("FrameHeader", "channel_assignment"): ("{ & self . channel_assignment }", "{r}.channel_assignment", ("hdr", "ChannelAssignment")),
    ("FrameHeader", "bits_per_sample"): ("{ self . sample_size_spec . into_bits ( ) . map ( | x | x as usize ) }",
                                         "(FlacVerif.Gen.Headers.SampleSizeSpec.into_bits {r}.sample_size_spec)", ("opt", "usize")),
}
# statics of bitrepr.rs: name -> (token text that must occur in bitrepr.rs, hand-model CRC parameters, result type)
PS_CRC = {
    "HEADER_CRC": ("pub static HEADER_CRC : crc :: Crc < u8 , crc :: Table < 16 >> = crc :: Crc :: < u8 , crc :: Table < 16 >> :: new ( & CRC_8_FLAC ) ;",
                   "FlacVerif.rfcCrc8", "u8"),
    "FRAME_CRC": ("pub static FRAME_CRC : crc :: Crc < u16 , crc :: Table < 16 >> = crc :: Crc :: < u16 , crc :: Table < 16 >> :: new ( & CRC_16_FLAC ) ;",
                  "FlacVerif.rfcCrc16", "u16"),
}
# `&mut self` methods of StreamInfo called as statements: name -> (kind, lean, parameter types, check)
#   "pure": generated by part `verify`, cannot fail;  "vres": generated by part `verify`, `Option (Bool x StreamInfo)` (panic / Ok? + self);
#   "read": hand-written reading in the prelude, (exact parameter text, exact body text) compared with datatype.rs
PS_SETTERS = {
    "set_total_samples": ("pure", "FlacVerif.Gen.Verify.StreamInfo.set_total_samples", ["usize"], None),
    "set_block_sizes": ("vres", "FlacVerif.Gen.Verify.StreamInfo.set_block_sizes", ["usize", "usize"], None),
    "set_frame_sizes": ("vres", "FlacVerif.Gen.Verify.StreamInfo.set_frame_sizes", ["usize", "usize"], None),
    "set_md5_digest": ("read", "StreamInfo_set_md5_digest", [("arr", "u8", 16)],
                       ("& mut self | digest : & [ u8 ; 16 ]", "{ self . md5 . copy_from_slice ( digest ) ; }")),
}
# `From` impls used through `Into::into`: source -> (target, lean constructor, token text of the impl that must be present)
PS_INTO_FROM = {"StreamInfo": ("MetadataBlockData", "FlacVerif.Gen.Writer.MetadataBlockData.StreamInfo",
                               "impl From < StreamInfo > for MetadataBlockData { fn from ( value : StreamInfo ) -> Self { Self :: StreamInfo ( value ) } }")}
# fields read directly: (struct, field) -> (token text of the struct definition that must be present, lean projection, type)
PS_FIELDS = {
    ("MetadataBlock", "data"): ("pub struct MetadataBlock { pub ( crate ) is_last : bool , pub ( crate ) data : MetadataBlockData , }",
                                "data", ("comp", "MetadataBlockData")),
    ("MetadataBlock", "is_last"): ("pub struct MetadataBlock { pub ( crate ) is_last : bool , pub ( crate ) data : MetadataBlockData , }",
                                   "is_last", "bool"),
}
# `&mut self` methods of Stream called as statements (hand-written readings; exact parameter and body text compared)
PS_STREAM_METHODS = {
    "add_metadata_block": ("Stream_add_metadata_block", [("comp", "MetadataBlockData")], "& mut self | metadata : MetadataBlockData",
                           "{ let metadata = MetadataBlock :: from_parts ( true , metadata ) ; if let Some ( x ) = self . metadata . last_mut ( ) "
                           "{ x . is_last = false ; } else { self . stream_info . is_last = false ; } self . metadata . push ( metadata ) ; }"),
}
PS_FRAMES_MUT = ("& mut self", "{ & mut self . frames }")
PS_FROM_STREAM_INFO = "const fn from_stream_info ( info : StreamInfo , is_last : bool ) -> Self { Self { is_last , data : MetadataBlockData :: StreamInfo ( info ) , } }"
PS_FRAME_OFFSET = "pub enum FrameOffset { Frame ( u32 ) , StartSample ( u64 ) , }"

PS_RESERVED = {"dbg", "bindP", "bindO", "okP", "errP", "loopP", "takeBits", "tagBits", "altP", "mapP", "some", "none", "crc8"}


def fail(msg):
    T.fail(msg)


def ind(s, k=2):
    return T.hdr_indent(s, k)


def par(s):
    return T.wr_par(s)


def fp(toks):
    return hashlib.sha256(" ".join(toks).encode()).hexdigest()[:16]


# ---------------------------------------------------------------------------------------------- types

class TV:
    """type variable (bit_take output types, element types of vectors, unsuffixed literals, heapless capacities)"""
    n = 0

    def __init__(self, intlit=False, what=""):
        TV.n += 1
        self.id = TV.n
        self.ref = None
        self.intlit = intlit
        self.what = what


def rs(t):
    while isinstance(t, TV) and t.ref is not None:
        t = t.ref
    if isinstance(t, tuple):
        return tuple(rs(x) if isinstance(x, (tuple, TV)) else ([rs(y) for y in x] if isinstance(x, list) else x) for x in t)
    return t


UBITS = None
SBITS = None


def is_u(t):
    return isinstance(t, str) and t in UBITS


def is_s(t):
    return isinstance(t, str) and t in SBITS


def is_int(t):
    return is_u(t) or is_s(t)


def bits_of(t):
    return UBITS[t] if t in UBITS else SBITS[t]


class V:
    __slots__ = ("lean", "ty", "lit")

    def __init__(self, lean, ty, lit=None):
        self.lean, self.ty, self.lit = lean, ty, lit


def make_parser_class():
    import translate_decode
    translate_decode.T = T
    Base = translate_decode.make_parser_class()

    class PsParser(Base):
        def sub(self, toks):
            ps = PsParser(toks, 0, len(toks), self.where, self.macros)
            ps.scan_only = self.scan_only
            ps.depth = self.depth + 1
            return ps

        def let_pat(self):
            x = self.peek()
            if x == "(":
                self.p += 1
                items = []
                while self.peek() != ")":
                    items.append(self.let_pat())
                    if self.peek() == ",":
                        self.p += 1
                    elif self.peek() != ")":
                        self.err("tuple pattern in `let`")
                self.p += 1
                return ("tup", items)
            m = False
            if x == "mut":
                m = True
                self.p += 1
                x = self.peek()
            if x == "_":
                self.p += 1
                return ("wild",)
            if not self.is_ident(x) or not re.fullmatch(r"[a-z_][a-z0-9_]*", x):
                self.err(f"pattern in `let`: {x!r}")
            self.p += 1
            return ("bind", x, m)

        def let_(self):
            self.eat("let")
            pat = self.let_pat()
            ty = None
            if self.peek() == ":":
                self.p += 1
                ty = self.type_until(("=", ";"))
            if self.peek() != "=":
                self.err("`let` without initialiser")
            self.p += 1
            e = self.expr()
            if self.peek() == "else":
                self.err("let-else")
            self.eat(";")
            return ("let", pat, ty, e)

        def while_(self):
            self.eat("while")
            save, self.struct_ok = self.struct_ok, False
            c = self.expr()
            self.struct_ok = save
            return ("while", c, self.block())

        def postfix(self):
            e = self.primary()
            while True:
                x = self.peek()
                if x == "?":
                    self.p += 1
                    e = ("try", e)
                    continue
                if x == "[" and self.peek(1) == "..":
                    self.p += 2
                    hi = self.expr()
                    self.eat("]")
                    e = ("index", e, ("range", ("int", 0, "usize"), hi))
                    continue
                if x in ("(", ".", "["):
                    if x == "(":
                        e = ("call", e, self.args())
                    elif x == "." and self.is_ident(self.peek(1)):
                        name = self.peek(1)
                        self.p += 2
                        gen = None
                        if self.peek() == "::":
                            self.p += 1
                            gen = self.generic_toks()
                        if self.peek() == "(":
                            e = ("mcall", e, name, self.args(), gen)
                        elif gen is not None:
                            self.err(f"generic arguments on field .{name}")
                        else:
                            e = ("field", e, name)
                    elif x == "." and self.peek(1) is not None and re.fullmatch(r"\d+", self.peek(1)):
                        e = ("tupidx", e, int(self.peek(1)))
                        self.p += 2
                    elif x == "[":
                        self.p += 1
                        idx = self.expr()
                        if self.peek() == "..":
                            self.p += 1
                            idx = ("range", idx, self.expr())
                        self.eat("]")
                        e = ("index", e, idx)
                    else:
                        self.err("postfix operator")
                    continue
                return e

        def primary(self):
            x = self.peek()
            if x == "move" and self.peek(1) in ("|", "||"):
                self.p += 1
                c = Base.primary(self)
                return ("closure", c[1], c[2], "move")
            if x == "continue":
                self.p += 1
                return ("continue",)
            if x == "(":
                # `(a..=b)` / `(a..b)`
                save = self.p
                self.p += 1
                if self.peek() != ")":
                    st, self.struct_ok = self.struct_ok, True
                    a = self.expr()
                    if self.peek() in ("..=", ".."):
                        incl = self.peek() == "..="
                        self.p += 1
                        b = self.expr()
                        self.struct_ok = st
                        self.eat(")")
                        return ("rangeexpr", a, b, incl)
                    self.struct_ok = st
                self.p = save
            return Base.primary(self)

        def macro(self, name, toks):
            if name == "error_position":
                ps = self.sub(toks)
                a = ps.expr()
                ps.eat(",")
                k = ps.expr()
                if ps.peek() is not None or k[0] != "path" or k[1][:3] != ["nom", "error", "ErrorKind"] or len(k[1]) != 4:
                    self.err("error_position! arguments")
                return ("errpos", a, k[1][3])
            return Base.macro(self, name, toks)

        def pattern(self):
            x = self.peek()
            if x is not None and re.fullmatch(r"\d.*", x) and self.peek(1) == "..=":
                lo, s1 = T.hdr_int_literal(x, self.where)
                hi, s2 = T.hdr_int_literal(self.peek(2), self.where)
                self.p += 3
                if s1 is not None or s2 is not None:
                    self.err("suffixed literal in a range pattern")
                return ("litrange", lo, hi)
            return Base.pattern(self)

    return PsParser


# ---------------------------------------------------------------------------------------------- translation

COMP_LEAN = {"Stream": "FlacVerif.Gen.Writer.Stream", "MetadataBlockData": "FlacVerif.Gen.Writer.MetadataBlockData", "MetadataBlock": "FlacVerif.Gen.Writer.MetadataBlock",
             "StreamInfo": "FlacVerif.StreamInfo", "Frame": "FlacVerif.Gen.Writer.Frame", "Residual": "FlacVerif.Residual", "Constant": "FlacVerif.SubFrame", "Verbatim": "FlacVerif.SubFrame",
             "FixedLpc": "FlacVerif.SubFrame", "Lpc": "FlacVerif.SubFrame", "SubFrame": "FlacVerif.SubFrame",
             "QuantizedParameters": "FlacVerif.QParams", "FrameHeader": "FlacVerif.Gen.Writer.FrameHeader"}
HDR_ENUMS = ("BlockSizeSpec", "SampleRateSpec", "SampleSizeSpec", "ChannelAssignment")
BITIN = "bitin"
BYTES = ("vec", "u8")


class PsTx:
    def __init__(self, items, files, consts, status):
        self.items = items
        self.files = files
        self.consts = consts
        self.status = status
        self.fns = {}
        self.order = []
        self.out = {}
        self.stack = []
        self.where = ""
        self.counter = 0
        self.steps = 0
        self.mon = "opt"
        self.casts = {}
        self.tvs = []
        self.used_nom = set()
        self.used_callees = set()
        self.used_hdr = set()
        self.Parser = make_parser_class()
        self.loop_exit = None
        self.ret_k = None
        self.taken = set()

    def err(self, msg):
        fail(f"{self.where}: {msg}")

    # ------------------------------------------------------------------ types
    def tv(self, intlit=False, what=""):
        t = TV(intlit, what)
        self.tvs.append(t)
        return t

    def unify(self, a, b, what):
        a, b = rs(a), rs(b)
        if a is b:
            return a
        if isinstance(a, TV):
            if a.intlit and not isinstance(b, TV) and not is_int(b):
                self.err(f"{what}: an integer literal where a value of type {b!r} is expected")
            if isinstance(b, TV) and b.intlit and not a.intlit:
                b.ref = a
                a.intlit = True
                return a
            a.ref = b
            return b
        if isinstance(b, TV):
            return self.unify(b, a, what)
        if isinstance(a, str) or isinstance(b, str):
            if a != b:
                self.err(f"{what}: types {self.show(a)} / {self.show(b)}")
            return a
        if a[0] != b[0] or len(a) != len(b):
            self.err(f"{what}: types {self.show(a)} / {self.show(b)}")
        if a[0] in ("comp", "hdr"):
            if a[1] != b[1]:
                self.err(f"{what}: types {self.show(a)} / {self.show(b)}")
            return a
        if a[0] == "tuple":
            if len(a[1]) != len(b[1]):
                self.err(f"{what}: tuples of different sizes")
            return ("tuple", [self.unify(x, y, what) for x, y in zip(a[1], b[1])])
        out = [a[0]]
        for x, y in zip(a[1:], b[1:]):
            if isinstance(x, int) and isinstance(y, int):
                if x != y:
                    self.err(f"{what}: capacities {x} / {y}")
                out.append(x)
            elif isinstance(x, int) or isinstance(y, int):
                tvv, n = (y, x) if isinstance(x, int) else (x, y)
                tvv = rs(tvv)
                if isinstance(tvv, TV):
                    tvv.ref = n
                elif tvv != n:
                    self.err(f"{what}: capacities {tvv} / {n}")
                out.append(n)
            else:
                out.append(self.unify(x, y, what))
        return tuple(out)

    def show(self, t):
        t = rs(t)
        if isinstance(t, TV):
            return f"?{t.id}"
        return repr(t)

    def pty(self, toks, what="type"):
        t = [x for x in toks if not x.startswith("'")]
        while t and t[0] in ("&", "mut"):
            t = t[1:]
        if not t:
            self.err(f"{what}: empty type")
        if len(t) == 1:
            x = t[0]
            if x in UBITS or x in SBITS or x == "bool":
                return x
            if x == "_":
                return self.tv(what=what)
            if x == "E":
                return "E"
        if t[0] == "BitInput" and t[1:] in ([], ["<", ">"]):
            return BITIN
        if t == ["[", "u8", "]"]:
            return BYTES
        if t[0] == "Vec" and t[1] == "<" and t[-1] == ">":
            return ("vec", self.pty(t[2:-1], what))
        if t[:2] == ["component", "::"] and len(t) == 3:
            if t[2] in HDR_ENUMS:
                return ("hdr", t[2])
            if t[2] in COMP_LEAN:
                return ("comp", t[2])
        if t[0] == "(" and t[-1] == ")":
            parts = T.wr_split_top(t[1:-1])
            return ("tuple", [self.pty(p, what) for p in parts if p])
        if t[0] == "Result" and t[1] == "<" and t[-1] == ">":
            parts = T.wr_split_top(t[2:-1])
            if len(parts) != 2 or parts[1] != ["VerifyError"]:
                self.err(f"{what}: Result type `{' '.join(toks)}`")
            return ("res", self.pty(parts[0], what))
        if t[0] == "IResult" and t[1] == "<" and t[-1] == ">":
            parts = T.wr_split_top(t[2:-1])
            if len(parts) != 3:
                self.err(f"{what}: IResult with {len(parts)} arguments")
            e = [x for x in parts[2] if not x.startswith("'")]
            if e not in (["E"], ["_"], ["(", "BitInput", "<", ">", ",", "nom", "::", "error", "::", "ErrorKind", ")"]):
                self.err(f"{what}: error type `{' '.join(parts[2])}`")
            return ("ires", self.pty(parts[0], what), self.pty(parts[1], what))
        if t[:3] == ["impl", "FnMut", "("]:
            d = 0
            for j in range(2, len(t)):
                if t[j] == "(":
                    d += 1
                elif t[j] == ")":
                    d -= 1
                    if d == 0:
                        break
            inp = self.pty(t[3:j], what)
            if t[j + 1] != "->":
                self.err(f"{what}: closure type")
            r = self.pty(t[j + 2:], what)
            if r[0] != "ires":
                self.err(f"{what}: closure type")
            self.unify(inp, r[1], what)
            return ("parser", r[1], r[2])
        self.err(f"{what}: type `{' '.join(toks)}`")

    def lty(self, ty):
        ty = rs(ty)
        if isinstance(ty, TV):
            return f"⟪LT{ty.id}⟫"
        if is_u(ty):
            return "Nat"
        if is_s(ty):
            return "Int"
        if ty == "bool":
            return "Bool"
        if ty == "unit":
            return "Unit"
        if ty == BITIN:
            return "List Bool"
        if ty[0] in ("vec", "hvec"):
            return "List " + par(self.lty(ty[1]))
        if ty[0] in ("opt", "res", "nres"):
            return "Option " + par(self.lty(ty[1]))
        if ty[0] == "tuple":
            return "(" + " × ".join(par(self.lty(x)) for x in ty[1]) + ")"
        if ty[0] == "comp":
            return COMP_LEAN[ty[1]]
        if ty[0] == "hdr":
            return f"FlacVerif.Gen.Headers.{ty[1]}"
        if ty[0] == "foff":
            return "FlacVerif.Gen.Verify.FrameOffset"
        if ty[0] == "ires":
            return f"PM ({par(self.lty(ty[1]))} × {par(self.lty(ty[2]))})"
        if ty[0] == "parser":
            return f"{par(self.lty(ty[1]))} → PM ({par(self.lty(ty[1]))} × {par(self.lty(ty[2]))})"
        self.err(f"no Lean type for {ty!r}")

    def width(self, ty):
        ty = rs(ty)
        if isinstance(ty, TV):
            return f"⟪W{ty.id}⟫"
        if not is_int(ty):
            self.err(f"width of the non-integer type {ty!r}")
        return str(bits_of(ty))

    def fresh(self, hint="v"):
        while True:
            self.counter += 1
            n = f"{hint}{self.counter}"
            if n not in self.taken:
                return n

    def lit(self, v, ty):
        ty = rs(ty)
        if isinstance(ty, TV):
            return f"⟪LIT{ty.id}:{v}⟫"
        if is_s(ty):
            return f"({v} : Int)"
        return str(v)

    def known_int(self, ty, what):
        ty = rs(ty)
        if isinstance(ty, TV):
            if ty.intlit:
                ty.ref = "i32"
                return "i32"
            self.err(f"{what}: the operand type is not determined at this point")
        if not is_int(ty):
            self.err(f"{what}: operand of type {ty!r}")
        return ty

    # ------------------------------------------------------------------ steps
    def ret_ok(self, lean):
        if self.mon == "vr":
            return f"some (some {par(lean)})"
        return f"okP {par(lean)}" if self.mon == "pm" else f"some {par(lean)}"

    def step(self, term, ty, k, hint=None):
        """one step that can panic (Option): `(term).bind fun n => rest`"""
        self.steps += 1
        n = T.wr_mangle(hint) if hint else self.fresh()
        return f"({term}).bind fun {n} =>\n{k(V(n, ty))}"

    def pat_lean(self, pat, ty, env, what):
        """bind the names of a `let` pattern; -> lean pattern text"""
        ty = rs(ty)
        if pat[0] == "wild":
            return "_"
        if pat[0] == "bind":
            if pat[1] in PS_RESERVED:
                self.err(f"local `{pat[1]}` collides with a name of the generated prelude")
            if pat[1].startswith("_"):
                env[pat[1]] = V("_", ty)
                return "_"
            ln = T.wr_mangle(pat[1])
            env[pat[1]] = V(ln, ty)
            return ln
        if pat[0] == "tup":
            if isinstance(ty, TV):
                ty = self.unify(ty, ("tuple", [self.tv() for _ in pat[1]]), what)
            if ty[0] != "tuple" or len(ty[1]) != len(pat[1]):
                self.err(f"{what}: tuple pattern for a value of type {self.show(ty)}")
            return "(" + ", ".join(self.pat_lean(p, t, env, what) for p, t in zip(pat[1], ty[1])) + ")"
        self.err(f"{what}: pattern {pat!r}")

    def bind_pm(self, v, k_pat):
        """`?` on an IResult / nom-Result value: -> text; k_pat(component value V) produces the rest"""
        self.steps += 1
        ty = rs(v.ty)
        if ty[0] == "ires":
            n = self.fresh("r")
            return f"bindP {par(v.lean)} fun {n} =>\n{k_pat(V(n, ('tuple', [ty[1], ty[2]])))}"
        if ty[0] == "nres":
            n = self.fresh("r")
            return f"bindO {par(v.lean)} fun {n} =>\n{k_pat(V(n, ty[1]))}"
        if ty[0] == "res" and self.mon == "vr":
            n = self.fresh("r")
            return f"bindR {par(v.lean)} fun {n} =>\n{k_pat(V(n, ty[1]))}"
        self.err(f"`?` on a value of type {self.show(ty)}")

    # ------------------------------------------------------------------ expressions (CPS)
    def strip(self, e):
        while e[0] == "paren" or (e[0] == "un" and e[1] in ("&", "*")):
            e = e[1] if e[0] == "paren" else e[2]
        return e

    def is_nom_error(self, e):
        """`nom::Err::Error(error_position!(x, nom::error::ErrorKind::K))`"""
        e = self.strip(e)
        if e[0] == "block" and not e[1] and e[2] is not None:
            return self.is_nom_error(e[2])
        return (e[0] == "call" and e[1][0] == "path" and e[1][1] == ["nom", "Err", "Error"] and len(e[2]) == 1
                and self.strip(e[2][0])[0] == "errpos")

    def tx(self, e, env, want, k):
        kind = e[0]
        if kind == "paren":
            return self.tx(e[1], env, want, k)
        if kind == "int":
            v, suf = e[1], e[2]
            if suf is not None:
                ty = suf
            else:
                w = rs(want) if want is not None else None
                ty = w if (is_int(w) or isinstance(w, TV)) else self.tv(True, "literal")
                if isinstance(ty, TV):
                    lt = self.tv(True, "literal")
                    self.unify(ty, lt, "literal")
                    ty = rs(ty)
            if is_int(ty):
                lo, hi = (0, 2 ** bits_of(ty)) if is_u(ty) else (-2 ** (bits_of(ty) - 1), 2 ** (bits_of(ty) - 1))
                if not lo <= v < hi:
                    self.err(f"literal {v} does not fit {ty}")
            return k(V(self.lit(v, ty), ty, v))
        if kind == "boollit":
            return k(V("true" if e[1] else "false", "bool"))
        if kind == "var":
            name = e[1]
            if name in env:
                return k(env[name])
            if name in self.consts:
                return k(V(str(self.consts[name][0]), self.consts[name][1], self.consts[name][0]))
            if name == "None":
                return k(V("none", ("opt", self.tv(what="payload of None"))))
            if name in ("be_u8", "be_u16", "be_u24"):
                self.nom(name)
                self.check_use(name)
                n = {"be_u8": 1, "be_u16": 2, "be_u24": 3}[name]
                return k(V(f"(beU {n})", ("parser", BYTES, {1: "u8", 2: "u16", 3: "u32"}[n])))
            if name in self.items.fns:
                rec = self.need(name)
                if rec["kind"] == "ires" and len(rec["ptys"]) == 1:
                    return k(V(f"({name} dbg)", ("parser", rec["ret"][1], rec["ret"][2])))
            self.err(f"unknown name `{name}`")
        if kind == "un":
            if e[1] in ("*", "&"):
                return self.tx(e[2], env, want, k)
            if e[1] == "!":
                return self.tx(e[2], env, "bool", lambda a: k(V(f"(!{par(a.lean)})", self.unify(a.ty, "bool", "`!`"))))
            self.err(f"unary `{e[1]}`")
        if kind == "cast":
            return self.tx(e[1], env, None, lambda a: k(self.cast(a, e[2])))
        if kind == "bin":
            return self.tx_bin(e, env, want, k)
        if kind == "tuple":
            vals = []

            def item(i):
                if i == len(e[1]):
                    return k(V("(" + ", ".join(v.lean for v in vals) + ")", ("tuple", [v.ty for v in vals])))
                w = None
                wr = rs(want) if want is not None else None
                if isinstance(wr, tuple) and wr[0] == "tuple" and len(wr[1]) == len(e[1]):
                    w = wr[1][i]
                return self.tx(e[1][i], env, w, lambda v: (vals.append(v), item(i + 1))[1])
            return item(0)
        if kind == "if":
            return self.tx_if(e, env, want, k)
        if kind == "match":
            return self.tx_match(e, env, want, k)
        if kind == "block":
            return self.walk(e[1], e[2], env, lambda env2, v: k(v if v is not None else V("()", "unit")), want)
        if kind == "call":
            return self.tx_call(e, env, want, k)
        if kind == "mcall":
            return self.tx_mcall(e, env, want, k)
        if kind == "try":
            return self.tx(e[1], env, None, lambda v: self.bind_pm(v, k))
        if kind == "index":
            return self.tx_index(e, env, k)
        if kind == "return":
            return self.tx_return(e, env)
        if kind == "field":
            def fld(r):
                t = rs(r.ty)
                if not (isinstance(t, tuple) and t[0] == "comp" and (t[1], e[2]) in PS_FIELDS):
                    self.err(f"field access `.{e[2]}` on a value of type {self.show(t)}")
                text, proj, fty = PS_FIELDS[(t[1], e[2])]
                dtt = re.sub(r"# \[ [^\]]*\] ", "", " ".join(self.files["datatype.rs"].toks))
                if text not in dtt:
                    self.err(f"datatype.rs: `{text}` not found")
                return k(V(f"{par(r.lean)}.{proj}", fty))
            return self.tx(e[1], env, None, fld)
        if kind == "array" and not e[1]:
            return k(V("[]", ("vec", self.tv(what="vector element"))))
        if kind == "path":
            segs = e[1]
            if len(segs) == 3 and segs[0] == "component" and segs[1] in HDR_ENUMS:
                dt = self.files["datatype.rs"]
                variants = {v: payload for v, payload, _, _ in dt.enums.get(segs[1], [])}
                if segs[2] in variants and not variants[segs[2]]:
                    return k(V(f"FlacVerif.Gen.Headers.{segs[1]}.{segs[2]}", ("hdr", segs[1])))
            if len(segs) == 2 and segs[1] == "MAX" and segs[0] in UBITS:
                return k(V(str(2 ** UBITS[segs[0]] - 1), segs[0], 2 ** UBITS[segs[0]] - 1))
            self.err(f"path `{'::'.join(segs)}`")
        self.err(f"expression kind `{kind}`")

    def tx_return(self, e, env):
        if e[1] is None:
            self.err("`return` without a value")
        x = self.strip(e[1])
        if x[0] == "call" and x[1] == ("var", "Err") and len(x[2]) == 1 and self.is_nom_error(x[2][0]) and self.mon == "pm":
            return "errP"
        self.err("`return` of something other than `Err(nom::Err::Error(error_position!(..)))`")

    def cast(self, a, ty):
        s = rs(a.ty)
        if isinstance(s, TV):
            if a.lit is not None:
                self.unify(s, ty, "cast of a literal")
                return V(self.lit(a.lit, ty), ty, a.lit)
            self.counter += 1
            key = f"⟪CAST{self.counter}⟫"
            self.casts[key] = (s, ty, a.lean)
            return V(key, ty)
        return V(self.cast_text(s, ty, a.lean), ty)

    def cast_text(self, s, ty, lean):
        if s == "bool":
            return f"(if {lean} then {self.lit(1, ty)} else {self.lit(0, ty)})"
        if not is_int(s):
            self.err(f"cast of a value of type {s!r}")
        ws, wt = bits_of(s), bits_of(ty)
        if is_u(s) and is_u(ty):
            return lean if wt >= ws else f"({lean} % {2 ** wt})"
        if is_u(s) and is_s(ty):
            return f"({lean} : Int)" if wt > ws else f"(wrapS {wt} ({lean} : Int))"
        if is_s(s) and is_s(ty):
            return lean if wt >= ws else f"(wrapS {wt} {par(lean)})"
        return f"(castU {wt} {par(lean)})"

    def tx_bin(self, e, env, want, k):
        op, l, r = e[1], e[2], e[3]
        if op in ("&&", "||"):
            before = self.steps

            def both(a, b):
                if self.steps != before:
                    self.err(f"an operand of `{op}` can panic or fail")
                return k(V(f"({a.lean} {op} {b.lean})", "bool"))
            return self.tx(l, env, "bool", lambda a: self.tx(r, env, "bool", lambda b: both(a, b)))
        if op in ("<<", ">>"):
            def sh_l(a):
                at = self.known_int(a.ty, f"`{op}`")
                w = bits_of(at)

                def fin_(kk):
                    if op == "<<":
                        t = f"(shlU {w} {par(a.lean)} {par(kk)})" if is_u(at) else f"(shlS {w} {par(a.lean)} {par(kk)})"
                    else:
                        t = f"(shrU {par(a.lean)} {par(kk)})" if is_u(at) else f"(shrS {par(a.lean)} {par(kk)})"
                    return k(V(t, at))

                def sh_r(b):
                    if b.lit is not None:
                        if rs(b.ty).__class__ is TV:
                            self.known_int(b.ty, "shift amount")
                        if 0 <= b.lit < w:
                            return fin_(str(b.lit))
                        return self.step(f"shAmt dbg {w} {b.lit}", "u32", lambda kk: fin_(kk.lean))
                    bt = self.known_int(b.ty, "shift amount")
                    if not is_u(bt):
                        self.err(f"shift amount of type {bt!r}")
                    return self.step(f"shAmt dbg {w} {par(b.lean)}", "u32", lambda kk: fin_(kk.lean))
                return self.tx(r, env, None, sh_r)
            return self.tx(l, env, want, sh_l)
        cmp_ = op in ("==", "!=", "<", ">", "<=", ">=")

        def bl(a):
            def br(b):
                t = self.unify(a.ty, b.ty, f"`{op}`")
                if cmp_:
                    sym = {"==": "=", "!=": "≠", "<": "<", ">": ">", "<=": "≤", ">=": "≥"}[op]
                    return k(V(f"(decide ({a.lean} {sym} {b.lean}))", "bool"))
                t = self.known_int(t, f"`{op}`")
                w = bits_of(t)
                if op in ("+", "-", "*"):
                    if is_u(t):
                        f = {"+": "addU", "-": "subU", "*": "mulU"}[op]
                        return self.step(f"{f} dbg {w} {par(a.lean)} {par(b.lean)}", t, k)
                    return self.step(f"arithS dbg {w} ({a.lean} {op} {b.lean})", t, k)
                if op == "/" and is_u(t):
                    if b.lit is not None and b.lit != 0:
                        return k(V(f"({a.lean} / {b.lean})", t))
                    return self.step(f"divU {par(a.lean)} {par(b.lean)}", t, k)
                if op in ("&", "|") and is_u(t):
                    return k(V(f"({a.lean} {'&&&' if op == '&' else '|||'} {b.lean})", t))
                self.err(f"operator `{op}` on {t}")
            return self.tx(r, env, a.ty if not cmp_ or True else None, br)
        lw = None if cmp_ else want
        # a literal on the left takes the type of the right operand
        if self.strip(l)[0] == "int" and self.strip(l)[2] is None and lw is None:
            return self.tx(r, env, None, lambda b: self.tx(l, env, b.ty, lambda a: self.swap_bin(op, a, b, cmp_, k)))
        return self.tx(l, env, lw, bl)

    def swap_bin(self, op, a, b, cmp_, k):
        t = self.unify(a.ty, b.ty, f"`{op}`")
        if cmp_:
            sym = {"==": "=", "!=": "≠", "<": "<", ">": ">", "<=": "≤", ">=": "≥"}[op]
            return k(V(f"(decide ({a.lean} {sym} {b.lean}))", "bool"))
        self.err(f"`{op}` with a literal left operand whose type is not determined")

    def tx_index(self, e, env, k):
        def ix(r):
            rt = rs(r.ty)
            if not (isinstance(rt, tuple) and rt[0] == "vec"):
                self.err(f"indexing a value of type {self.show(rt)}")
            if e[2][0] == "range":
                return self.tx(e[2][1], env, "usize", lambda a: self.tx(e[2][2], env, "usize", lambda b: self.step(
                    f"sliceR {par(r.lean)} {par(a.lean)} {par(b.lean)}", rt, k)))
            return self.tx(e[2], env, "usize", lambda i: self.step(f"{par(r.lean)}[{i.lean}]?", rt[1], k))
        return self.tx(e[1], env, None, ix)

    def branch_value(self, make_branches, want, k):
        """value-position `if` / `match`: every branch is translated with a continuation returning its value; pure branches
        give a pure term, otherwise the whole expression is one monadic step"""
        before = self.steps
        tys = []

        def kb(v):
            tys.append(v.ty)
            return "\0" + v.lean + "\1"
        text = make_branches(kb)
        ty = tys[0] if tys else (want if want is not None else self.tv())
        for t in tys[1:]:
            ty = self.unify(ty, t, "branches")
        if want is not None and tys:
            rw = rs(want)
            if not (isinstance(rw, TV) and rw.intlit is False and False):
                ty = self.unify(ty, want, "branch value")
        n = self.fresh("b")
        if self.steps == before and "errP" not in text:
            pure = re.sub("\0(.*?)\1", lambda m: m.group(1), text, flags=re.S)
            return f"let {n} : {self.lty(ty)} := {par(pure)}\n{k(V(n, ty))}"
        self.steps += 1
        wrapped = re.sub("\0(.*?)\1", lambda m: self.ret_ok(m.group(1)), text, flags=re.S)
        if self.mon == "pm":
            return f"bindP {par(wrapped)} fun {n} =>\n{k(V(n, ty))}"
        return f"{par(wrapped)}.bind fun {n} =>\n{k(V(n, ty))}"

    def is_ires(self, want):
        w = rs(want) if want is not None else None
        return isinstance(w, tuple) and w[0] == "ires"

    def tx_if(self, e, env, want, k):
        if e[3] is None:
            self.err("`if` without `else` used as a value")
        if self.is_ires(want):
            def c0(cv):
                self.unify(cv.ty, "bool", "condition")
                a = self.tx(e[2], dict(env), want, k)
                b = self.tx(e[3], dict(env), want, k)
                return f"if {cv.lean} then\n{ind(a)}\nelse\n{ind(b)}"
            return self.tx(e[1], env, "bool", c0)

        def chain(kb, node):
            def c(cv):
                self.unify(cv.ty, "bool", "condition")
                a = self.tx(node[2], dict(env), want, kb)
                b = chain(kb, node[3]) if node[3][0] == "if" else self.tx(node[3], dict(env), want, kb)
                return f"if {cv.lean} then\n{ind(a)}\nelse\n{ind(b)}"
            before = self.steps
            out = self.tx(node[1], env, "bool", c)
            return out
        return self.branch_value(lambda kb: chain(kb, e), want, k)

    def tx_match(self, e, env, want, k):
        def go(sv):
            st = self.known_int(sv.ty, "match scrutinee") if not (isinstance(rs(sv.ty), tuple)) else rs(sv.ty)
            if not is_int(st):
                self.err(f"match on a value of type {self.show(st)}")

            def rows(kb):
                out = ""
                total = False
                for alts, guard, body in e[2]:
                    if guard is not None:
                        self.err("match guard")
                    if total:
                        self.err("match arm after a wildcard arm")
                    conds = []
                    for a in alts:
                        if a[0] == "wild":
                            total = True
                        elif a[0] == "lit":
                            conds.append(f"{sv.lean} = {a[1]}")
                        elif a[0] == "litrange":
                            conds.append(f"({a[1]} ≤ {sv.lean} ∧ {sv.lean} ≤ {a[2]})")
                        else:
                            self.err(f"pattern {a!r} in a match on an integer")
                    b = self.tx(body, dict(env), want, kb)
                    if b.strip() == "errP" and not self.is_ires(want):
                        b = "errP"
                    if total:
                        out += f"\n{ind(b)}"
                    else:
                        out += f"if {' ∨ '.join(conds)} then\n{ind(b)}\nelse "
                if not total:
                    self.err("match on an integer without a wildcard arm")
                return out
            if self.is_ires(want):
                return rows(k)
            return self.branch_value(rows, want, k)
        return self.tx(e[1], env, None, go)

    # ------------------------------------------------------------------ closures
    def closure(self, c, ptys, mode, env, want=None):
        """-> (lean `fun p.. => body`, result type); mode "pm": the body is an IResult, "opt": a plain value (`some v`)"""
        if c[0] != "closure":
            self.err("expected a closure")
        ps = c[1]
        if len(ps) != len(ptys):
            self.err(f"closure with {len(ps)} parameters where {len(ptys)} are expected")
        env2 = dict(env)
        names = []
        for p, pt in zip(ps, ptys):
            nm, ty = (p, None) if isinstance(p, str) else p
            if ty is not None:
                self.unify(pt, self.pty(ty, "closure parameter"), "closure parameter")
            if nm in ("_", "()") or nm.startswith("_"):
                names.append("_")
                continue
            if nm in PS_RESERVED:
                self.err(f"closure parameter `{nm}` collides with a name of the generated prelude")
            env2[nm] = V(T.wr_mangle(nm), pt)
            names.append(T.wr_mangle(nm))
        saved = (self.mon, self.loop_exit)
        self.mon, self.loop_exit = mode, None
        box = []
        try:
            if mode == "pm":
                def fin(v):
                    t = rs(v.ty)
                    if not (isinstance(t, tuple) and t[0] == "ires"):
                        self.err(f"closure used as a parser returns a value of type {self.show(t)}")
                    box.append(t)
                    return v.lean
            elif mode == "pure":
                def fin(v):
                    box.append(v.ty)
                    return v.lean
            else:
                def fin(v):
                    box.append(v.ty)
                    return f"some {par(v.lean)}"
            body = self.tx(c[2], env2, want, fin)
        finally:
            self.mon, self.loop_exit = saved
        ty = box[0]
        for t in box[1:]:
            ty = self.unify(ty, t, "closure result")
        return f"(fun {' '.join(names) or '_'} =>\n{ind(body, 4)})", ty

    # ------------------------------------------------------------------ calls
    def args_then(self, args, wants, env, k):
        vals = []

        def go(i):
            if i == len(args):
                return k(vals)
            return self.tx(args[i], env, wants[i] if i < len(wants) else None, lambda v: (vals.append(v), go(i + 1))[1])
        return go(0)

    def nom(self, name):
        if name not in PS_NOM:
            self.err(f"nom item `{name}` has no reading")
        self.used_nom.add(name)

    def parser_value(self, name, args, env, want, k):
        """a nom combinator applied to its arguments -> parser value"""
        self.nom(name)
        if name == "bit_take":
            if len(args) != 1:
                self.err("bit_take arguments")
            o = self.tv(what="output type of bit_take")
            return self.tx(args[0], env, "usize", lambda n: (self.unify(n.ty, "usize", "bit_take count"), k(V(
                f"(takeBits {self.width(o)} {par(n.lean)})", ("parser", BITIN, o))))[1])
        if name == "bit_tag":
            if len(args) != 2:
                self.err("bit_tag arguments")
            def tg(p, n):
                self.unify(n.ty, "usize", "bit_tag count")
                if p.lit is None or p.lit < 0:
                    self.err("bit_tag pattern that is not a non-negative literal")
                return k(V(f"(tagBits {self.width(p.ty)} {p.lit} {par(n.lean)})", ("parser", BITIN, p.ty)))
            return self.tx(args[0], env, None, lambda p: self.tx(args[1], env, "usize", lambda n: tg(p, n)))
        if name == "byte_take":
            def bt(n):
                if not is_u(self.known_int(n.ty, "byte_take count")):
                    self.err("byte_take count of a signed type")
                return k(V(f"(byteTake {par(n.lean)})", ("parser", BYTES, BYTES)))
            return self.tx(args[0], env, None, bt)
        if name == "many0_count":
            return self.tx(args[0], env, None, lambda p: k(V(f"(many0Count {p.lean})", ("parser", self.ptype(p)[1], "usize"))))
        if name == "bits" and self.strip(args[0])[0] != "closure":
            def bp(q):
                qt = self.ptype(q)
                self.unify(qt[1], BITIN, "bits(..)")
                return k(V(f"(bitsP {q.lean})", ("parser", BYTES, qt[2])))
            return self.tx(args[0], env, None, bp)
        if name == "bits":
            lam, ty = self.closure(args[0], [BITIN], "pm", env)
            self.unify(ty[1], BITIN, "bits(..)")
            return k(V(f"(bitsP {lam})", ("parser", BYTES, ty[2])))
        if name == "alt":
            a = self.strip(args[0])
            if len(args) != 1 or a[0] != "tuple" or len(a[1]) < 2:
                self.err("alt arguments")
            return self.args_then(a[1], [None] * len(a[1]), env, lambda ps: self.alt_(ps, k))
        if name == "into":
            def conv(p):
                pt = self.ptype(p)
                src = rs(pt[2])
                if not (isinstance(src, tuple) and src[0] == "comp" and (src[1], "SubFrame") in PS_INTO):
                    self.err(f"into(..) of a parser of {self.show(src)}")
                return k(V(p.lean, ("parser", pt[1], ("comp", "SubFrame"))))
            return self.tx(args[0], env, None, conv)
        if name == "map":
            def mp(p):
                pt = self.ptype(p)
                f = self.strip(args[1])
                if f[0] == "closure":
                    wr_ = rs(want) if want is not None else None
                    cw = wr_[2] if isinstance(wr_, tuple) and wr_[0] == "parser" else None
                    lam, rty = self.closure(f, [pt[2]], "opt", env, cw)
                    return k(V(f"(mapP {p.lean} {lam})", ("parser", pt[1], rty)))
                if f[0] == "path" and f[1] == ["Into", "into"]:
                    src = rs(pt[2])
                    if not (isinstance(src, tuple) and src[0] == "comp" and src[1] in PS_INTO_FROM):
                        self.err(f"map(.., Into::into) of a parser of {self.show(src)}")
                    dst, ctor, text = PS_INTO_FROM[src[1]]
                    if text not in " ".join(self.files["datatype.rs"].toks):
                        self.err(f"datatype.rs: `{text}` not found")
                    return k(V(f"(mapP {p.lean} (fun x => some ({ctor} x)))", ("parser", pt[1], ("comp", dst))))
                if f[0] == "path" and f[1][0] == "FrameOffset" and len(f[1]) == 2:
                    arg = {"Frame": "u32", "StartSample": "u64"}.get(f[1][1])
                    if arg is None:
                        self.err("FrameOffset variant")
                    self.check_use("FrameOffset")
                    self.check_frame_offset()
                    self.unify(pt[2], arg, "FrameOffset payload")
                    return k(V(f"(mapP {p.lean} (fun x => some (FlacVerif.Gen.Verify.FrameOffset.{f[1][1]} x)))", ("parser", pt[1], ("foff",))))
                self.err("second argument of map")
            return self.tx(args[0], env, None, mp)
        if name == "byte_tag":
            a0 = self.strip(args[0])
            if len(args) != 1 or a0[0] != "str" or not re.fullmatch(r'"[A-Za-z0-9]*"', a0[1]):
                self.err("byte_tag argument that is not a plain ASCII string literal")
            bytes_ = ", ".join(str(ord(ch)) for ch in a0[1][1:-1])
            return k(V(f"(byteTagP [{bytes_}])", ("parser", BYTES, BYTES)))
        if name == "many_till":
            if len(args) != 2 or self.strip(args[1]) != ("path", ["nom", "combinator", "eof"]):
                self.err("many_till whose second parser is not nom::combinator::eof")

            def mt(p):
                pt = self.ptype(p)
                self.unify(pt[1], BYTES, "many_till input")
                return k(V(f"(manyTillEof {p.lean})", ("parser", BYTES, ("tuple", [("vec", pt[2]), BYTES]))))
            return self.tx(args[0], env, None, mt)
        if name == "many_m_n":
            if len(args) != 3 or args[0] != args[1]:
                self.err("many_m_n(min, max, f) with min and max not the same expression")
            c = self.strip(args[2])
            if c[0] != "closure" or len(c[1]) != 1:
                self.err("third argument of many_m_n")
            state = self.assigned(c[2], env)

            def mm(n):
                self.unify(n.ty, "usize", "many_m_n count")
                env2 = dict(env)
                pn = c[1][0] if isinstance(c[1][0], str) else c[1][0][0]
                inp = self.tv(what="input of the many_m_n closure")
                env2[pn] = V(T.wr_mangle(pn), inp)
                for s_ in state:
                    env2[s_] = V(T.wr_mangle(s_), env[s_].ty)
                sp = self.state_pat(state, env2)
                saved = (self.mon, self.loop_exit)
                self.mon, self.loop_exit = "pm", None
                box = []
                try:
                    def fin(env3, v):
                        t = rs(v.ty)
                        if not (isinstance(t, tuple) and t[0] == "ires"):
                            self.err("the many_m_n closure does not return an IResult")
                        box.append(t)
                        return f"some ({self.state_pat(state, env3)}, {v.lean})"
                    if c[2][0] != "block":
                        self.err("body of the many_m_n closure")
                    body = self.walk(c[2][1], c[2][2], env2, fin)
                finally:
                    self.mon, self.loop_exit = saved
                t = box[0]
                self.unify(t[1], inp, "input of the many_m_n closure")
                s0 = self.state_pat(state, env)
                for s_ in state:
                    del env[s_]      # the captured variable must not be read afterwards (its final value is not threaded)
                return k(V(f"(manyMNS {par(n.lean)} {s0} (fun {sp} {T.wr_mangle(pn)} =>\n{ind(body, 4)}))", ("parser", t[1], ("vec", t[2]))))
            return self.tx(args[0], env, "usize", mm)
        if name == "verify":
            def vf(p):
                pt = self.ptype(p)
                lam, rty = self.closure(self.strip(args[1]), [pt[2]], "opt", env)
                self.unify(rty, "bool", "verify predicate")
                return k(V(f"(verifyP {p.lean} {lam})", ("parser", pt[1], pt[2])))
            return self.tx(args[0], env, None, vf)
        self.err(f"nom combinator `{name}`")

    def alt_(self, ps, k):
        pt = self.ptype(ps[0])
        for p in ps[1:]:
            q = self.ptype(p)
            self.unify(pt[1], q[1], "alt input")
            self.unify(pt[2], q[2], "alt output")
        term = ps[-1].lean
        for p in reversed(ps[:-1]):
            term = f"(altP {p.lean} {term})"
        return k(V(term, pt))

    def ptype(self, p):
        t = rs(p.ty)
        if not (isinstance(t, tuple) and t[0] == "parser"):
            self.err(f"a parser is expected, found a value of type {self.show(t)}")
        return t

    def local_name(self, n):
        base = n.split("<")[0]
        if base != n:
            g = n[len(base):]
            if g not in ("<E>", "<(BitInput<'a>,nom::error::ErrorKind)>"):
                self.err(f"generic arguments `{g}`")
        return base

    def tx_call(self, e, env, want, k):
        c, args = e[1], e[2]
        if c[0] == "call":
            # `P(args)(input)`
            def app(p):
                pt = self.ptype(p)
                if len(args) != 1:
                    self.err("a parser is applied to one input")
                return self.tx(args[0], env, pt[1], lambda i: (self.unify(i.ty, pt[1], "parser input"), k(V(
                    f"{p.lean} {par(i.lean)}", ("ires", pt[1], pt[2]))))[1])
            wr_ = rs(want) if want is not None else None
            wp = ("parser", wr_[1], wr_[2]) if isinstance(wr_, tuple) and wr_[0] == "ires" else None
            return self.tx(c, env, wp, app)
        if c[0] == "var":
            name = self.local_name(c[1])
            if name in env and isinstance(env[name].ty, tuple) and env[name].ty[0] == "closure0" and not args:
                c0, cenv = env[name].ty[1], env[name].ty[2]
                saved = (self.mon, self.loop_exit)
                self.mon, self.loop_exit = "vr", None
                box = []
                try:
                    def fin(v):
                        t = rs(v.ty)
                        if not (isinstance(t, tuple) and t[0] == "res"):
                            self.err("a closure called as a function does not return a Result<_, VerifyError>")
                        box.append(t)
                        return f"some {par(v.lean)}"
                    body = self.tx(c0[2], dict(cenv), None, fin)
                finally:
                    self.mon, self.loop_exit = saved
                return self.step("\n" + ind(body, 4), box[0], k)
            if name in env:
                p = env[name]
                pt = self.ptype(p)
                return self.tx(args[0], env, pt[1], lambda i: k(V(f"{p.lean} {par(i.lean)}", ("ires", pt[1], pt[2]))))
            if name == "Ok" and len(args) == 1 and self.mon == "vr":
                return self.tx(args[0], env, None, lambda v: k(V(f"(some {par(v.lean)})", ("res", v.ty))))
            if name == "Ok" and len(args) == 1:
                def ok(v):
                    t = rs(v.ty)
                    if not (isinstance(t, tuple) and t[0] == "tuple" and len(t[1]) == 2):
                        self.err("Ok(..) of something other than (rest, value)")
                    return k(V(f"okP {par(v.lean)}", ("ires", t[1][0], t[1][1])))
                w = rs(want) if want is not None else None
                wt = ("tuple", [w[1], w[2]]) if isinstance(w, tuple) and w[0] == "ires" else None
                return self.tx(args[0], env, wt, ok)
            if name == "Err" and len(args) == 1 and self.is_nom_error(args[0]):
                return k(V("errP", ("ires", self.tv(), self.tv())))
            if name == "Some" and len(args) == 1:
                return self.tx(args[0], env, None, lambda v: k(V(f"(some {par(v.lean)})", ("opt", v.ty))))
            if name in ("be_u8", "be_u16", "be_u24"):
                self.nom(name)
                self.check_use(name)
                n = {"be_u8": 1, "be_u16": 2, "be_u24": 3}[name]
                return self.tx(args[0], env, BYTES, lambda i: k(V(f"beU {n} {par(i.lean)}", ("ires", BYTES, {1: "u8", 2: "u16", 3: "u32"}[n]))))
            if name in PS_NOM and name in PS_USES:
                self.check_use(name)
                return self.parser_value(name, args, env, want, k)
            if name == "many_m_n":
                self.check_use_text("use nom :: multi :: many_m_n ;")
                return self.parser_value(name, args, env, want, k)
            if name in ("byte_tag", "many_till"):
                self.check_use(name)
                return self.parser_value(name, args, env, want, k)
            if name in self.items.fns:
                return self.local_call(name, args, env, k)
            self.err(f"call of `{name}`")
        if c[0] == "path":
            segs = [self.local_name(s) if i == len(c[1]) - 1 else s for i, s in enumerate(c[1])]
            if segs == ["nom", "multi", "many0_count"]:
                return self.parser_value("many0_count", args, env, want, k)
            if segs == ["Vec", "with_capacity"] and len(args) == 1:
                return self.tx(args[0], env, "usize", lambda n: k(V("[]", ("vec", self.tv(what="vector element")))))
            if len(segs) == 2 and segs[1] == "from" and (segs[0] in UBITS or segs[0] in SBITS) and len(args) == 1:
                return self.tx(args[0], env, None, lambda a: k(self.widen(a, segs[0])))
            if segs == ["i32", "try_from"] and len(args) == 1:
                return self.tx(args[0], env, None, lambda a: k(V(a.lean, ("tryfrom", self.known_int(a.ty, "i32::try_from"), "i32"))))
            if segs == ["heapless", "Vec", "try_from"] and len(args) == 1:
                def hv(a):
                    t = rs(a.ty)
                    if not (isinstance(t, tuple) and t[0] == "vec"):
                        self.err("heapless::Vec::try_from of a non-slice")
                    cap = self.tv(what="capacity of a heapless::Vec")
                    return k(V(f"(fromSliceH ⟪CAP{cap.id}⟫ {par(a.lean)})", ("ures", ("hvec", t[1], cap))))
                return self.tx(args[0], env, None, hv)
            if len(segs) == 2 and segs[0] == "FrameOffset" and segs[1] in ("Frame", "StartSample") and len(args) == 1:
                self.check_use("FrameOffset")
                self.check_frame_offset()
                pt = {"Frame": "u32", "StartSample": "u64"}[segs[1]]
                return self.tx(args[0], env, pt, lambda a: (self.unify(a.ty, pt, "FrameOffset payload"), k(V(
                    f"(FlacVerif.Gen.Verify.FrameOffset.{segs[1]} {par(a.lean)})", ("foff",))))[1])
            if len(segs) == 3 and segs[0] == "component":
                return self.comp_call(segs[1], segs[2], args, env, k)
            self.err(f"call of `{'::'.join(c[1])}`")
        self.err("call of a computed function")

    def check_use_text(self, text):
        if text not in " ".join(self.items.toks):
            self.err(f"`{text}` is not in parser.rs")

    def check_use(self, name):
        t = " ".join(self.items.toks)
        if PS_USES[name] not in t:
            self.err(f"`{name}` is used but `{PS_USES[name]}` is not in parser.rs")

    def widen(self, a, ty):
        s = self.known_int(a.ty, f"{ty}::from") if not isinstance(rs(a.ty), TV) or rs(a.ty).intlit else None
        if s is None:
            # the source type is a type variable: a lossless widening needs it; decided when it is known
            self.counter += 1
            key = f"⟪WIDEN{self.counter}⟫"
            self.casts[key] = (rs(a.ty), ty, a.lean)
            return V(key, ty)
        return V(self.widen_text(s, ty, a.lean), ty)

    def widen_text(self, s, ty, lean):
        ws, wt = bits_of(s), bits_of(ty)
        if is_u(s) and is_u(ty) and ws <= wt:
            return lean
        if is_s(s) and is_s(ty) and ws <= wt:
            return lean
        if is_u(s) and is_s(ty) and ws < wt:
            return f"({lean} : Int)"
        self.err(f"{s} -> {ty} is not a lossless conversion (`from` / `into`)")

    def local_call(self, name, args, env, k):
        rec = self.need(name)
        if len(args) != len(rec["ptys"]):
            self.err(f"{name}: {len(args)} arguments for {len(rec['ptys'])} parameters")

        def done(vals):
            for v, pt in zip(vals, rec["ptys"]):
                self.unify(v.ty, pt, f"argument of {name}")
            al = " ".join(par(v.lean) for v in vals)
            if rec["kind"] == "plain":
                return self.step(f"{name} dbg {al}", rec["ret"], k)
            if rec["kind"] == "ires":
                return k(V(f"{name} dbg {al}", rec["ret"]))
            pv = V(f"({name}_run dbg {al})", rec["ret"])
            if rec["pre"]:
                return self.step(f"{name}_pre dbg {al}", "unit", lambda _: k(pv), hint="_")
            return k(pv)
        return self.args_then(args, rec["ptys"], env, done)

    def comp_call(self, owner, fn, args, env, k):
        if owner in HDR_ENUMS:
            dt = self.files["datatype.rs"]
            variants = {v: payload for v, payload, _, _ in dt.enums[owner]} if owner in dt.enums else {}
            if fn in variants:
                if len(args) != len(variants[fn]):
                    self.err(f"{owner}::{fn} payload")
                return self.args_then(args, variants[fn], env, lambda vs: (
                    [self.unify(v.ty, t, f"payload of {owner}::{fn}") for v, t in zip(vs, variants[fn])],
                    k(V(f"(FlacVerif.Gen.Headers.{owner}.{fn} " + " ".join(par(v.lean) for v in vs) + ")", ("hdr", owner))))[1])
            ln = f"{owner}.{fn}"
            if ln not in T.HDR_DONE:
                self.err(f"`{owner}::{fn}` is not among the functions translated by part `headers`")
            ptys, rty, has_ex = T.HDR_DONE[ln]
            self.used_hdr.add(ln)
            conv = lambda t: ("opt", conv(t[1])) if isinstance(t, tuple) and t[0] == "opt" else (("hdr", t[1]) if isinstance(t, tuple) and t[0] in ("enum", "hdr") else t)

            def done(vals):
                al = " ".join(par(v.lean) for v in vals)
                val = f"(FlacVerif.Gen.Headers.{ln} {al})"
                rt = conv(rty)
                if isinstance(rt, tuple) and rt[0] == "opt" and rt[1] == "self":
                    rt = ("opt", ("hdr", owner))
                if has_ex:
                    return self.step(f"hdrVal (FlacVerif.Gen.Headers.{ln}_exact {al}) {val}", rt, k)
                return k(V(val, rt))
            return self.args_then(args, [conv(p) for p in ptys], env, done)
        key = (owner, fn)
        if key not in PS_CALLEES:
            self.err(f"`component::{owner}::{fn}` has no reading (table PS_CALLEES)")
        fname, params, ret, _, lean, can_panic, rty = PS_CALLEES[key]
        self.check_callee(key)
        self.used_callees.add(key)
        ptys = [self.callee_pty(p) for p in params]

        def done(vals):
            for v, pt in zip(vals, ptys):
                self.unify(v.ty, pt, f"argument of {owner}::{fn}")
            al = " ".join(par(v.lean) for v in vals)
            if can_panic:
                dbg = "" if lean.startswith("FlacVerif.Gen.Verify") else "dbg "
                return self.step(f"{lean} {dbg}{al}", rty, k)
            return k(V(f"({lean} {al})", rty))
        if len(args) != len(ptys):
            self.err(f"{owner}::{fn}: {len(args)} arguments for {len(ptys)} parameters")
        return self.args_then(args, ptys, env, done)

    def callee_pty(self, p):
        t = p.split()
        t = t[2:]
        while t and t[0] == "&":
            t = t[1:]
        if t[:4] == ["heapless", "::", "Vec", "<"]:
            cap = t[6]
            if not cap.isdigit():
                if cap not in PS_DT_CONSTS:
                    self.err(f"capacity `{cap}` of a heapless::Vec is not a known constant")
                use, key = PS_DT_CONSTS[cap]
                if use not in " ".join(self.files["datatype.rs"].toks) or not isinstance(self.values.get(key), int):
                    self.err(f"datatype.rs: `{use}` not found or constant {key} unreadable")
                cap = self.values[key]
            return ("hvec", t[4], int(cap))
        if t[0] == "[" and t[-1] == "]":
            return ("vec", t[1])
        if t[0] == "Vec":
            return ("vec", t[2] if t[2] in UBITS or t[2] in SBITS else ("comp", t[2]))
        if len(t) == 1 and (t[0] in UBITS or t[0] in SBITS or t[0] == "bool"):
            return t[0]
        if len(t) == 1 and t[0] in HDR_ENUMS:
            return ("hdr", t[0])
        if len(t) == 1 and t[0] in COMP_LEAN:
            return ("comp", t[0])
        self.err(f"parameter type `{p}` of a callee")

    def check_callee(self, key):
        fname, params, ret, _, lean, can_panic, rty = PS_CALLEES[key]
        items = self.files[fname]
        tab = items.impls.get((None, key[0]))
        rec = tab.get(key[1]) if tab else None
        if rec is None or rec["body"] is None:
            self.err(f"{fname}: fn {key[0]}::{key[1]} not found")
        have = [" ".join(p) for p in rec["params"]]
        if have != params or " ".join(rec["ret"]) != ret:
            self.err(f"{fname}: fn {key[0]}::{key[1]} has the signature ({', '.join(have)}) -> {' '.join(rec['ret'])}, the reading "
                     f"was written for ({', '.join(params)}) -> {ret}")
        lo, hi = rec["body"]
        got = fp(items.toks[lo:hi])
        if key == ("Stream", "with_stream_info") and PS_FROM_STREAM_INFO not in " ".join(items.toks):
            self.err("datatype.rs: MetadataBlock::from_stream_info is not the function the reading was written for")
        if PS_CALLEE_FP[key] is None:
            if self.status.get("verify") != "ok":
                self.err(f"{key[0]}::{key[1]} is generated by part `verify`, which failed")
            return
        if PS_CALLEE_FP.get(key) != got:
            self.err(f"{fname}: the body of {key[0]}::{key[1]} changed (fingerprint {got}, the reading was written for "
                     f"{PS_CALLEE_FP.get(key)})")

    def nom_err_closure(self, c, nparams):
        c = self.strip(c)
        if c[0] != "closure" or len(c[1]) != nparams or not self.is_nom_error(c[2]):
            self.err("expected a closure returning `nom::Err::Error(error_position!(..))`")

    def tx_mcall(self, e, env, want, k):
        recv, name, args = e[1], e[2], e[3]
        r0 = self.strip(recv)
        if r0[0] == "rangeexpr" and name == "contains" and len(args) == 1:
            def cont(x):
                t = self.known_int(x.ty, "contains")
                return self.tx(r0[1], env, t, lambda a: self.tx(r0[2], env, t, lambda b: k(V(
                    f"(decide ({a.lean} ≤ {x.lean}) && decide ({x.lean} {'≤' if r0[3] else '<'} {b.lean}))", "bool"))))
            return self.tx(args[0], env, None, cont)
        if name == "collect" and not args and r0[0] == "mcall" and r0[2] == "map" and len(r0[3]) == 1 \
                and self.strip(r0[1])[0] == "mcall" and self.strip(r0[1])[2] == "into_iter" and not self.strip(r0[1])[3]:
            def coll(xs):
                t = rs(xs.ty)
                if not (isinstance(t, tuple) and t[0] == "vec"):
                    self.err(".into_iter() on a non-vector")
                before = self.steps
                lam, rty = self.closure(self.strip(r0[3][0]), [t[1]], "pure", env)
                if self.steps != before:
                    self.err("the closure of .map(..).collect() can panic")
                return k(V(f"(List.map {lam} {par(xs.lean)})", ("vec", rty)))
            return self.tx(self.strip(r0[1])[1], env, None, coll)

        if r0[0] == "var" and r0[1] in PS_CRC and r0[1] not in env and name == "checksum" and len(args) == 1:
            text, params, rty = PS_CRC[r0[1]]
            bt = " ".join(self.files["bitrepr.rs"].toks)
            if text not in bt or PS_USES.get(r0[1], "use crate :: component :: bitrepr :: " + r0[1] + " ;") not in " ".join(self.items.toks):
                self.err(f"`{r0[1]}` is not the static of bitrepr.rs the reading was written for")
            return self.tx(args[0], env, BYTES, lambda b: (self.unify(b.ty, BYTES, "checksum argument"), k(V(
                f"(FlacVerif.crcBits {params} (FlacVerif.bytesToBits {par(b.lean)}))", rty)))[1])

        def on(r):
            ty = rs(r.ty)
            if ty == "bool" and name == "then" and len(args) == 1:
                c = self.strip(args[0])
                lam, rty = self.closure(c, [], "opt", env)
                return self.step(f"boolThenO {par(r.lean)} {lam}", ("opt", rty), k)
            if isinstance(ty, tuple) and ty[0] == "opt" and name == "map_or" and len(args) == 2:
                def mo(d):
                    before = self.steps
                    lam, rty = self.closure(self.strip(args[1]), [ty[1]], "pure", env)
                    if self.steps != before:
                        self.err("the closure of map_or can panic")
                    self.unify(rty, d.ty, "map_or")
                    return k(V(f"(match {r.lean} with | none => {d.lean} | some v => {' '.join(lam.split())} v)", rty))
                return self.tx(args[0], env, None, mo)
            if isinstance(ty, tuple) and ty[0] == "opt" and name == "unwrap_or" and len(args) == 1:
                return self.tx(args[0], env, ty[1], lambda d: (self.unify(d.ty, ty[1], "unwrap_or"), k(V(
                    f"({r.lean}.getD {par(d.lean)})", ty[1])))[1])
            if ty == BYTES and name == "offset" and len(args) == 1:
                self.check_use("Offset")
                return self.tx(args[0], env, BYTES, lambda b: (self.unify(b.ty, BYTES, "offset argument"), k(V(
                    f"({par(r.lean)}.length - {par(b.lean)}.length)", "usize")))[1])
            if isinstance(ty, tuple) and ty[0] == "comp" and ty[1] == "FrameHeader" and name == "block_size" and not args:
                if self.status.get("decode") != "ok":
                    self.err("FrameHeader::block_size is generated by part `decode`, which failed")
                return self.step(f"FlacVerif.Gen.Decode.FrameHeader.block_size dbg {par(r.lean)}", "usize", k)
            if isinstance(ty, tuple) and ty[0] == "comp" and (ty[1], name) in PS_ACCESSORS and not args:
                return self.accessor(ty[1], name, r, k)
            if isinstance(ty, tuple) and ty[0] == "hdr":
                ln = f"{ty[1]}.{name}"
                if ln not in T.HDR_DONE:
                    self.err(f"`{ty[1]}::{name}` is not among the functions translated by part `headers`")
                ptys, rty, has_ex = T.HDR_DONE[ln]
                if has_ex or not all(isinstance(x, str) for x in ptys) or not isinstance(rty, str):
                    self.err(f"`{ty[1]}::{name}`: signature not read")
                self.used_hdr.add(ln)
                return self.args_then(args, ptys, env, lambda vs: ([self.unify(v.ty, t, f"argument of {ln}") for v, t in zip(vs, ptys)], k(V(
                    f"(FlacVerif.Gen.Headers.{ln} {par(r.lean)} " + " ".join(par(v.lean) for v in vs) + ")", rty)))[1])
            if name == "clone" and not args and isinstance(ty, tuple) and ty[0] == "comp":
                return k(r)
            if name == "into" and not args:
                w = rs(want) if want is not None else None
                if not is_int(w):
                    self.err("`.into()` whose target type is not determined")
                return k(self.widen(r, w))
            if name == "unwrap" and not args and isinstance(ty, tuple) and ty[0] == "tryfrom":
                if not (is_u(ty[1]) and ty[2] == "i32"):
                    self.err("try_from(..).unwrap() other than unsigned -> i32")
                return self.step(f"req (decide ({r.lean} < {2 ** 31}))", "unit", lambda _: k(V(f"({r.lean} : Int)", "i32")), hint="_")
            if name == "as_slice" and not args and isinstance(ty, tuple) and ty[0] == "vec":
                return k(r)
            if name == "len" and not args and isinstance(ty, tuple) and ty[0] in ("vec", "hvec"):
                return k(V(f"{par(r.lean)}.length", "usize"))
            if name == "map_err" and len(args) == 1 and isinstance(ty, tuple) and ty[0] in ("res", "ures"):
                self.nom_err_closure(args[0], 1)
                return k(V(r.lean, ("nres", ty[1])))
            if name == "ok_or_else" and len(args) == 1 and isinstance(ty, tuple) and ty[0] == "opt":
                self.nom_err_closure(args[0], 0)
                return k(V(r.lean, ("nres", ty[1])))
            if name == "map_err" and len(args) == 1 and isinstance(ty, tuple) and ty[0] == "ires" and args[0] == ("var", "convert_bits_err"):
                self.check_convert_bits_err()
                return k(r)
            self.err(f"method `.{name}(..)` on a value of type {self.show(ty)}")
        return self.tx(recv, env, want if name in ("as_slice", "map_err") else None, on)

    def check_frame_offset(self):
        t = " ".join(x for x in self.files["datatype.rs"].toks)
        t = re.sub(r"# \[ [^\]]*\] ", "", t)
        if PS_FRAME_OFFSET not in t:
            self.err("datatype.rs: `enum FrameOffset { Frame(u32), StartSample(u64) }` not found")

    def accessor(self, owner, name, r, k):
        key = (owner, name)
        if key not in PS_ACCESSORS:
            self.err(f"method `{owner}::{name}` has no reading (table PS_ACCESSORS)")
        body, lean, ty = PS_ACCESSORS[key]
        dt = self.files["datatype.rs"]
        rec = (dt.impls.get((None, owner)) or {}).get(name)
        if rec is None or rec["body"] is None:
            self.err(f"datatype.rs: fn {owner}::{name} not found")
        lo, hi = rec["body"]
        if " ".join(dt.toks[lo:hi]) != body or rec["params"] != [["&", "self"]]:
            self.err(f"datatype.rs: fn {owner}::{name} is not `{body}`")
        self.used_callees.add(key)
        return k(V(lean.replace("{r}", par(r.lean)), ty))

    def check_convert_bits_err(self):
        rec = self.items.fns.get("convert_bits_err")
        if rec is None or rec["body"] is None:
            self.err("fn convert_bits_err not found")
        lo, hi = rec["body"]
        body = " ".join(self.items.toks[lo:hi])
        if body != "{ e . map ( | ( inp , kind ) | E :: from_error_kind ( inp , kind ) ) }":
            self.err("the body of convert_bits_err is not `e.map(|(inp, kind)| E::from_error_kind(inp, kind))` (class-preserving)")

    # ------------------------------------------------------------------ statements
    def diverges(self, b):
        if b[0] != "block":
            return b[0] in ("return", "continue")
        last = b[2] if b[2] is not None else (b[1][-1] if b[1] else None)
        return last is not None and last[0] in ("return", "continue")

    def assigned(self, node, env):
        out = []

        def add(n):
            if n is not None and n in env and n not in out:
                out.append(n)

        def visit(x, shadow):
            if isinstance(x, list):
                for y in x:
                    visit(y, shadow)
                return
            if not isinstance(x, tuple) or not x:
                return
            if x[0] == "block":
                sh = set(shadow)
                for st in x[1]:
                    visit(st, sh)
                    if st[0] == "let":
                        sh |= set(self.pat_names(st[1]))
                if x[2] is not None:
                    visit(x[2], sh)
                return
            if x[0] == "assign":
                root = self.strip(x[2])
                if root[0] != "var":
                    self.err("assignment to something other than a local variable")
                if root[1] not in shadow:
                    add(root[1])
                visit(x[3], shadow)
                return
            if x[0] == "mcall" and x[2] in PS_STREAM_METHODS:
                root = self.strip(x[1])
                if root[0] == "var" and root[1] not in shadow:
                    add(root[1])
            if x[0] == "mcall" and x[2] == "push" and self.strip(x[1])[0] == "mcall" and self.strip(x[1])[2] == "frames_mut":
                root = self.strip(self.strip(x[1])[1])
                if root[0] == "var" and root[1] not in shadow:
                    add(root[1])
            if x[0] == "while":
                visit(x[1], shadow)
                visit(x[2], shadow)
                return
            if x[0] == "mcall" and x[2] in PS_SETTERS:
                root = self.strip(x[1])
                if root[0] == "var" and root[1] not in shadow:
                    add(root[1])
            if x[0] == "mcall" and x[2] == "push":
                root = self.strip(x[1])
                if root[0] == "var" and root[1] not in shadow:
                    add(root[1])
            if x[0] == "closure":
                return
            if x[0] == "for":
                visit(x[2], shadow)
                visit(x[3], set(shadow) | ({x[1]} if isinstance(x[1], str) else set()))
                return
            for y in x[1:]:
                if isinstance(y, (tuple, list)):
                    visit(y, shadow)
        visit(node, set())
        return out

    def pat_names(self, p):
        if p[0] == "bind":
            return [p[1]]
        if p[0] == "tup":
            return [n for q in p[1] for n in self.pat_names(q)]
        return []

    def state_pat(self, names, env):
        ls = [env[n].lean for n in names]
        if not ls:
            return "()"
        return ls[0] if len(ls) == 1 else "(" + ", ".join(ls) + ")"

    def walk(self, stmts, tail, env, fin, want=None):
        env = dict(env)

        def go(i, env_):
            if i == len(stmts):
                if tail is None:
                    return fin(env_, None)
                if tail[0] in ("return", "continue", "for") or (tail[0] == "if" and tail[3] is None):
                    return self.stmt(tail, env_, lambda env2: fin(env2, None))
                return self.tx(tail, env_, want, lambda v: fin(env_, v))
            return self.stmt(stmts[i], env_, lambda env2: go(i + 1, env2))
        return go(0, env)

    def stmt(self, st, env, rest):
        kd = st[0]
        if kd == "let":
            pat, ty, val = st[1], st[2], st[3]
            dty = self.pty(ty, "`let` type") if ty is not None else None
            env2 = dict(env)
            v0 = self.strip(val) if val[0] == "paren" else val
            if v0[0] == "try":
                def got(v):
                    t = rs(v.ty)
                    if isinstance(t, tuple) and t[0] == "ires":
                        comp = ("tuple", [t[1], t[2]])
                        f = "bindP"
                    elif isinstance(t, tuple) and t[0] == "nres":
                        comp, f = t[1], "bindO"
                    elif isinstance(t, tuple) and t[0] == "res" and self.mon == "vr":
                        comp, f = t[1], "bindR"
                    else:
                        self.err(f"`?` on a value of type {self.show(t)}")
                    if dty is not None:
                        comp = self.unify(comp, dty, "`let` type")
                    self.steps += 1
                    pl = self.pat_lean(pat, comp, env2, "`let`")
                    return f"{f} {par(v.lean)} fun {pl} =>\n{rest(env2)}"
                wi = None
                if dty is not None and isinstance(rs(dty), tuple) and rs(dty)[0] == "tuple" and len(rs(dty)[1]) == 2:
                    wi = ("ires", rs(dty)[1][0], rs(dty)[1][1])
                return self.tx(v0[1], env, wi, got)

            if v0[0] == "closure" and not v0[1] and pat[0] == "bind" and ty is None:
                env2[pat[1]] = V(None, ("closure0", v0, dict(env)))
                return rest(env2)

            def bound(v):
                vt = v.ty
                if dty is not None:
                    vt = self.unify(vt, dty, "`let` type")
                if pat[0] == "bind" and rs(vt).__class__ is not TV and isinstance(rs(vt), tuple) and rs(vt)[0] in ("parser",):
                    self.err("`let` of a parser value")
                pl = self.pat_lean(pat, vt, env2, "`let`")
                if pat[0] == "bind" and v.lean == pl:
                    return rest(env2)
                if pat[0] == "bind":
                    env2[pat[1]] = V(pl, vt, v.lit) if pl != "_" else env2[pat[1]]
                    return f"let {pl} : {self.lty(vt)} := {v.lean}\n{rest(env2)}"
                return f"let {pl} := {v.lean}\n{rest(env2)}"
            return self.tx(val, env, dty, bound)
        if kd == "assign":
            op, lhs, rhs = st[1], self.strip(st[2]), st[3]
            if lhs[0] != "var" or lhs[1] not in env:
                self.err("assignment to something other than a local variable")
            var = env[lhs[1]]
            if op == "=":
                value = lambda kk: self.tx(rhs, env, var.ty, kk)
            else:
                value = lambda kk: self.tx(("bin", op[:-1], lhs, rhs), env, var.ty, kk)

            def store(v):
                self.unify(v.ty, var.ty, f"assignment to `{lhs[1]}`")
                env2 = dict(env)
                ln = T.wr_mangle(lhs[1])
                env2[lhs[1]] = V(ln, var.ty)
                if v.lean == ln:
                    return rest(env2)
                return f"let {ln} : {self.lty(var.ty)} := {v.lean}\n{rest(env2)}"
            return value(store)
        if kd == "assert":
            return self.tx(st[1], env, "bool", lambda c: self.step(
                f"req (!dbg || {c.lean})" if st[2] else f"req {c.lean}", "unit", lambda _: rest(env), hint="_"))
        if kd == "mcall" and st[2] == "push" and len(st[3]) == 1 and self.strip(st[1])[0] != "mcall":
            x = self.strip(st[1])
            if x[0] != "var" or x[1] not in env:
                self.err("`.push` on something other than a local vector")
            var = env[x[1]]
            vt = rs(var.ty)
            if not (isinstance(vt, tuple) and vt[0] == "vec"):
                self.err(f"`.push` on a value of type {self.show(vt)}")

            def pushed(v):
                self.unify(v.ty, vt[1], "`.push`")
                return f"let {var.lean} : {self.lty(var.ty)} := {var.lean} ++ [{v.lean}]\n{rest(env)}"
            return self.tx(st[3][0], env, vt[1], pushed)
        m_ = st[1] if kd == "try" else st
        if m_[0] == "mcall" and m_[2] in PS_SETTERS and self.strip(m_[1])[0] == "var" and self.strip(m_[1])[1] in env \
                and rs(env[self.strip(m_[1])[1]].ty) == ("comp", "StreamInfo"):
            return self.st_setter(m_, kd == "try", env, rest)
        if kd == "mcall" and self.strip(st[1])[0] == "var" and self.strip(st[1])[1] in env \
                and rs(env[self.strip(st[1])[1]].ty) == ("comp", "Stream") and st[2] in PS_STREAM_METHODS:
            lean, ptys, ptext, btext = PS_STREAM_METHODS[st[2]]
            self.check_method_text("Stream", st[2], ptext, btext)
            var = env[self.strip(st[1])[1]]
            return self.args_then(st[3], ptys, env, lambda vs: (
                [self.unify(v.ty, t, f"argument of Stream::{st[2]}") for v, t in zip(vs, ptys)],
                f"let {var.lean} : {self.lty(var.ty)} := {lean} {var.lean} " + " ".join(par(v.lean) for v in vs) + f"\n{rest(env)}")[1])
        if kd == "mcall" and st[2] == "push" and len(st[3]) == 1 and self.strip(st[1])[0] == "mcall" \
                and self.strip(st[1])[2] == "frames_mut" and not self.strip(st[1])[3]:
            rv = self.strip(self.strip(st[1])[1])
            if rv[0] != "var" or rv[1] not in env or rs(env[rv[1]].ty) != ("comp", "Stream"):
                self.err("`.frames_mut()` on something other than a local Stream")
            self.check_method_text("Stream", "frames_mut", PS_FRAMES_MUT[0], PS_FRAMES_MUT[1])
            var = env[rv[1]]
            return self.tx(st[3][0], env, ("comp", "Frame"), lambda v: (self.unify(v.ty, ("comp", "Frame"), "pushed frame"),
                f"let {var.lean} : {self.lty(var.ty)} := Stream_push_frame {var.lean} {par(v.lean)}\n{rest(env)}")[1])
        if kd == "while":
            return self.st_while(st, env, rest)
        if kd == "mcall" and st[2] == "set_frame_offset" and len(st[3]) == 1:
            x = self.strip(st[1])
            if x[0] != "var" or x[1] not in env or rs(env[x[1]].ty) != ("comp", "FrameHeader"):
                self.err("`.set_frame_offset` on something other than a local FrameHeader")
            if self.status.get("verify") != "ok":
                self.err("FrameHeader::set_frame_offset is generated by part `verify`, which failed")
            var = env[x[1]]

            def sfo(o):
                self.unify(o.ty, ("foff",), "set_frame_offset argument")
                return (f"let {var.lean} : {self.lty(var.ty)} := FlacVerif.Gen.Verify.FrameHeader.set_frame_offset {var.lean} {par(o.lean)}\n"
                        f"{rest(env)}")
            return self.tx(st[3][0], env, ("foff",), sfo)
        if kd == "for":
            return self.st_for(st, env, rest)
        if kd == "if":
            if st[3] is None and self.diverges(st[2]):
                def c(cv):
                    self.unify(cv.ty, "bool", "condition")
                    a = self.tx(st[2], dict(env), None, lambda v: self.err("a diverging block produced a value"))
                    return f"if {cv.lean} then\n{ind(a)}\nelse\n{rest(env)}"
                return self.tx(st[1], env, "bool", c)
            if st[3] is not None:
                self.err("`if` / `else` statement whose branches fall through")
            state = self.assigned(st[2], env)
            for n_ in state:
                env[n_] = V(T.wr_mangle(n_), env[n_].ty)
            sp = self.state_pat(state, env)

            def c2(cv):
                self.unify(cv.ty, "bool", "condition")
                a = self.walk(st[2][1], st[2][2], dict(env), lambda env3, v: self.ret_ok(self.state_pat(state, env3)))
                self.steps += 1
                b = {"pm": "bindP", "vr": "bindVR", "opt": "Option.bind"}[self.mon]
                return f"{b} (if {cv.lean} then\n{ind(a, 4)}\n  else {self.ret_ok(sp)}) fun {sp} =>\n{rest(env)}"
            return self.tx(st[1], env, "bool", c2)
        if kd == "return":
            return self.tx_return(st, env)
        if kd == "continue":
            if self.loop_exit is None:
                self.err("`continue` outside a loop")
            return self.loop_exit(env)
        self.err(f"statement kind `{kd}`")

    def check_method_text(self, owner, name, ptext, btext):
        dt = self.files["datatype.rs"]
        rec = (dt.impls.get((None, owner)) or {}).get(name)
        if rec is None or rec["body"] is None:
            self.err(f"datatype.rs: fn {owner}::{name} not found")
        lo, hi = rec["body"]
        if " | ".join(" ".join(p) for p in rec["params"]) != ptext or " ".join(dt.toks[lo:hi]) != btext:
            self.err(f"datatype.rs: fn {owner}::{name} is not the function the reading was written for")

    def st_while(self, st, env, rest):
        cond, body = st[1], st[2]
        state = self.assigned(body, env)
        for n_ in state:
            env[n_] = V(T.wr_mangle(n_), env[n_].ty)
        inputs = [n_ for n_ in state if rs(env[n_].ty) == BYTES]
        if self.mon != "pm" or len(inputs) != 1:
            self.err("`while` loop whose state does not contain exactly one byte input (the fuel of its reading)")
        sp = self.state_pat(state, env)
        before = self.steps
        box = []
        ctext = self.tx(cond, dict(env), "bool", lambda c: (box.append(c), "")[1])
        if self.steps != before or ctext != "":
            self.err("condition of `while` can panic")
        saved = self.loop_exit
        self.loop_exit = lambda env3: self.ret_ok(self.state_pat(state, env3))
        try:
            b = self.walk(body[1], body[2], dict(env), lambda env3, v: self.loop_exit(env3))
        finally:
            self.loop_exit = saved
        self.steps += 1
        fuel = f"({env[inputs[0]].lean}.length + 1)"
        return (f"bindP (whileP (fun {sp} => {box[0].lean}) (fun {sp} =>\n{ind(b, 4)}) {fuel} {sp}) fun {sp} =>\n{rest(env)}")

    def st_setter(self, m, tried, env, rest):
        name = m[2]
        kind, lean, ptys, check = PS_SETTERS[name]
        var = env[self.strip(m[1])[1]]
        if self.status.get("verify") != "ok" and kind != "read":
            self.err(f"StreamInfo::{name} is generated by part `verify`, which failed")
        if (kind == "vres") != tried:
            self.err(f"StreamInfo::{name}: `?` expected exactly on a method returning Result")
        if kind == "read":
            dt = self.files["datatype.rs"]
            rec = (dt.impls.get((None, "StreamInfo")) or {}).get(name)
            if rec is None or rec["body"] is None:
                self.err(f"datatype.rs: fn StreamInfo::{name} not found")
            lo, hi = rec["body"]
            if " | ".join(" ".join(p) for p in rec["params"]) != check[0] or " ".join(dt.toks[lo:hi]) != check[1]:
                self.err(f"datatype.rs: fn StreamInfo::{name} is not the function the reading was written for")
        if len(m[3]) != len(ptys):
            self.err(f"StreamInfo::{name}: arguments")
        vals = []

        def done():
            al = " ".join(par(v.lean) for v in vals)
            vt = self.lty(var.ty)
            if kind == "vres":
                if self.mon != "vr":
                    self.err(f"`StreamInfo::{name}(..)?` outside a closure returning Result<_, VerifyError>")
                self.steps += 1
                n = self.fresh("r")
                return (f"({lean} {var.lean} {al}).bind fun {n} =>\nif {n}.1 then\n"
                        + ind(f"let {var.lean} : {vt} := {n}.2\n{rest(env)}") + "\nelse\n  some none")
            return f"let {var.lean} : {vt} := {lean} {var.lean} {al}\n{rest(env)}"

        def arg(i):
            if i == len(ptys):
                return done()
            pt, a = ptys[i], m[3][i]
            if isinstance(pt, tuple) and pt[0] == "arr":
                a0 = self.strip(a)
                if not (a0[0] == "mcall" and a0[2] == "expect" and len(a0[3]) == 1 and a0[3][0][0] == "str"
                        and self.strip(a0[1])[0] == "mcall" and self.strip(a0[1])[2] == "try_into" and not self.strip(a0[1])[3]):
                    self.err(f"StreamInfo::{name}: the argument is not `slice.try_into().expect(..)`")

                def sl(x):
                    self.unify(x.ty, ("vec", pt[1]), "try_into of a slice")
                    vals.append(x)
                    return self.step(f"req (decide ({par(x.lean)}.length = {pt[2]}))", "unit", lambda _: arg(i + 1), hint="_")
                return self.tx(self.strip(a0[1])[1], env, None, sl)
            return self.tx(a, env, pt, lambda v: (self.unify(v.ty, pt, f"argument of StreamInfo::{name}"), vals.append(v), arg(i + 1))[2])
        return arg(0)

    def st_for(self, st, env, rest):
        pat, it, body = st[1], st[2], st[3]
        if not isinstance(pat, str):
            self.err("tuple pattern of `for`")
        state = self.assigned(body, env)
        for n in state:
            env[n] = V(T.wr_mangle(n), env[n].ty)
        sp = self.state_pat(state, env)

        def src(xs, ety):
            env2 = dict(env)
            lp = "_"
            if pat != "_" and not pat.startswith("_"):
                if pat in PS_RESERVED:
                    self.err(f"loop variable `{pat}` collides with a name of the generated prelude")
                env2[pat] = V(T.wr_mangle(pat), ety)
                lp = T.wr_mangle(pat)
            saved = self.loop_exit
            self.loop_exit = lambda env3: self.ret_ok(self.state_pat(state, env3))
            try:
                b = self.walk(body[1], body[2], env2, lambda env3, v: self.loop_exit(env3))
            finally:
                self.loop_exit = saved
            self.steps += 1
            lf, bf = ("loopP", "bindP") if self.mon == "pm" else ("loopO", None)
            if bf:
                return f"bindP (loopP {xs} {sp} fun {lp} {sp} =>\n{ind(b, 4)}) fun {sp} =>\n{rest(env)}"
            return f"(loopO {xs} {sp} fun {lp} {sp} =>\n{ind(b, 4)}).bind fun {sp} =>\n{rest(env)}"
        if it[0] == "range":
            return self.tx(it[1], env, "usize", lambda a: self.tx(it[2], env, "usize", lambda b: (
                self.unify(a.ty, "usize", "range"), self.unify(b.ty, "usize", "range"), src(f"(rangeL {par(a.lean)} {par(b.lean)})", "usize"))[2]))

        def plain(xs):
            t = rs(xs.ty)
            if not (isinstance(t, tuple) and t[0] == "vec"):
                self.err(f"`for` over a value of type {self.show(t)}")
            return src(par(xs.lean), t[1])
        return self.tx(it, env, None, plain)

    # ------------------------------------------------------------------ functions
    def need(self, name):
        if name in self.fns:
            return self.fns[name]
        if name in self.stack:
            self.err(f"recursive call of {name}")
        saved = (self.where, self.counter, self.steps, self.mon, self.loop_exit, self.taken)
        self.stack.append(name)
        try:
            rec = self.translate(name)
        finally:
            self.stack.pop()
            (self.where, self.counter, self.steps, self.mon, self.loop_exit, self.taken) = saved
        return rec

    def resolve_text(self, text):
        for t in self.tvs:
            r = rs(t)
            if isinstance(r, TV) and r.intlit:
                r.ref = "i32"
        byid = {t.id: t for t in self.tvs}

        def get(i, what):
            r = rs(byid[int(i)])
            if isinstance(r, TV):
                self.err(f"a type is never determined ({r.what or what})")
            return r
        for _ in range(8):
            old = text
            for key, (s, ty, lean) in list(self.casts.items()):
                if key in text:
                    s2 = rs(s)
                    if isinstance(s2, TV):
                        if s2.intlit:
                            s2.ref = "i32"
                            s2 = "i32"
                        else:
                            self.err(f"a cast whose source type is never determined ({s2.what})")
                    rep = self.cast_text(s2, ty, lean) if key.startswith("⟪CAST") else self.widen_text(s2, ty, lean)
                    text = text.replace(key, rep)
            text = re.sub(r"⟪W(\d+)⟫", lambda m: str(bits_of(get(m.group(1), "width"))) if is_int(get(m.group(1), "width")) else self.err("width of a non-integer"), text)
            text = re.sub(r"⟪LT(\d+)⟫", lambda m: self.lty(get(m.group(1), "type")), text)
            text = re.sub(r"⟪CAP(\d+)⟫", lambda m: str(get(m.group(1), "capacity")), text)
            text = re.sub(r"⟪LIT(\d+):(-?\d+)⟫", lambda m: self.lit(int(m.group(2)), get(m.group(1), "literal")), text)
            if text == old:
                break
        if "⟪" in text:
            self.err("internal: unresolved placeholder")
        return text

    def translate(self, name):
        rec = self.items.fns.get(name)
        if rec is None or rec["body"] is None:
            fail(f"parser.rs: fn {name} not found")
        if any(a.startswith("#[cfg") for a in rec["attrs"]):
            fail(f"parser.rs: fn {name}: conditionally compiled function")
        self.where = f"parser.rs: fn {name}"
        g = " ".join(rec["generics"])
        if g not in ("", "< 'a , E >"):
            self.err(f"generic parameters `{g}`")
        lo, hi = rec["body"]
        self.taken = set(self.items.toks[lo:hi])
        self.counter = 0
        self.steps = 0
        env = {}
        lparams, ptys = [], []
        for p in rec["params"]:
            if len(p) < 3 or p[1] != ":" or p[0] in PS_RESERVED:
                self.err(f"parameter `{' '.join(p)}`")
            ty = self.pty(p[2:], f"parameter {p[0]}")
            env[p[0]] = V(T.wr_mangle(p[0]), ty)
            ptys.append(ty)
            lparams.append(f"({T.wr_mangle(p[0])} : {self.lty(ty)})")
        ret = self.pty(rec["ret"], "return type")
        ps = self.Parser(self.items.toks, lo, hi, self.where, None)
        body = ps.block()
        if ps.p != hi:
            self.err("trailing tokens after the body")
        lp = " ".join(lparams)
        doc = f"/-- `{name}` (parser.rs)"
        L = []
        r = {"name": name, "ptys": ptys, "ret": ret, "pre": False}
        if isinstance(ret, tuple) and ret[0] == "parser":
            r["kind"] = "comb"
            for st in body[1]:
                if st[0] not in ("assert", "let"):
                    self.err("a statement other than an assertion or a `let` before the returned parser")
            lets = [st for st in body[1] if st[0] == "let"]
            tail = body[2]
            if tail is None:
                self.err("no returned parser")
            self.mon = "opt"
            if body[1]:
                pre = self.walk(body[1], None, env, lambda env2, v: "some ()")
                pre = self.resolve_text(pre)
                r["pre"] = True
                L += [doc + ": the statements that run when the parser is built -/",
                      f"def {name}_pre (dbg : Bool) {lp} : Option Unit :=", ind(pre), ""]
            if tail[0] == "closure":
                if len(tail) < 4 or tail[3] != "move":
                    self.err("the returned closure is not a `move` closure")
                self.mon = "pm"
                lam_env = dict(env)
                pn = tail[1][0]
                pn = pn if isinstance(pn, str) else pn[0]
                if len(tail[1]) != 1:
                    self.err("the returned closure takes one input")
                lam_env[pn] = V(T.wr_mangle(pn), ret[1])

                def fin(v):
                    self.unify(v.ty, ("ires", ret[1], ret[2]), "result of the returned closure")
                    return v.lean
                before = self.steps
                text = self.walk(lets, None, lam_env, lambda env2, v: (
                    self.err("a `let` before the returned closure can panic") if self.steps != before else
                    self.tx(tail[2], env2, ("ires", ret[1], ret[2]), fin)))
                text = self.resolve_text(text)
                L += [doc + ": the returned closure -/",
                      f"def {name}_run (dbg : Bool) {lp} ({T.wr_mangle(pn)} : {self.lty(ret[1])}) : PM ({par(self.lty(ret[1]))} × {par(self.lty(ret[2]))}) :=",
                      ind(text), ""]
            else:
                # the returned parser is built from other parsers: their construction steps belong to `_pre`
                if lets:
                    self.err("`let` statements before a returned combinator term")
                self.mon = "opt"
                box = []

                def got(p):
                    self.unify(p.ty, ret, "returned parser")
                    box.append(p.lean)
                    return "some ()"
                pre2 = self.tx(tail, env, ret, got)
                pre2 = self.resolve_text(pre2)
                term = self.resolve_text(box[0])
                if pre2 != "some ()":
                    if r["pre"]:
                        L[1] = f"def {name}_pre0 (dbg : Bool) {lp} : Option Unit :="
                        args = " ".join(T.wr_mangle(p[0]) for p in rec["params"])
                        L += [doc + ": building the parser (own assertions, then those of the parsers it is built from) -/",
                              f"def {name}_pre (dbg : Bool) {lp} : Option Unit :=",
                              ind(f"({name}_pre0 dbg {args}).bind fun _ =>\n{pre2}"), ""]
                    else:
                        L += [doc + ": building the parser -/", f"def {name}_pre (dbg : Bool) {lp} : Option Unit :=", ind(pre2), ""]
                    r["pre"] = True
                L += [doc + ": the returned parser -/",
                      f"def {name}_run (dbg : Bool) {lp} : {self.lty(ret)} :=", ind(term), ""]
            args = " ".join(T.wr_mangle(p[0]) for p in rec["params"])
            inp = "input"
            L += [doc + f": `{name}(args)(input)` -/",
                  f"def {name} (dbg : Bool) {lp} ({inp} : {self.lty(ret[1])}) : PM ({par(self.lty(ret[1]))} × {par(self.lty(ret[2]))}) :=",
                  ind((f"({name}_pre dbg {args}).bind fun _ =>\n" if r["pre"] else "") + f"{name}_run dbg {args} {inp}"), ""]
        elif isinstance(ret, tuple) and ret[0] == "ires":
            r["kind"] = "ires"
            self.mon = "pm"

            def fin(env2, v):
                if v is None:
                    self.err("missing result")
                self.unify(v.ty, ret, "result")
                return v.lean
            text = self.resolve_text(self.walk(body[1], body[2], env, fin, ret))
            L += [doc + " -/", f"def {name} (dbg : Bool) {lp} : {self.lty(ret)} :=", ind(text), ""]
        elif is_int(ret):
            r["kind"] = "plain"
            self.mon = "opt"

            def fin(env2, v):
                if v is None:
                    self.err("missing result")
                self.unify(v.ty, ret, "result")
                return f"some {par(v.lean)}"
            text = self.resolve_text(self.walk(body[1], body[2], env, fin, ret))
            L += [doc + " -/", f"def {name} (dbg : Bool) {lp} : Option {par(self.lty(ret))} :=", ind(text), ""]
        else:
            self.err(f"return type {self.show(ret)}")
        r["ptys"] = [rs(t) for t in ptys]
        r["ret"] = rs(ret)
        self.fns[name] = r
        self.order.append(name)
        self.out[name] = "\n".join(L)
        return r


# nom source files the readings of PS_NOM were written against: path in the crate -> sha256/16 of the file
PS_NOM_FILES = {
    "src/bits/streaming.rs": "304cc5d565cfa300", "src/bits/mod.rs": "1c6aa26887d37938", "src/branch/mod.rs": "dbe1ed1bb0230310",
    "src/combinator/mod.rs": "f7b9c35734f10a4b", "src/bytes/streaming.rs": "e716e6555fbde14b",
    "src/number/streaming.rs": "1c2137235f093857", "src/multi/mod.rs": "6093bd5909ddae76", "src/error.rs": "9d9bf87e76b47cfd",
    "src/internal.rs": "5e670e0f5955af13", "src/traits.rs": "01934f8a61fc3cc5",
}

PS_PRELUDE = '''open FlacVerif.Gen.Decode (addU subU mulU arithS shAmt shlU shrU shlS shrS wrapS castU divU req rangeL sliceR hdrVal)

/-- class of a `nom::Err`: `Incomplete` or `Error` (kind and position are not represented; `Failure` is never built) -/
inductive PErr where
  | incomplete
  | error
  deriving Repr, DecidableEq

/-- outcome of a parser: `none` = panic, `some (.error c)` = `Err`, `some (.ok v)` = `Ok` -/
abbrev PM (α : Type) := Option (Except PErr α)

/-- `x?` on an `IResult` -/
def bindP {α β : Type} (x : PM α) (f : α → PM β) : PM β :=
  match x with
  | none => none
  | some (.error e) => some (.error e)
  | some (.ok v) => f v

/-- `Ok(v)` -/
def okP {α : Type} (v : α) : PM α := some (.ok v)

/-- `Err(nom::Err::Error(error_position!(..)))` -/
def errP {α : Type} : PM α := some (.error .error)

/-- `x.ok_or_else(|| nom::Err::Error(..))?` / `x.map_err(|_| nom::Err::Error(..))?` -/
def bindO {α β : Type} (x : Option α) (f : α → PM β) : PM β :=
  match x with
  | none => errP
  | some v => f v

/-- `for x in xs { body }` inside a parser (the body can `?`) -/
def loopP {α σ : Type} : List α → σ → (α → σ → PM σ) → PM σ
  | [], s, _ => okP s
  | x :: xs, s, f => bindP (f x s) fun s' => loopP xs s' f

/-- `for x in xs { body }` in a function that is not a parser -/
def loopO {α σ : Type} : List α → σ → (α → σ → Option σ) → Option σ
  | [], s, _ => some s
  | x :: xs, s, f => (f x s).bind fun s' => loopO xs s' f

/-- `nom::bits::streaming::take::<O>(count)`, `O` of `width` bits -/
def takeBits (width count : Nat) (i : List Bool) : PM (List Bool × Nat) :=
  if count = 0 then okP (i, 0)
  else if i.length < count then some (.error .incomplete)
  else if width < count then none
  else okP (i.drop count, FlacVerif.bitsToNat (i.take count))

/-- `nom::bits::streaming::tag(pattern, count)` -/
def tagBits (width pattern count : Nat) (i : List Bool) : PM (List Bool × Nat) :=
  bindP (takeBits width count i) fun r => if r.2 = pattern then okP r else errP

/-- `nom::multi::many0_count(f)`; `fuel` bounds the iterations (every successful iteration consumes input) -/
def many0CountAux {α : Type} (f : List Bool → PM (List Bool × α)) : Nat → List Bool → Nat → PM (List Bool × Nat)
  | 0, _, _ => errP
  | fuel + 1, i, c =>
    match f i with
    | none => none
    | some (.ok (i', _)) => if i'.length = i.length then errP else many0CountAux f fuel i' (c + 1)
    | some (.error .error) => okP (i, c)
    | some (.error .incomplete) => some (.error .incomplete)

def many0Count {α : Type} (f : List Bool → PM (List Bool × α)) (i : List Bool) : PM (List Bool × Nat) :=
  many0CountAux f (i.length + 1) i 0

/-- `alt((p, q))` -/
def altP {ι α : Type} (p q : ι → PM (ι × α)) (i : ι) : PM (ι × α) :=
  match p i with
  | some (.error .error) => q i
  | r => r

/-- `map(p, f)`; `f` may panic -/
def mapP {ι α β : Type} (p : ι → PM (ι × α)) (f : α → Option β) (i : ι) : PM (ι × β) :=
  bindP (p i) fun r => (f r.2).bind fun v => okP (r.1, v)

/-- `verify(p, c)` -/
def verifyP {ι α : Type} (p : ι → PM (ι × α)) (c : α → Option Bool) (i : ι) : PM (ι × α) :=
  bindP (p i) fun r => (c r.2).bind fun b => if b then okP r else errP

/-- `nom::bits::bits(p)` -/
def bitsP {α : Type} (p : List Bool → PM (List Bool × α)) (bytes : List Nat) : PM (List Nat × α) :=
  bindP (p (FlacVerif.bytesToBits bytes)) fun r => okP (bytes.drop (bytes.length - r.1.length / 8), r.2)

/-- `be_u8` / `be_u16` (streaming) -/
def beU (n : Nat) (i : List Nat) : PM (List Nat × Nat) :=
  if i.length < n then some (.error .incomplete) else okP (i.drop n, FlacVerif.bitsToNat (FlacVerif.bytesToBits (i.take n)))

/-- `nom::bytes::streaming::take(n)` -/
def byteTake (n : Nat) (i : List Nat) : PM (List Nat × List Nat) :=
  if i.length < n then some (.error .incomplete) else okP (i.drop n, i.take n)

/-- `heapless::Vec::<T, N>::try_from(slice)` -/
def fromSliceH {α : Type} (cap : Nat) (xs : List α) : Option (List α) := if xs.length ≤ cap then some xs else none

/-- `iter().map(|x| *x as usize).sum()`: dev panics iff the total overflows (the partial sums of non-negative values are monotone) -/
def sumU (dbg : Bool) (w : Nat) (xs : List Nat) : Option Nat :=
  let s := xs.foldl (· + ·) 0
  if s < 2 ^ w then some s else if dbg then none else some (s % 2 ^ w)

/-- reading of `Residual::from_parts` (datatype.rs; fingerprint-checked): the `debug_assert!` with its shift, `find_max`,
`max_quotients * block_size`, the two sums (the SIMD `wrapping_sum` cannot panic); the sums are not stored by the model -/
def Residual_from_parts (dbg : Bool) (po bs wl : Nat) (rp q r : List Nat) : Option FlacVerif.Residual :=
  (if dbg then (shAmt dbg 64 po).bind fun k => req (decide (rp.length = shlU 64 1 k)) else some ()).bind fun _ =>
  (mulU dbg 64 (q.foldl max 0) bs).bind fun m =>
  (if m < 4294967295 then some 0 else sumU dbg 64 q).bind fun _ =>
  (sumU dbg 64 rp).bind fun _ =>
  some { order := po, blockSize := bs, warmup := wl, params := rp, quotients := q, remainders := r }

/-- reading of `Constant::from_parts` -/
def Constant_from_parts (bs : Nat) (dc : Int) (bps : Nat) : FlacVerif.SubFrame := .constant bs dc bps
/-- reading of `Verbatim::from_samples` -/
def Verbatim_from_samples (xs : List Int) (bps : Nat) : FlacVerif.SubFrame := .verbatim xs bps
/-- reading of `FixedLpc::from_parts` -/
def FixedLpc_from_parts (warm : List Int) (res : FlacVerif.Residual) (bps : Nat) : FlacVerif.SubFrame := .fixed warm res bps
/-- reading of `Lpc::from_parts`: `assert_eq!(warm_up.len(), parameters.order())` (both profiles) -/
def Lpc_from_parts (dbg : Bool) (warm : List Int) (p : FlacVerif.QParams) (res : FlacVerif.Residual) (bps : Nat) : Option FlacVerif.SubFrame :=
  if warm.length = p.coefs.length then some (.lpc warm p.coefs p.shift p.precision res bps) else none
/-- `bool::then(f)`; `f` may panic -/
def boolThenO {α : Type} (c : Bool) (f : Unit → Option α) : Option (Option α) := if c then (f ()).map some else some none

/-- `nom::multi::many_m_n(n, n, f)` with the mutable variables captured by `f` as state `s` -/
def manyMNSAux {σ α : Type} (f : σ → List Bool → Option (σ × PM (List Bool × α))) :
    Nat → σ → List Bool → List α → PM (List Bool × List α)
  | 0, _, i, acc => okP (i, acc)
  | n + 1, s, i, acc =>
    match f s i with
    | none => none
    | some (_, none) => none
    | some (s', some (.ok (tail, v))) => if tail.length = i.length then errP else manyMNSAux f n s' tail (acc ++ [v])
    | some (_, some (.error e)) => some (.error e)

def manyMNS {σ α : Type} (n : Nat) (s : σ) (f : σ → List Bool → Option (σ × PM (List Bool × α))) (i : List Bool) :
    PM (List Bool × List α) := manyMNSAux f n s i []

/-- `x?` on a `Result<_, VerifyError>` inside a closure returning such a Result (`none` = Err) -/
def bindR {α β : Type} (x : Option α) (f : α → Option (Option β)) : Option (Option β) :=
  match x with
  | none => some none
  | some v => f v

/-- join after an `if` that falls through, inside such a closure -/
def bindVR {σ β : Type} (x : Option (Option σ)) (f : σ → Option (Option β)) : Option (Option β) :=
  x.bind fun o => bindR o f

/-- reading of `StreamInfo::set_md5_digest`: `self.md5.copy_from_slice(digest)` with a 16-byte array -/
def StreamInfo_set_md5_digest (s : FlacVerif.StreamInfo) (d : List Nat) : FlacVerif.StreamInfo := { s with md5 := d }

/-- `nom::bytes::streaming::tag(t)` -/
def byteTagP (t : List Nat) (i : List Nat) : PM (List Nat × List Nat) :=
  let m := min t.length i.length
  if i.take m ≠ t.take m then errP
  else if i.length < t.length then some (.error .incomplete)
  else okP (i.drop t.length, i.take t.length)

/-- `while c { body }` inside a parser, with fuel (`none` = fuel exhausted) -/
def whileP {σ : Type} (c : σ → Bool) (f : σ → PM σ) : Nat → σ → PM σ
  | 0, s => if c s then none else okP s
  | n + 1, s => if c s then bindP (f s) fun s' => whileP c f n s' else okP s

/-- `many_till(f, eof)` with fuel `len + 1` -/
def manyTillEofAux {α : Type} (f : List Nat → PM (List Nat × α)) : Nat → List Nat → List α → PM (List Nat × (List α × List Nat))
  | 0, _, _ => none
  | n + 1, i, acc =>
    if i.length = 0 then okP (i, (acc, i))
    else
      match f i with
      | none => none
      | some (.error e) => some (.error e)
      | some (.ok (i1, o)) => if i1.length = i.length then errP else manyTillEofAux f n i1 (acc ++ [o])

def manyTillEof {α : Type} (f : List Nat → PM (List Nat × α)) (i : List Nat) : PM (List Nat × (List α × List Nat)) :=
  manyTillEofAux f (i.length + 1) i []

/-- reading of `Stream::with_stream_info` (with `MetadataBlock::from_stream_info(info, true)`) -/
def Stream_with_stream_info (s : FlacVerif.StreamInfo) : FlacVerif.Gen.Writer.Stream :=
  { stream_info := { is_last := true, data := .StreamInfo s }, metadata := [], frames := [] }

/-- reading of `Stream::add_metadata_block`: the previous last block (or the STREAMINFO block) loses its last flag -/
def Stream_add_metadata_block (s : FlacVerif.Gen.Writer.Stream) (m : FlacVerif.Gen.Writer.MetadataBlockData) : FlacVerif.Gen.Writer.Stream :=
  let s : FlacVerif.Gen.Writer.Stream :=
    match s.metadata.getLast? with
    | some x => { s with metadata := s.metadata.dropLast ++ [{ x with is_last := false }] }
    | none => { s with stream_info := { s.stream_info with is_last := false } }
  { s with metadata := s.metadata ++ [{ is_last := true, data := m }] }

/-- reading of `stream.frames_mut().push(f)` -/
def Stream_push_frame (s : FlacVerif.Gen.Writer.Stream) (f : FlacVerif.Gen.Writer.Frame) : FlacVerif.Gen.Writer.Stream :=
  { s with frames := s.frames ++ [f] }

/-- reading of `MetadataBlock::from_parts` -/
def MetadataBlock_from_parts (is_last : Bool) (data : FlacVerif.Gen.Writer.MetadataBlockData) : FlacVerif.Gen.Writer.MetadataBlock :=
  { is_last := is_last, data := data }

/-- reading of `Frame::from_parts` -/
def Frame_from_parts (h : FlacVerif.Gen.Writer.FrameHeader) (sfs : List FlacVerif.SubFrame) : FlacVerif.Gen.Writer.Frame :=
  { header := h, subframes := sfs, precomputed_bitstream := none }
/-- reading of `FrameHeader::from_specs` -/
def FrameHeader_from_specs (b : FlacVerif.Gen.Headers.BlockSizeSpec) (c : FlacVerif.Gen.Headers.ChannelAssignment)
    (s : FlacVerif.Gen.Headers.SampleSizeSpec) (r : FlacVerif.Gen.Headers.SampleRateSpec) : FlacVerif.Gen.Writer.FrameHeader :=
  { variable_block_size := true, block_size_spec := b, channel_assignment := c, sample_size_spec := s, sample_rate_spec := r,
    frame_number := 0, start_sample_number := 0 }
'''

PS_FUNCS = ["u_to_i", "unary_code", "raw_samples", "residual", "subframe_header", "constant", "verbatim", "fixed_lpc",
            "quantized_parameters", "lpc", "subframe", "utf8_code", "block_size_code", "sample_rate_code", "frame_header", "frame",
            "stream_info", "metadata_block", "stream"]
PS_NOT = ["convert_bits_err"]


def nom_check():
    lock = None
    for p in (os.path.join(T.REPO, "Cargo.lock"), os.path.join(T.ROOT, "harness", "Cargo.lock")):
        if os.path.exists(p):
            lock = open(p).read()
            break
    if lock is None:
        fail("parser.rs: no Cargo.lock (crate or harness) to read the nom version from")
    m = re.search(r'name = "nom"\nversion = "([^"]+)"', lock)
    if not m or m.group(1) != NOM_VERSION:
        fail(f"parser.rs: nom version {m.group(1) if m else None}; the readings of the nom combinators were written for {NOM_VERSION}")
    dirs = sorted(glob.glob(os.path.expanduser(f"~/.cargo/registry/src/*/nom-{NOM_VERSION}")))
    if not dirs:
        fail(f"parser.rs: nom-{NOM_VERSION} source not found in the cargo registry")
    for f, h in PS_NOM_FILES.items():
        p = os.path.join(dirs[0], f)
        if not os.path.exists(p):
            fail(f"parser.rs: nom source file {f} not found")
        got = hashlib.sha256(open(p, "rb").read()).hexdigest()[:16]
        if got != h:
            fail(f"parser.rs: nom source file {f} differs from the one the readings were written against ({got} / {h})")


def emit_parser(tmod, status, cinfo):
    global T, UBITS, SBITS
    T = tmod
    UBITS, SBITS = T.HDR_BITS, T.WR_SBITS
    comp = os.path.join(T.REPO, "src", "component")
    files = {}
    for fn in ("parser.rs", "datatype.rs", "bitrepr.rs"):
        p = os.path.join(comp, fn)
        if not os.path.exists(p):
            fail(f"{fn}: file not found")
        files[fn] = T.HdrItems(fn, T.hdr_lex(open(p).read(), fn))
    if not T.HDR_DONE:
        fail("parser.rs: part `headers` did not run (Gen/Parser.lean uses Gen/Headers.lean)")
    nom_check()
    items = files["parser.rs"]
    have = sorted(items.fns)
    if have != sorted(PS_FUNCS + PS_NOT):
        fail(f"parser.rs: the functions are {have}, expected {sorted(PS_FUNCS + PS_NOT)}")
    order, consts, values = cinfo
    tx = PsTx(items, files, {}, status)
    tx.values = values
    # constants imported by name into parser.rs
    use = PS_USES["MAX_BITS_PER_SAMPLE"]
    if use in " ".join(items.toks):
        v = values.get("MAX_BITS_PER_SAMPLE")
        if not isinstance(v, int):
            fail("parser.rs: constant MAX_BITS_PER_SAMPLE not found in constant.rs")
        tx.consts["MAX_BITS_PER_SAMPLE"] = (v, "usize")
    for n in PS_FUNCS:
        tx.need(n)
    L = ["-- GENERATED by tools/translate.py (part `parser`, tools/translate_parser.py) from src/component/parser.rs — do not edit",
         "/-",
         "Statement-by-statement mirror of the nom-based parser.  A parser `Input -> IResult<Input, T, E>` is",
         "`Input -> PM (Input × T)`, `PM α = Option (Except PErr α)`: `none` = the Rust code panics, `some (.error .incomplete)` =",
         "`Err(Incomplete)`, `some (.error .error)` = `Err(Error(_))` (kind and position of the error are not represented),",
         "`some (.ok (rest, v))` = `Ok((rest, v))`.  A bit-level input `(&[u8], usize)` is the list of unread bits, a byte-level",
         "input the list of unread bytes.  `dbg = true` is the dev profile, `dbg = false` the release profile (prelude of",
         "Gen/Decode.lean).  `fn f(args) -> impl FnMut(I) -> IResult<..>` gives `f_pre` (what runs when the parser is built),",
         "`f_run` (the closure) and `f` (both).  `x?` = `bindP x fun .. =>`; a step that can panic = `(step).bind fun .. =>`.",
         "-/",
         "import FlacVerif.Model.Component", "import FlacVerif.Model.Verify", "import FlacVerif.Gen.Headers", "import FlacVerif.Gen.Writer",
         "import FlacVerif.Gen.Verify", "import FlacVerif.Gen.Decode",
         "set_option linter.unusedVariables false",
         "namespace FlacVerif.Gen.Parser", "", PS_PRELUDE]
    for n in tx.order:
        L.append(tx.out[n])
    L.append("/- NOT translated by this part: " + ", ".join(PS_NOT))
    L.append("")
    L.append(f"   nom {NOM_VERSION} (cargo registry; every source file below is compared with its sha256 on each run): "
             + ", ".join(sorted(PS_NOM_FILES)))
    L.append("   Readings of the nom combinators (trusted):")
    for n in sorted(tx.used_nom):
        L.append(f"     * {n} = {PS_NOM[n][0]}::{PS_NOM[n][1]}: {PS_NOM[n][-1]}")
    L.append("   Readings of std / heapless (trusted):")
    for r in PS_STD:
        L.append("     * " + r)
    L.append("   Functions of datatype.rs read through a hand-written reading (signature and body fingerprint checked): "
             + ", ".join(f"{o}::{f}" for o, f in sorted(tx.used_callees)))
    L.append("   Functions of part `headers` used: " + (", ".join(sorted(tx.used_hdr)) or "none"))
    L.append("-/")
    L += ["", "end FlacVerif.Gen.Parser", ""]
    return "\n".join(L)
