"""Part `utf8` of tools/translate.py: `encode_to_utf8like` and its table `UTF8_HEADS` (src/component/bitrepr.rs), the one
function of the writer that part `writer` takes as a parameter.

  -> lean/FlacVerif/Gen/Utf8.lean (namespace FlacVerif.Gen.Utf8); theorems: Theorems/C08Gen3.lean

The body is parsed and walked by the engine of part `sink` (tools/translate_sink.py: class SkTx, one Lean step per Rust
operation, `dbg : Bool` = dev / release profile as in Gen/Decode.lean), here with ALL integer types read as `Nat` with
explicit widths (u64 shifts are `shlU 64` / `shrU`, `as u8` is `% 2^8`).  The function returns
`Option (Except Unit (List Nat))`: `none` = panic (an `assert!`, an `unwrap` of a full `heapless::Vec`, an index, an
overflow in the dev profile), `some (.error ())` = `Err(RangeError)`, `some (.ok bytes)` = `Ok(bytes)`.
Trusted base of this part: the readings U8_READINGS below (reproduced in the generated file) plus those of part `sink`
for the shared operators.  Anything else fails closed.
"""
import os
import re

T = None
SK = None

U8_FN = "encode_to_utf8like"
U8_TABLE = "UTF8_HEADS"
U8_READINGS = [
    "all integers are `Nat`; + - * on them: dev profile panics on overflow / underflow, release wraps (addU / subU / mulU dbg W); "
    "a / LITERAL (non-zero) is the exact quotient",
    "v << k, v >> k, v <<= k on a W-bit value: dev profile panics iff k >= W, release masks k (shAmt dbg W), then shlU W (bits "
    "shifted out are dropped) / shrU; a literal amount < W needs no check",
    "a & b, a | b bitwise (Nat `&&&`, `|||`); e as T: narrowing keeps the low bits (`% 2^W`), widening is the value; never panics",
    "u64::BITS = 64 (u32); v.leading_zeros() on u64 = Gen.Headers.leadingZeros 64 v (the reading part `headers` / `writer` use)",
    "heapless::Vec::<u8, N>::new() = [] with capacity N taken from the declared return type; v.push(x) returns Err(x) iff "
    "len == N, so `v.push(x).unwrap()` panics iff the vector is full (pushCap N), in both profiles",
    "CONST_TABLE[i]: panics iff i >= len (both profiles); assert!(c): panics unless c (both profiles)",
    "`return Err(RangeError::from_display(..))`: the error VALUE is dropped (`Except.error ()`); constructing it does not panic "
    "(string formatting of a u64)",
    "`if c { a } else { b }` as a value; `for _ in a..b`: the body once per index; a `let` in a nested block that shadows an "
    "outer variable gets its own Lean name",
]


def fail(msg):
    T.fail("bitrepr.rs: " + msg)


def make_tx():
    par = SK.par
    V = SK.V

    class Utf8Tx(SK.SkTx):
        natk = {"usize": 64, "u32": 32, "u64": 64, "u8": 8}
        bvk = {}

        def err(self, msg):
            fail(f"fn {U8_FN}: {msg}")

        def lty(self, ty):
            if isinstance(ty, tuple) and ty[0] == "res":
                return f"Except Unit ({self.lty(ty[1])})"
            return SK.SkTx.lty(self, ty)

        def rty(self, toks):
            s = "".join(x for x in toks if x not in ("&", "mut"))
            m = re.fullmatch(r"Result<heapless::Vec<u8,(\d+)>,RangeError>", s)
            if m:
                self.cap = int(m.group(1))
                return ("res", ("list", "u8"))
            return SK.SkTx.rty(self, toks)

        def ex(self, e, env, want=None):
            k = e[0]
            if k == "cast":
                a = self.ex(e[1], env)
                to = e[2]
                if a.ty is None or not self.is_nat(a.ty) or to not in self.natk:
                    self.err(f"cast of {a.ty} to {to}")
                self.used.add("cast")
                if self.natk[to] >= self.natk[a.ty]:
                    return V(a.lean, to)
                return V(f"{par(a.lean)} % 2 ^ {self.natk[to]}", to)
            if k == "path" and e[1] == ["u64", "BITS"]:
                return V("64", "u32", 64)
            if k == "if":
                return self.if_value(e, env, want)
            return SK.SkTx.ex(self, e, env, want)

        def if_value(self, e, env, want):
            c = self.ex(e[1], env)
            if c.ty != "bool":
                self.err("`if` condition")
            if e[3] is None or e[3][0] != "block":
                self.err("`if` value without a plain `else` block")
            outs = []
            tys = []
            save = self.steps
            for blk in (e[2], e[3]):
                if blk[1] or blk[2] is None:
                    self.err("`if` value: a branch with statements")
                self.steps = []
                v = self.ex(blk[2], env, want)
                if v.ty is None:
                    self.err("`if` value: untyped branch")
                outs.append(self.wrap(self.take(), f"some {par(v.lean)}"))
                tys.append(v.ty)
            self.steps = save
            if tys[0] != tys[1] or (want is not None and tys[0] != want):
                self.err(f"`if` value: branch types {tys}")
            r = self.step(f"if {c.lean if c.prop else c.lean + ' = true'} then\n{SK.ind(outs[0], 4)}\n  else\n{SK.ind(outs[1], 4)}")
            return V(r, tys[0])

        def binop(self, op, le, re_, env, want):
            if op in ("|", "/"):
                a = self.ex(le, env, want)
                b = self.ex(re_, env, a.ty)
                if a.ty is None and b.ty is not None:
                    a = self.typed(a, b.ty)
                elif b.ty is None and a.ty is not None:
                    b = self.typed(b, a.ty)
                if a.ty is None or a.ty != b.ty or not self.is_nat(a.ty):
                    self.err(f"`{op}` on {a.ty} and {b.ty}")
                if op == "|":
                    return V(f"{par(a.lean)} ||| {par(b.lean)}", a.ty)
                if not (b.lit is not None and b.lit > 0):
                    self.err("division by a non-literal")
                return V(f"{par(a.lean)} / {b.lean}", a.ty)
            return SK.SkTx.binop(self, op, le, re_, env, want)

        def call(self, e, env, want):
            f, args = e[1], e[2]
            if f[0] == "path" and f[1] == ["heapless", "Vec", "new"] and not args:
                return V("[]", ("list", "u8"))
            if f[0] == "var" and f[1] == "Err" and len(args) == 1:
                a = args[0]
                if not (a[0] == "call" and a[1] == ("path", ["RangeError", "from_display"])):
                    self.err("`Err(..)` of something that is not RangeError::from_display(..)")
                return V("Except.error ()", self.ret_ty)
            return SK.SkTx.call(self, e, env, want)

        def mcall(self, e, env, want):
            if e[2] == "leading_zeros" and not e[3]:
                r = self.ex(e[1], env)
                if r.ty != "u64":
                    self.err(f".leading_zeros() on {r.ty}")
                return V(f"FlacVerif.Gen.Headers.leadingZeros 64 {par(r.lean)}", "u32")
            return SK.SkTx.mcall(self, e, env, want)

        def st_mutator(self, e, env, Kc, rest):
            # `<vec>.push(x).unwrap();`
            if e[2] == "unwrap" and not e[3] and e[1][0] == "mcall" and e[1][2] == "push" and len(e[1][3]) == 1 \
                    and e[1][1][0] == "var" and e[1][1][1] in env and env[e[1][1][1]].ty == ("list", "u8"):
                var = env[e[1][1][1]]
                if not var.mut:
                    self.err("push on a vector that is not `mut`")
                x = self.typed(self.ex(e[1][3][0], env, "u8"), "u8", "pushed value")
                self.step(f"pushCap {self.cap} {var.lean} {par(x.lean)}", var.lean)
                return self.wrap(self.take(), rest(env))
            self.err(f"statement `.{e[2]}(..)`")

        def walk(self, stmts, i, env, Kc):
            if i < len(stmts):
                st = stmts[i]
                if st[0] == "assert" and not st[2]:
                    env = dict(env)
                    self.curK = Kc
                    c = self.ex(st[1], env)
                    self.step(f"req {self.as_bool(c)}", "_")
                    return self.wrap(self.take(), self.walk(stmts, i + 1, env, Kc))
                if st[0] == "assign" and st[1] in ("<<=", ">>="):
                    stmts = list(stmts)
                    stmts[i] = ("assign", "=", st[2], ("bin", st[1][:-1], st[2], st[3]))
            return SK.SkTx.walk(self, stmts, i, env, Kc)

    return Utf8Tx


def emit_utf8(Tmod, status=None):
    global T, SK
    T = Tmod
    import translate_sink
    import translate_source
    SK = translate_sink
    SK.T = Tmod
    SK.TS = translate_source
    path = os.path.join(T.REPO, "src", "component", "bitrepr.rs")
    if not os.path.exists(path):
        fail("file not found")
    toks = T.hdr_lex(open(path).read(), "bitrepr.rs")
    items = T.HdrItems("bitrepr.rs", toks)
    rec = items.fns.get(U8_FN)
    if rec is None or rec["body"] is None:
        fail(f"fn {U8_FN} not found")
    if rec["generics"] or ["".join(p) for p in rec["params"]] != ["val:u64"]:
        fail(f"fn {U8_FN}: signature")
    # the table
    pos = [i for i in range(len(toks) - 1) if toks[i] == "const" and toks[i + 1] == U8_TABLE]
    if len(pos) != 1:
        fail(f"const {U8_TABLE} not found exactly once")
    i = pos[0]
    j, d = i, 0
    while not (toks[j] == ";" and d == 0):
        d += toks[j] in ("[", "(") 
        d -= toks[j] in ("]", ")")
        j += 1
    decl = toks[i + 2:j]
    m = re.fullmatch(r":\[u8;(\d+)\]=\[(.*)\]", "".join(decl))
    if not m:
        fail(f"const {U8_TABLE}: `{' '.join(decl)}`")
    vals = [T.hdr_int_literal(x, f"bitrepr.rs: const {U8_TABLE}")[0] for x in m.group(2).split(",") if x]
    if len(vals) != int(m.group(1)) or any(v >= 256 for v in vals):
        fail(f"const {U8_TABLE}: length / range")
    tx = make_tx()(None, SK.make_parser())
    tx.setup_group = lambda g: None
    tx.dict_mode, tx.infallible, tx.fields, tx.self_lty, tx.self_rust, tx.sgen = False, False, None, None, None, False
    tx.setup(None, rec, "")
    tx.selfmode = None
    tx.cap = None
    tx.sealed_consts_decl = []
    tx.req_sigs = {}
    tx.ret_ty = tx.rty(rec["ret"])
    tx.full_ret = tx.ret_ty
    tx.pure = False
    lo, hi = rec["body"]
    ps = tx.Parser(toks, lo, hi, f"bitrepr.rs: fn {U8_FN}", None)
    blk = ps.block()
    if ps.p != hi:
        fail(f"fn {U8_FN}: trailing tokens")
    env = {"val": SK.Var("val", "u64", False), U8_TABLE: SK.Var(U8_TABLE, ("list", "u8"), False)}
    text = tx.walk(tx.body(blk), 0, env, SK.FnK(tx))
    if tx.steps:
        fail("internal: pending steps")
    out = (
        f"-- GENERATED by tools/translate.py (part `utf8`, tools/translate_utf8.py) from src/component/bitrepr.rs — do not edit\n"
        f"/-\nStatement-by-statement mirror of `{U8_FN}` and its table `{U8_TABLE}`.  `none` = the Rust function panics, "
        f"`some (.error ())` =\n`Err(RangeError)`, `some (.ok bytes)` = `Ok(bytes)`; `dbg = true` dev profile, `dbg = false` release "
        f"(conventions of Gen/Decode.lean,\nprelude of Gen/Sink.lean).  Integers are `Nat`; the domain `val < 2^64` is a hypothesis of "
        f"the theorems.\n-/\nimport FlacVerif.Gen.Headers\nimport FlacVerif.Gen.Sink\nset_option linter.unusedVariables false\n"
        f"namespace FlacVerif.Gen.Utf8\nopen FlacVerif.Gen.Sink\n\n"
        f"/-- `heapless::Vec::<_, cap>::push(x).unwrap()` -/\n"
        f"def pushCap {{α : Type}} (cap : Nat) (v : List α) (x : α) : Option (List α) := if v.length < cap then some (v ++ [x]) else none\n\n"
        f"/-- `const {U8_TABLE}: [u8; {len(vals)}]` (bitrepr.rs) -/\ndef {U8_TABLE} : List Nat := [{', '.join(str(v) for v in vals)}]\n\n"
        f"/-- `{U8_FN}` (bitrepr.rs) -/\ndef {U8_FN} (dbg : Bool) (val : Nat) : Option ({tx.lty(tx.ret_ty)}) :=\n{SK.ind(text)}\n\n"
        f"/-\nTrusted readings of this part (tools/translate_utf8.py):\n" + "\n".join("  * " + r for r in U8_READINGS) + "\n-/\n"
        f"end FlacVerif.Gen.Utf8\n")
    return out
