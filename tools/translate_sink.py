"""Part `sink` of tools/translate.py: the bit sinks of src/bitsink.rs.

  src/bitsink.rs  the trait `BitSink` (required methods -> the record `BitSinkReq`, provided methods `write_bytes_aligned`,
                  `write_twoc`, `write_zeros` -> functions over such a record), `struct MemSink<S>`, `impl<S: Bits> MemSink<S>`
                  (`new`, `with_capacity`, `clear`, `len`, `is_empty`, `reserve`, `paddings`, `paddings_to_byte`, `into_inner`,
                  `as_slice`, `write_to_byte_slice`), `impl<S: Bits> Default for MemSink<S>`, `impl BitSink for MemSink<u8>`,
                  `impl MemSink<u64>` (`write_msbs_impl`), `impl BitSink for MemSink<u64>`, the sealed traits
                  `seal_bits::Sealed` (associated consts `BITS`, `BYTES`, `BITS_LOG2`, the list of implementing types) and
                  `seal_signed_bits::Sealed`
  -> lean/FlacVerif/Gen/Sink.lean (namespace FlacVerif.Gen.Sink); theorems: Theorems/C11Gen.lean

The bodies are PARSED with the lexer of translate.py and the statement / expression parser of translate_source.py
(`SrcParser`), extended here by `<T as Trait>::NAME` and `#[cfg(target_endian = ..)]`.  The translation is a
continuation-passing walk that emits one Lean step per Rust operation.  Conventions (those of Gen/Decode.lean):

  * a function that can panic is `f (dbg : Bool) args : Option R`, `none` = panic; `dbg = true` is the dev profile,
    `dbg = false` the release profile; every profile-dependent operation is a prelude function taking `dbg`.
  * a `&mut self` method returns `(value, final self)`; a `&mut [u8]` parameter is returned as its final content.
  * `T: Bits` is an implicit width `w` and a `BitVec w`; `S` (the storage element) a width `sw`; `usize` / `u32` are `Nat`.
  * `Result<R, Infallible>` is `R`; in the trait's provided methods `Result<R, Self::Error>` is `Except ε R`.

Nothing about the translated bodies is built in.  What IS built in (the trusted base of this part) are the tables
SK_* below; they are reproduced at the end of the generated file.  Anything else raises `fail(..)`.
"""
import re

T = None
TS = None         # translate_source (for SrcParser)

# ---------------------------------------------------------------------------------------------- trusted tables

# functions that MUST exist and are translated, in emission order (callees first): (group, fn)
SK_GROUPS = {
    "MemSink":   dict(kind="inherent", gen="S", ty="MemSink<S>", lean="MemSink"),
    "Default":   dict(kind="trait", trait="Default", gen="S", ty="MemSink<S>", lean="MemSink"),
    "U64":       dict(kind="inherent", gen=None, ty="MemSink<u64>", lean="MemSinkU64"),
    "BitSinkU64": dict(kind="trait", trait="BitSink", gen=None, ty="MemSink<u64>", lean="MemSinkU64"),
    "BitSinkU8": dict(kind="trait", trait="BitSink", gen=None, ty="MemSink<u8>", lean="MemSinkU8"),
}
SK_SPEC = [
    ("MemSink", "new"), ("Default", "default"), ("MemSink", "with_capacity"), ("MemSink", "clear"), ("MemSink", "len"),
    ("MemSink", "is_empty"), ("MemSink", "reserve"), ("MemSink", "paddings"), ("MemSink", "paddings_to_byte"),
    ("MemSink", "into_inner"), ("MemSink", "as_slice"), ("MemSink", "write_to_byte_slice"),
    ("BitSinkU8", "align_to_byte"), ("BitSinkU8", "write_bytes_aligned"), ("BitSinkU8", "write_msbs"),
    ("BitSinkU8", "write_lsbs"), ("BitSinkU8", "write"), ("BitSinkU8", "write_zeros"),
    ("U64", "write_msbs_impl"),
    ("BitSinkU64", "write_msbs"), ("BitSinkU64", "write_lsbs"), ("BitSinkU64", "write"), ("BitSinkU64", "align_to_byte"),
    ("BitSinkU64", "write_bytes_aligned"), ("BitSinkU64", "write_zeros"),
]
# functions of the indexed groups that are deliberately NOT translated (formatting only)
SK_UNTRANSLATED = {("MemSink", "to_bitstring"): "human-readable dump (String formatting); not part of any property"}
# provided methods of the trait, translated generically over the record of required methods
SK_TRAIT = "BitSink"
SK_PROVIDED = ["write_bytes_aligned", "write_twoc", "write_zeros"]
SK_REQUIRED = ["align_to_byte", "write_lsbs", "write_msbs", "write"]

# the supertrait list of `seal_bits::Sealed` the readings below were written for (every operator / method used on a value
# of a type `T: Bits` is the std / num-traits impl for the primitive unsigned integer types named by `impl Sealed for ..`)
SK_SEALED_BOUNDS = ("std::ops::BitAndAssign + std::ops::ShlAssign<usize> + From<u8> + Into<u64> + AsPrimitive<u8> + One + "
                    "PrimInt + ToBytes + WrappingShl")
SK_SEALED_TYPES = {"u8": 8, "u16": 16, "u32": 32, "u64": 64}
SK_SIGNED_BOUNDS = "Into<i64>"
SK_SIGNED_TYPES = {"i8": 8, "i16": 16, "i32": 32, "i64": 64}
# `#[rustversion::since(1.67)]` selects the item for the toolchain in use (rustc >= 1.67); `before(1.67)` items are
# translated too, with the suffix `_before`, so that a theorem can show both definitions agree
SK_RUSTVERSION = {"since(1.67)": "", "before(1.67)": "_before"}
# cfg predicates with a fixed value
SK_CFG = {'target_endian="little"': True, 'target_endian="big"': False}

SK_READINGS = [
    "usize / u32 values are `Nat`; a + b, a - b, a * b, a += b, a -= b on them: dev profile panics on overflow (`none`), "
    "release wraps (addU / subU / mulU dbg W); usize is 64 bits",
    "a value of a type `T: Bits` (sealed: u8, u16, u32, u64) is a `BitVec w`; u8 / u64 / i64 values are `BitVec 8` / `BitVec 64`; "
    "a value of a type `T: SignedBits` is an `Int` and `val.into()` to i64 is its two's complement `BitVec.ofInt 64`",
    "v << k, v >> k, v <<= k on a W-bit value with a `usize` amount: dev profile panics iff k >= W, release masks k to k % W "
    "(shlB / shrB dbg; on usize: shAmt + shlU / shrU); bits shifted out are dropped; a literal amount < W needs no check; `<<` "
    "on i64 is the same bit operation",
    "a - b on `T: Bits` (PrimInt): dev profile panics iff b > a, release wraps (subB dbg)",
    "!v, a & b, a &= b, a |= b: bitwise, never panic; !x on usize is 2^64 - 1 - x (notU)",
    "a.wrapping_add(b): the sum mod 2^W in both profiles; v.wrapping_shr(k) / wrapping_shl(k) (k: u32): shift by k % W, never panic; "
    "a.saturating_sub(b) on usize: a - b or 0",
    "e as u64 of an i64: the same bits; e as u32 of a usize: e % 2^32; e as usize of a u32: the value",
    "T::one() = 1; v.into() with `T: Into<u64>`: zero extension (setWidth 64); v.as_() with `T: AsPrimitive<u8>` (the only "
    "AsPrimitive bound of Sealed): truncation to the low 8 bits (setWidth 8)",
    "std::mem::size_of::<T>() for a W-bit primitive integer = W / 8; n.ilog2() = floor(log2 n) (panics for n = 0: only used "
    "in constant evaluation, where a panic is a compile error); n.trailing_zeros() = number of trailing zero bits",
    "v.to_be_bytes(): the W / 8 bytes of v, most significant first; v.to_ne_bytes(): on a little-endian target "
    "(cfg target_endian = \"little\" is taken as true, \"big\" as false) least significant first; .as_ref() / & / * / .iter() transparent",
    "Vec: vec![] = [], Vec::with_capacity(n) = [] (capacity is not modelled; allocation failure / capacity overflow is not "
    "modelled), .len() = length, .push(x) = xs ++ [x], .extend_from_slice(ys) = xs ++ ys, .resize(n, x) = take n ++ replicate, "
    ".clear() = [], .reserve(n) = no change, .last_mut() = a reference to the last element (None when empty): `*p |= b` "
    "through it replaces the last element; Option::unwrap panics on None in both profiles",
    "xs[i]: panics iff i >= len (both profiles); xs[a..b] / xs[a..] / xs[..b]: panics unless a <= b <= len; "
    "dst[a..b].copy_from_slice(src): additionally panics unless src.len() == b - a",
    "debug_assert!(c): dev profile only: c is evaluated (with its own panics) and must hold; release: nothing is evaluated",
    "associated consts of `Sealed` are exact natural numbers (an overflow in constant evaluation is a compile error)",
    "Result<R, Infallible> is R (`Ok(x)` = x, `e?` = e); in the provided methods of the trait Result<R, Self::Error> is "
    "`Except ε R` and `e?` returns early with the error and the sink as it is at that point",
    "`for x in xs` / `for i in a..b`: the body once per element, in order; `while n > C { ..; n -= D; .. }` (C, D literals, "
    "D > 0, no other assignment to n): at most n iterations (whileF with fuel n)",
]

SK_RESERVED = {"dbg", "w", "sw", "req", "addU", "subU", "mulU", "shAmt", "shlU", "shrU", "shlB", "shrB", "subB", "notU",
               "beBytes", "leBytes", "sliceR", "sliceCopy", "lastMut", "setLast", "vecResize", "forF", "whileF", "bindF",
               "rangeL", "Flow", "some", "none", "d", "σ", "ε", "ilog2", "trailingZeros", "sizeOf"}


def fail(msg):
    T.fail("bitsink.rs: " + msg)


def ind(s, k=2):
    return "\n".join((" " * k + l if l else l) for l in s.split("\n"))


def par(s):
    s = s.strip()
    if re.fullmatch(r"[A-Za-z_0-9.#'σε]+", s) or (s.startswith("(") and s.endswith(")") and balanced(s[1:-1])):
        return s
    return "(" + s + ")"


def balanced(s):
    d = 0
    for c in s:
        if c == "(":
            d += 1
        elif c == ")":
            d -= 1
            if d < 0:
                return False
    return d == 0


def group_end(toks, i):
    pairs = {"(": ")", "[": "]", "{": "}"}
    stack = []
    while i < len(toks):
        if toks[i] in pairs:
            stack.append(pairs[toks[i]])
        elif toks[i] in pairs.values():
            if not stack or stack.pop() != toks[i]:
                fail(f"unbalanced bracket {toks[i]!r}")
            if not stack:
                return i + 1
        i += 1
    fail("unbalanced brackets")


# ---------------------------------------------------------------------------------------------- parser

def make_parser():
    class SkParser(TS.SrcParser):
        def sub(self, toks):
            ps = SkParser(toks, 0, len(toks), self.where, self.macros)
            ps.scan_only = self.scan_only
            ps.depth = self.depth + 1
            return ps

        def cfg_attr(self):
            self.p += 2
            self.eat("cfg")
            if self.peek() != "(":
                self.err("#[cfg ..]")
            q = group_end(self.t, self.p)
            key = "".join(self.t[self.p + 1:q - 1])
            if key not in SK_CFG:
                self.err(f"cfg predicate `{key}`")
            self.p = q
            self.eat("]")
            return SK_CFG[key]

        def primary(self):
            if self.peek() == "<":
                self.p += 1
                t = self.peek()
                if not self.is_ident(t):
                    self.err("qualified path")
                self.p += 1
                self.eat("as")
                tr = []
                while self.peek() != ">":
                    if self.peek() is None or not (self.is_ident(self.peek()) or self.peek() == "::"):
                        self.err("qualified path")
                    tr.append(self.peek())
                    self.p += 1
                self.p += 1
                self.eat("::")
                f = self.peek()
                if not self.is_ident(f):
                    self.err("qualified path")
                self.p += 1
                return ("qpath", t, "".join(tr), f)
            return TS.SrcParser.primary(self)

    return SkParser


# ---------------------------------------------------------------------------------------------- item index

class Index:
    """top-level items of bitsink.rs: trait BitSink, struct MemSink, impl blocks, the two sealed modules"""

    def __init__(self, toks):
        self.t = toks
        self.items = T.HdrItems.__new__(T.HdrItems)
        self.items.fname = "bitsink.rs"
        self.items.toks = toks
        self.impls = {}       # (generics text, trait | None, type text) -> {fn: rec}
        self.trait_fns = {}
        self.struct = None
        self.mods = {}        # module name -> (lo, hi)
        self.scan(0, len(toks))

    def scan(self, i, end):
        t = self.t
        attrs = []
        while i < end:
            x = t[i]
            if x == "#" and t[i + 1] == "[":
                j = group_end(t, i + 1)
                attrs.append("".join(t[i + 2:j - 1]))
                i = j
                continue
            if x == "#" and t[i + 1] == "!":
                i = group_end(t, i + 2)
                continue
            if x == "mod" and t[i + 2] == "{":
                j = group_end(t, i + 2)
                if not any(a.startswith("cfg(") and "test" in a for a in attrs):
                    if attrs:
                        fail(f"mod {t[i + 1]}: attribute {attrs[0]}")
                    if t[i + 1] in self.mods:
                        fail(f"mod {t[i + 1]} twice")
                    self.mods[t[i + 1]] = (i + 3, j - 1)
                i, attrs = j, []
                continue
            if x == "trait" and t[i + 1] == SK_TRAIT:
                j = i
                while t[j] != "{":
                    j += 1
                if t[i + 2:j] != [":", "Sized"]:
                    fail(f"trait {SK_TRAIT}: header `{' '.join(t[i:j])}`")
                e = group_end(t, j)
                if self.trait_fns:
                    fail(f"trait {SK_TRAIT} twice")
                self.scan_members(j + 1, e - 1, self.trait_fns, f"trait {SK_TRAIT}")
                i, attrs = e, []
                continue
            if x == "struct" and t[i + 1] == "MemSink":
                j = i
                while t[j] != "{":
                    if t[j] == ";":
                        fail("struct MemSink: not a braced struct")
                    j += 1
                e = group_end(t, j)
                if t[i + 2:j] != ["<", "S", ">"] or self.struct is not None:
                    fail("struct MemSink: header")
                fields = []
                for f in T.wr_split_top(t[j + 1:e - 1]):
                    f = [z for z in f if z != "pub"]
                    if len(f) < 3 or f[1] != ":" or "#" in f:
                        fail(f"struct MemSink: field `{' '.join(f)}`")
                    fields.append((f[0], f[2:]))
                self.struct = fields
                i, attrs = e, []
                continue
            if x == "impl":
                j = i + 1
                gen = None
                if t[j] == "<":
                    k = j
                    while t[k] != ">":
                        k += 1
                    gen = "".join(t[j + 1:k])
                    j = k + 1
                k = j
                while t[k] != "{":
                    if t[k] == ";":
                        fail("impl header")
                    k += 1
                head = t[j:k]
                e = group_end(t, k)
                if "for" in head:
                    p = head.index("for")
                    key = (gen, "".join(head[:p]), "".join(head[p + 1:]))
                else:
                    key = (gen, None, "".join(head))
                if key in self.impls:
                    fail(f"impl {key} twice")
                self.impls[key] = {}
                self.scan_members(k + 1, e - 1, self.impls[key], f"impl {' '.join(head)}")
                i, attrs = e, []
                continue
            if x in ("{", "(", "["):
                i = group_end(t, i)
                if x == "{":
                    attrs = []
                continue
            if x == ";":
                attrs = []
            i += 1

    def scan_members(self, i, end, dest, where):
        """fns (HdrItems.parse_fn records), `type X = ..;` and `const X: T = e;` members"""
        t = self.t
        attrs = []
        while i < end:
            x = t[i]
            if x == "#" and t[i + 1] == "[":
                j = group_end(t, i + 1)
                attrs.append("".join(t[i + 2:j - 1]))
                i = j
                continue
            if x == "fn":
                rec, i = self.items.parse_fn(i, attrs, where)
                if rec["name"] in dest:
                    fail(f"{where}: duplicate fn {rec['name']}")
                dest[rec["name"]] = rec
                attrs = []
                continue
            if x == "type":
                j = i
                while t[j] != ";":
                    j += 1
                if t[i + 2] == "=":
                    dest.setdefault("#types", {})[t[i + 1]] = t[i + 3:j]
                elif t[i + 2] != ":":
                    fail(f"{where}: associated type `{' '.join(t[i:j])}`")
                i, attrs = j + 1, []
                continue
            if x == "const" and t[i + 1] != "fn":
                j = i
                while t[j] != ";":
                    j = group_end(t, j) if t[j] in ("(", "[", "{") else j + 1
                body = t[i + 1:j]
                if len(body) < 5 or body[1] != ":" or "=" not in body:
                    fail(f"{where}: const `{' '.join(body)}`")
                eq = body.index("=")
                dest.setdefault("#consts", []).append(dict(name=body[0], ty=body[2:eq], expr=body[eq + 1:], attrs=list(attrs)))
                i, attrs = j + 1, []
                continue
            if x in ("pub", "const", "unsafe", "async"):
                if x in ("unsafe", "async"):
                    fail(f"{where}: `{x}` item")
                i += 1
                continue
            if x in ("{", "(", "["):
                fail(f"{where}: unexpected `{x}`")
            if x == ";":
                attrs = []
                i += 1
                continue
            fail(f"{where}: unexpected token `{x}`")


# ---------------------------------------------------------------------------------------------- translation

NATK = {"usize": 64, "u32": 32}
BVK = {"u8": 8, "u16": 16, "u64": 64, "i64": 64}


class V:
    __slots__ = ("lean", "ty", "lit", "prop")

    def __init__(self, lean, ty, lit=None, prop=False):
        self.lean, self.ty, self.lit, self.prop = lean, ty, lit, prop


class Var:
    __slots__ = ("lean", "ty", "mut", "depth")

    def __init__(self, lean, ty, mut=False, depth=0):
        self.lean, self.ty, self.mut, self.depth = lean, ty, mut, depth


class FnInfo:
    pass


class K:
    """continuation at the end of a block"""
    small = True

    def __init__(self, parent=None):
        self.parent = parent

    def retp(self, p):
        return self.parent.retp(p)

    @property
    def rtype(self):
        return self.parent.rtype

    @property
    def in_loop(self):
        return self.parent.in_loop if self.parent else False


class FnK(K):
    def __init__(self, tx):
        K.__init__(self, None)
        self.tx = tx

    def retp(self, p):
        return self.tx.some(p)

    @property
    def rtype(self):
        return self.tx.fn_rtype()

    def fall(self, env):
        tx = self.tx
        if tx.ret_ty == "unit":
            return tx.finish(env, V("()", "unit"), self)
        if tx.ret_ty == ("res", "unit") and False:
            pass
        tx.err("the body ends without a value")


class ContK(K):
    small = False

    def __init__(self, parent, tx, rest_fn, names):
        K.__init__(self, parent)
        self.tx, self.rest_fn, self.names = tx, rest_fn, names
        self.depth = tx.depth

    def fall(self, env):
        self.tx.depth = self.depth
        return self.rest_fn({k: v for k, v in env.items() if k in self.names})


class JoinK(K):
    def __init__(self, parent, name, tup):
        K.__init__(self, parent)
        self.name, self.tup = name, tup

    def fall(self, env):
        return f"{self.name} {self.tup}"


class LoopK(K):
    def __init__(self, parent, tx, tup, exits, rtype):
        K.__init__(self, parent)
        self.tx, self.tup, self.exits, self._rtype = tx, tup, exits, rtype

    def retp(self, p):
        if not self.exits:
            self.tx.err("internal: return inside a loop without exits")
        return f"some (Flow.ret {par(p)})"

    @property
    def rtype(self):
        return self._rtype()

    @property
    def in_loop(self):
        return True

    def fall(self, env):
        return f"some (Flow.next {self.tup})" if self.exits else f"some {self.tup}"


class Impure(Exception):
    pass


class SkTx:
    natk = NATK          # Nat-kind integer types (subclasses may re-assign the two tables)
    bvk = BVK            # BitVec-kind integer types

    def __init__(self, idx, Parser):
        self.idx = idx
        self.Parser = Parser
        self.fns = {}          # (group, name) -> FnInfo
        self.used = set()
        self.sealed_consts = []

    # ------------------------------------------------------------------ basics
    def err(self, msg):
        fail(f"{self.where}: {msg}")

    def fresh(self, base="v"):
        self.counter += 1
        return f"{base}{self.counter}"

    def some(self, x):
        return x if self.pure else f"some {par(x)}"

    def mangle(self, n):
        if n in SK_RESERVED or n in T.WR_LEAN_RESERVED or re.fullmatch(r"[vk]\d+", n):
            return n + "_"
        return n

    def is_nat(self, ty):
        return isinstance(ty, str) and ty in self.natk

    def is_bv(self, ty):
        return (isinstance(ty, str) and ty in self.bvk) or (isinstance(ty, tuple) and ty[0] == "tv")

    def width(self, ty):
        if isinstance(ty, str) and ty in self.bvk:
            return str(self.bvk[ty])
        if isinstance(ty, tuple) and ty[0] == "tv":
            return self.wname[ty[1]]
        self.err(f"internal: width of {ty}")

    def lty(self, ty):
        if self.is_nat(ty):
            return "Nat"
        if self.is_bv(ty):
            return f"BitVec {self.width(ty)}"
        if ty == "sig":
            return "Int"
        if ty == "bool":
            return "Bool"
        if ty == "unit":
            return "Unit"
        if ty == "self":
            return self.self_lty
        if isinstance(ty, tuple) and ty[0] == "list":
            return f"List ({self.lty(ty[1])})"
        if isinstance(ty, tuple) and ty[0] == "res":
            return self.lty(ty[1]) if self.infallible else f"Except ε {par(self.lty(ty[1]))}"
        if isinstance(ty, tuple) and ty[0] == "infer":
            if ty[1][0] is None:
                self.err("the type of an untyped integer variable could not be determined")
            return self.lty(ty[1][0])
        self.err(f"internal: Lean type of {ty}")

    def resolve(self, ty):
        if isinstance(ty, tuple) and ty[0] == "infer" and ty[1][0] is not None:
            return ty[1][0]
        return ty

    def rty(self, toks):
        t = [x for x in toks if not x.startswith("'") and x not in ("&", "mut")]
        s = "".join(t)
        if s in self.natk or s in self.bvk:
            return s
        if s == "bool":
            return "bool"
        if s == "()":
            return "unit"
        if s in self.generics:
            return "sig" if self.generics[s] == "SignedBits" else ("tv", s)
        if s in ("Self", self.self_rust) and self.self_rust:
            return "self"
        m = re.fullmatch(r"Vec<(\w+)>|\[(\w+)\]", s)
        if m:
            return ("list", self.rty([m.group(1) or m.group(2)]))
        if re.fullmatch(r"[A-Z]::Bytes", s) and s[0] in self.generics and self.generics[s[0]] == "Bits":
            self.used.add("bytes")
            return ("list", "u8")     # num-traits ToBytes::Bytes of a primitive integer: [u8; size_of::<T>()]
        m = re.fullmatch(r"Result<(.+),Self::Error>", s)
        if m:
            return ("res", self.rty([m.group(1)]))
        self.err(f"type `{' '.join(toks)}`")

    def lit_lean(self, v, ty):
        ty = self.resolve(ty)
        if self.is_nat(ty):
            if not 0 <= v < 2 ** self.natk[ty]:
                self.err(f"literal {v} does not fit {ty}")
            return str(v)
        if isinstance(ty, str) and ty in self.bvk and ty != "i64":
            if not 0 <= v < 2 ** self.bvk[ty]:
                self.err(f"literal {v} does not fit {ty}")
            return f"({v}#{self.bvk[ty]})"
        self.err(f"integer literal of type {ty}")

    def typed(self, v, ty, what="value"):
        """give an untyped literal the type `ty`; check a typed value against it"""
        ty = self.resolve(ty)
        if v.ty is None:
            if isinstance(ty, tuple) and ty[0] == "infer":
                return v
            return V(self.lit_lean(v.lit, ty), ty, v.lit)
        vt = self.resolve(v.ty)
        if isinstance(vt, tuple) and vt[0] == "infer":
            if not self.is_nat(ty):
                self.err(f"{what}: an untyped integer variable is used as {ty}")
            vt[1][0] = ty
            return V(v.lean, ty, v.lit)
        if isinstance(ty, tuple) and ty[0] == "infer":
            if not self.is_nat(vt):
                self.err(f"{what}: an untyped integer variable is used as {vt}")
            ty[1][0] = vt
            return v
        if vt != ty:
            self.err(f"{what}: expected {ty}, found {vt}")
        return v

    def step(self, text, pat=None):
        if self.pure:
            raise Impure()
        self.nfall += 1
        pat = pat or self.fresh()
        self.steps.append(("bind", pat, text))
        return pat

    def take(self):
        s, self.steps = self.steps, []
        return s

    def wrap(self, steps, rest):
        out = []
        for s in steps:
            if s[0] == "bind":
                out.append(f"({s[2]}).bind fun {s[1]} =>")
            elif s[0] == "let":
                out.append(f"let {s[1]} := {s[2]}")
            else:       # try
                out.append(f"match {s[2]} with\n| .error e => {s[3]}\n| .ok {s[1]} =>")
        return "\n".join(out + [rest])

    def cond(self, v):
        if v.ty != "bool":
            self.err("condition is not a bool")
        return v.lean

    def as_bool(self, v):
        return f"(decide {par(v.lean)})" if v.prop else v.lean

    # ------------------------------------------------------------------ expressions
    def ex(self, e, env, want=None):
        k = e[0]
        if k == "paren":
            return self.ex(e[1], env, want)
        if k == "int":
            if e[2] is not None:
                return V(self.lit_lean(e[1], e[2]), e[2], e[1])
            if want is not None and not (isinstance(want, tuple) and want[0] == "infer"):
                return V(self.lit_lean(e[1], want), self.resolve(want), e[1])
            return V(str(e[1]), None, e[1])
        if k == "boollit":
            return V("true" if e[1] else "false", "bool")
        if k == "unit":
            return V("()", "unit")
        if k == "var":
            n = e[1]
            if n not in env:
                self.err(f"unknown name `{n}`")
            v = env[n]
            if isinstance(v.ty, tuple) and v.ty[0] == "lastref":
                self.err(f"`{n}` is a reference into a Vec: only `*{n} op= e` is read")
            return V(v.lean, self.resolve(v.ty))
        if k == "un":
            op = e[1]
            if op in ("&", "*", "&mut"):
                if op == "*" and e[2][0] == "var" and e[2][1] in env and isinstance(env[e[2][1]].ty, tuple) \
                        and env[e[2][1]].ty[0] == "lastref":
                    return V(env[e[2][1]].lean, env[e[2][1]].ty[2])
                return self.ex(e[2], env, want)
            if op == "!":
                a = self.ex(e[2], env, want)
                if a.ty is None:
                    self.err("`!` of an untyped literal")
                if self.is_nat(a.ty):
                    self.used.add("bitops")
                    return V(f"notU {self.natk[a.ty]} {par(a.lean)}", a.ty)
                if self.is_bv(a.ty):
                    self.used.add("bitops")
                    return V(f"~~~{par(a.lean)}", a.ty)
                if a.ty == "bool":
                    return V(f"¬ {par(a.lean)}" if a.prop else f"!{par(a.lean)}", "bool", prop=a.prop)
            self.err(f"unary `{op}`")
        if k == "bin":
            return self.binop(e[1], e[2], e[3], env, want)
        if k == "cast":
            a = self.ex(e[1], env)
            to = e[2]
            if a.ty == "i64" and to == "u64":
                self.used.add("cast")
                return V(a.lean, "u64")
            if a.ty == "usize" and to == "u32":
                self.used.add("cast")
                return V(f"{par(a.lean)} % 2 ^ 32", "u32")
            if a.ty == "u32" and to == "usize":
                self.used.add("cast")
                return V(a.lean, "usize")
            self.err(f"cast of {a.ty} to {to}")
        if k == "field":
            r = self.ex(e[1], env)
            if r.ty != "self" or self.fields is None:
                self.err(f"field access .{e[2]}")
            if e[2] not in self.fields:
                self.err(f"unknown field .{e[2]}")
            return V(f"{r.lean}.{e[2]}", self.fields[e[2]])
        if k == "path":
            return self.path_value(e[1])
        if k == "qpath":
            if e[1] not in SK_SEALED_TYPES or e[2] != "seal_bits::Sealed":
                self.err(f"qualified path <{e[1]} as {e[2]}>")
            return self.sealed_const(str(SK_SEALED_TYPES[e[1]]), e[3])
        if k == "array":
            if e[1]:
                self.err("array literal with elements")
            if not (isinstance(want, tuple) and want[0] == "list"):
                self.err("vec![] of unknown element type")
            self.used.add("vec")
            return V("[]", want)
        if k == "index":
            return self.index(e, env)
        if k == "call":
            return self.call(e, env, want)
        if k == "mcall":
            return self.mcall(e, env, want)
        if k == "try":
            v = self.ex(e[1], env)
            if not (isinstance(v.ty, tuple) and v.ty[0] == "res"):
                self.err("`?` on a value that is not a Result")
            self.used.add("result")
            if self.infallible:
                return V(v.lean, v.ty[1])
            if self.pure:
                raise Impure()
            self.nfall += 1
            x = self.fresh()
            self.steps.append(("try", x, v.lean, self.curK.retp(self.payload_text(env, "(.error e)"))))
            return V(x, v.ty[1])
        if k == "structlit":
            if e[1] != ["Self"] or self.fields is None or self.ret_ty != "self":
                self.err("struct literal")
            got = dict(e[2])
            if set(got) != set(self.fields) or len(got) != len(e[2]):
                self.err("struct literal: fields")
            parts = []
            for f in self.fields:
                parts.append(f"{f} := {self.typed(self.ex(got[f], env, self.fields[f]), self.fields[f], f).lean}")
            return V("{ " + ", ".join(parts) + " }", "self")
        self.err(f"expression form `{k}`")

    def sealed_const(self, w, name):
        if name not in [c["name"] for c in self.sealed_consts_decl]:
            self.err(f"unknown associated const {name}")
        return V(f"Sealed.{name} {w}", "usize")

    def path_value(self, segs):
        if len(segs) == 2 and (segs[0] in self.generics and self.generics[segs[0]] == "Bits"):
            return self.sealed_const(self.wname[segs[0]], segs[1])
        if len(segs) == 2 and segs[0] == "Self" and self.const_mode:
            return self.sealed_const("w", segs[1])
        self.err(f"path `{'::'.join(segs)}`")

    def binop(self, op, le, re_, env, want):
        if op in ("&&", "||"):
            a, b = self.ex(le, env), self.ex(re_, env)
            if a.ty != "bool" or b.ty != "bool":
                self.err(f"`{op}` on non-bool")
            if self.steps and False:
                pass
            return V(f"{par(self.as_bool(a))} {op} {par(self.as_bool(b))}", "bool")
        if op in ("<<", ">>"):
            a = self.ex(le, env, want)
            b = self.ex(re_, env)
            if b.ty is None:
                b = V(b.lean, "usize", b.lit)
            b = V(b.lean, self.resolve(b.ty), b.lit)
            if b.ty != "usize":
                self.err(f"shift amount of type {b.ty}")
            if a.ty is None:
                self.err("shift of an untyped literal")
            self.used.add("shift")
            if self.const_mode:
                return V(f"{par(a.lean)} {'<<<' if op == '<<' else '>>>'} {par(b.lean)}", a.ty)
            if self.is_nat(a.ty):
                W = self.natk[a.ty]
                if b.lit is not None and b.lit < W:
                    k = b.lean
                else:
                    k = self.step(f"shAmt dbg {W} {par(b.lean)}")
                return V(f"shlU {W} {par(a.lean)} {par(k)}" if op == "<<" else f"shrU {par(a.lean)} {par(k)}", a.ty)
            if self.is_bv(a.ty):
                if b.lit is not None and isinstance(a.ty, str) and b.lit < self.bvk[a.ty]:
                    return V(f"{par(a.lean)} {'<<<' if op == '<<' else '>>>'} {b.lean}", a.ty)
                r = self.step(f"{'shlB' if op == '<<' else 'shrB'} dbg {par(a.lean)} {par(b.lean)}")
                return V(r, a.ty)
            self.err(f"shift of {a.ty}")
        a = self.ex(le, env, want if op in ("+", "-", "*", "/", "&", "|") else None)
        b = self.ex(re_, env, a.ty if a.ty is not None else None)
        if a.ty is None and b.ty is not None:
            a = self.typed(a, b.ty)
        elif b.ty is None and a.ty is not None:
            b = self.typed(b, a.ty)
        elif a.ty is None:
            self.err(f"`{op}` on two untyped literals")
        else:
            b = self.typed(b, a.ty, f"operands of `{op}`")
            a = V(a.lean, self.resolve(a.ty), a.lit)
        ty = self.resolve(a.ty)
        if op in ("==", "!=", "<", ">", "<=", ">="):
            if not (self.is_nat(ty) or (self.is_bv(ty) and op in ("==", "!="))):
                self.err(f"comparison `{op}` of {ty}")
            sym = {"==": "=", "!=": "≠", "<": "<", ">": ">", "<=": "≤", ">=": "≥"}[op]
            return V(f"{a.lean} {sym} {b.lean}", "bool", prop=True)
        if self.is_nat(ty):
            W = self.natk[ty]
            self.used.add("arith")
            if self.const_mode:
                if op in ("+", "*", "/"):
                    if op == "/" and not (b.lit or 0) > 0:
                        self.err("division by a non-literal in a const")
                    return V(f"{par(a.lean)} {op} {par(b.lean)}", ty)
                self.err(f"`{op}` in a const")
            if op == "+":
                return V(self.step(f"addU dbg {W} {par(a.lean)} {par(b.lean)}"), ty)
            if op == "-":
                return V(self.step(f"subU dbg {W} {par(a.lean)} {par(b.lean)}"), ty)
            if op == "*":
                return V(self.step(f"mulU dbg {W} {par(a.lean)} {par(b.lean)}"), ty)
            if op == "&":
                self.used.add("bitops")
                return V(f"{par(a.lean)} &&& {par(b.lean)}", ty)
            self.err(f"`{op}` on {ty}")
        if self.is_bv(ty):
            self.used.add("bitops")
            if op == "-":
                if ty == "i64":
                    self.err("`-` on i64")
                return V(self.step(f"subB dbg {par(a.lean)} {par(b.lean)}"), ty)
            if op in ("&", "|"):
                return V(f"{par(a.lean)} {'&&&' if op == '&' else '|||'} {par(b.lean)}", ty)
            self.err(f"`{op}` on {ty}")
        self.err(f"`{op}` on {ty}")

    def index(self, e, env):
        b = self.ex(e[1], env)
        if not (isinstance(b.ty, tuple) and b.ty[0] == "list"):
            self.err("indexing a value that is not a slice")
        self.used.add("index")
        if e[2][0] == "rangeexpr":
            lo, hi = self.range_bounds(e[2], b, env)
            return V(self.step(f"sliceR {par(b.lean)} {par(lo)} {par(hi)}"), b.ty)
        i = self.typed(self.ex(e[2], env, "usize"), "usize", "index")
        return V(self.step(f"{par(b.lean)}[{i.lean}]?"), b.ty[1])

    def range_bounds(self, r, b, env):
        if r[3]:
            self.err("inclusive range")
        lo = "0" if r[1] is None else self.typed(self.ex(r[1], env, "usize"), "usize", "range").lean
        hi = f"{par(b.lean)}.length" if r[2] is None else self.typed(self.ex(r[2], env, "usize"), "usize", "range").lean
        return lo, hi

    # ------------------------------------------------------------------ calls
    def size_of(self, seg):
        m = re.fullmatch(r"size_of<(\w+)>", seg)
        if not m:
            self.err(f"`{seg}`")
        x = m.group(1)
        self.used.add("size_of")
        if x in self.generics and self.generics[x] == "Bits":
            return V(f"sizeOf {self.wname[x]}", "usize")
        if x == "Self" and self.const_mode:
            return V("sizeOf w", "usize")
        if x in SK_SEALED_TYPES:
            return V(f"sizeOf {SK_SEALED_TYPES[x]}", "usize")
        self.err(f"size_of::<{x}>")

    def call(self, e, env, want):
        f, args = e[1], e[2]
        if f[0] == "var" and f[1] == "Ok" and len(args) == 1:
            self.used.add("result")
            if not (isinstance(self.ret_ty, tuple) and self.ret_ty[0] == "res"):
                self.err("`Ok(..)` in a function that does not return a Result")
            v = self.typed(self.ex(args[0], env, self.ret_ty[1]), self.ret_ty[1], "Ok(..)")
            return V(v.lean if self.infallible else f"Except.ok {par(v.lean)}", self.ret_ty)
        if f[0] != "path":
            self.err("call of a non-path")
        segs = f[1]
        if segs[:2] == ["std", "mem"] and len(segs) == 3 and not args:
            return self.size_of(segs[2])
        if len(segs) == 2 and segs[1] == "one" and not args and segs[0] in self.generics and self.generics[segs[0]] == "Bits":
            self.used.add("one")
            return V(f"(1#{self.wname[segs[0]]})", ("tv", segs[0]))
        if segs == ["Vec", "with_capacity"] and len(args) == 1:
            self.typed(self.ex(args[0], env, "usize"), "usize", "capacity")   # evaluated for its panics only
            if not (isinstance(want, tuple) and want[0] == "list"):
                self.err("Vec::with_capacity of unknown element type")
            self.used.add("vec")
            return V("[]", want)
        if len(segs) == 2 and segs[0] == "Self" and self.group is not None:
            fi = self.lookup(segs[1])
            if fi.selfmode is not None:
                self.err(f"Self::{segs[1]} takes self")
            return self.apply(fi, None, args, env)
        self.err(f"call of `{'::'.join(segs)}`")

    def lookup(self, name):
        """method / associated function `name` of the current Self type"""
        order = [self.group]
        ty = SK_GROUPS[self.group]["ty"] if self.group in SK_GROUPS else None
        for g, d in SK_GROUPS.items():
            if g != self.group and ty is not None and (d["ty"] == ty or d["ty"] == "MemSink<S>"):
                order.append(g)
        for g in order:
            if (g, name) in self.fns:
                return self.fns[(g, name)]
        self.err(f"call of `{name}`: no translated function of that name for this Self type (callees are translated first)")

    def apply(self, fi, selfv, args, env):
        if len(args) != len(fi.params):
            self.err(f"{fi.rust}: {len(args)} arguments for {len(fi.params)} parameters")
        parts = [fi.lean]
        if fi.fallible:
            parts.append("dbg")
        if fi.explicit_sw:
            parts.append(self.width(self.fields["storage"][1]) if self.fields else self.err("internal: sw"))
        if fi.selfmode is not None:
            parts.append(selfv)
        outs = []
        for a, (pn, pt, pm) in zip(args, fi.params):
            v = self.typed(self.ex(a, env, pt if not (isinstance(pt, tuple) and pt[0] == "tv") else None), pt, f"argument {pn}") \
                if not (isinstance(pt, tuple) and pt[0] == "tv") else self.ex(a, env)
            if isinstance(pt, tuple) and pt[0] == "tv" and not self.is_bv(v.ty):
                self.err(f"{fi.rust}: argument {pn} is not an unsigned integer value")
            if pt == "sig" and v.ty != "sig":
                self.err(f"{fi.rust}: argument {pn}")
            parts.append(par(v.lean))
            if pm:
                if a[0] != "var":
                    self.err("a `&mut` argument that is not a variable")
                outs.append(env[a[1]].lean)
        comps = []
        rv = None
        if fi.eff_ret != "unit":
            rv = self.fresh()
            comps.append(rv)
        comps += outs
        if fi.selfmode == "mut":
            if self.selfmode != "mut":
                self.err(f"{fi.rust} needs `&mut self`")
            comps.append("self")
        pat = "_" if not comps else (comps[0] if len(comps) == 1 else "(" + ", ".join(comps) + ")")
        text = " ".join(parts)
        if fi.fallible:
            self.step(text, pat)
        elif comps:
            self.steps.append(("let", pat, text))
        return V(rv if rv else "()", fi.ret)

    def dict_call(self, name, args, env):
        sig = self.req_sigs.get(name)
        if sig is None:
            self.err(f"`self.{name}(..)` in a provided method: only required methods of the trait can be called")
        if len(args) != len(sig["params"]):
            self.err(f"{name}: argument count")
        parts = [f"d.{name}", "self"]
        for a, (pn, pt) in zip(args, sig["params"]):
            if isinstance(pt, tuple) and pt[0] == "tv":
                v = self.ex(a, env)
                if not self.is_bv(v.ty) or v.ty == "i64":
                    self.err(f"{name}: argument {pn} is not an unsigned integer value")
            else:
                v = self.typed(self.ex(a, env, pt), pt, f"argument {pn}")
            parts.append(par(v.lean))
        rv = self.fresh()
        self.step(" ".join(parts), f"({rv}, self)")
        return V(rv, sig["ret"])

    def mcall(self, e, env, want):
        recv, name, args = e[1], e[2], e[3]
        if recv == ("var", "self"):
            if self.selfmode is None:
                self.err("self")
            if self.dict_mode:
                return self.dict_call(name, args, env)
            fi = self.lookup(name)
            if fi.selfmode is None:
                self.err(f"{name} does not take self")
            return self.apply(fi, "self", args, env)
        # Option<&mut S>::unwrap of last_mut (as a value: not read)
        r = self.ex(recv, env, want if name in ("as_ref", "iter") else None)
        ty = r.ty
        if name in ("as_ref", "iter") and not args and isinstance(ty, tuple) and ty[0] == "list":
            return r
        if name == "len" and not args and isinstance(ty, tuple) and ty[0] == "list":
            self.used.add("vec")
            return V(f"{par(r.lean)}.length", "usize")
        if self.is_nat(ty):
            W = self.natk[ty]
            if name == "wrapping_add" and len(args) == 1:
                b = self.typed(self.ex(args[0], env, ty), ty)
                self.used.add("wrapping")
                return V(f"({r.lean} + {b.lean}) % 2 ^ {W}", ty)
            if name == "saturating_sub" and len(args) == 1:
                b = self.typed(self.ex(args[0], env, ty), ty)
                self.used.add("wrapping")
                return V(f"{par(r.lean)} - {par(b.lean)}", ty)
            if name == "ilog2" and not args and self.const_mode:
                self.used.add("size_of")
                return V(f"ilog2 {par(r.lean)}", "u32")
            if name == "trailing_zeros" and not args and self.const_mode:
                self.used.add("size_of")
                return V(f"trailingZeros {par(r.lean)}", "u32")
        if ty == "u64" and name in ("wrapping_shr", "wrapping_shl") and len(args) == 1:
            b = self.typed(self.ex(args[0], env, "u32"), "u32", name)
            self.used.add("wrapping")
            return V(f"{par(r.lean)} {'>>>' if name == 'wrapping_shr' else '<<<'} ({b.lean} % 64)", "u64")
        if name == "into" and not args:
            self.used.add("conv")
            if ty == "sig" and want == "i64":
                return V(f"BitVec.ofInt 64 {par(r.lean)}", "i64")
            if isinstance(ty, tuple) and ty[0] == "tv" and want == "u64":
                return V(f"{par(r.lean)}.setWidth 64", "u64")
            self.err(f".into() of {ty} to {want}")
        if name == "as_" and not args and isinstance(ty, tuple) and ty[0] == "tv":
            if want not in (None, "u8"):
                self.err(f".as_() to {want}")
            self.used.add("conv")
            return V(f"{par(r.lean)}.setWidth 8", "u8")
        if name in ("to_be_bytes", "to_ne_bytes") and not args and self.is_bv(ty) and ty != "i64":
            self.used.add("bytes")
            return V(f"{'beBytes' if name == 'to_be_bytes' else 'leBytes'} {par(r.lean)}", ("list", "u8"))
        self.err(f"method .{name}() on {ty}")

    # ------------------------------------------------------------------ statements
    def tup(self, names, env):
        ls = [env[n].lean for n in names]
        return "()" if not ls else (ls[0] if len(ls) == 1 else "(" + ", ".join(ls) + ")")

    def tup_ty(self, names, env):
        ls = [self.lty(env[n].ty) for n in names]
        return "Unit" if not ls else (ls[0] if len(ls) == 1 else " × ".join(par(x) for x in ls))

    def pat(self, names, env):
        return "(_ : Unit)" if not names else self.tup(names, env)

    def payload_parts(self):
        return self.mutparams + (["self"] if self.selfmode == "mut" else [])

    def fn_rtype(self):
        return self.payload_ty() if self.pure else f"Option ({self.payload_ty()})"

    def finish(self, env, v, Kc):
        v = self.typed(v, self.ret_ty, "returned value") if self.ret_ty != "unit" or v.ty != "unit" else v
        lean = self.as_bool(v) if v.ty == "bool" else v.lean
        return Kc.retp(self.payload_text(env, lean))

    def root_of(self, lhs, env):
        while True:
            if lhs[0] == "var":
                return lhs[1]
            if lhs[0] in ("field", "index", "paren"):
                lhs = lhs[1]
            elif lhs[0] == "un" and lhs[1] == "*":
                x = lhs[2]
                if x[0] == "var" and x[1] in env and isinstance(env[x[1]].ty, tuple) and env[x[1]].ty[0] == "lastref":
                    return "self"
                lhs = x
            elif lhs[0] == "mcall":
                lhs = lhs[1]
            else:
                return None

    def assigned(self, node, env, out, local):
        """names of `env` that `node` may assign (in first-occurrence order)"""
        if isinstance(node, list):
            local = set(local)
            for s in node:
                self.assigned(s, env, out, local)
            return
        if not isinstance(node, tuple) or not node:
            return
        k = node[0]

        def add(n):
            if n is not None and n in env and n not in local and n not in out:
                out.append(n)
        if k == "let":
            self.assigned(node[3], env, out, local)
            local.add(node[1][1])
            return
        if k == "assign":
            add(self.root_of(node[2], env))
            self.assigned(node[3], env, out, local)
            return
        if k == "block":
            self.assigned(list(node[1]) + ([node[2]] if node[2] is not None else []), env, out, local)
            return
        if k == "mcall":
            r = node[1]
            if r == ("var", "self") and self.selfmode == "mut":
                if self.dict_mode:
                    add("self")
                else:
                    fi = self.lookup(node[2])
                    if fi.selfmode == "mut":
                        add("self")
                    for a, (pn, pt, pm) in zip(node[3], fi.params):
                        if pm:
                            add(self.root_of(a, env))
            elif node[2] in ("push", "extend_from_slice", "resize", "clear", "reserve", "copy_from_slice", "last_mut"):
                add(self.root_of(r, env))
            for a in node[3]:
                self.assigned(a, env, out, local)
            self.assigned(r, env, out, local)
            return
        for x in node[1:]:
            if isinstance(x, (tuple, list)):
                self.assigned(x, env, out, local)

    def has_exit(self, node):
        if isinstance(node, list):
            return any(self.has_exit(x) for x in node)
        if not isinstance(node, tuple) or not node:
            return False
        if node[0] == "return" or (node[0] == "try" and not self.infallible):
            return True
        return any(self.has_exit(x) for x in node[1:] if isinstance(x, (tuple, list)))

    def can_fall(self, stmts):
        if not stmts:
            return True
        s = stmts[-1]
        if s[0] == "return":
            return False
        if s[0] == "if" and s[3] is not None:
            return self.can_fall(self.body(s[2])) or self.can_fall(self.body(s[3]) if s[3][0] == "block" else [s[3]])
        return True

    def body(self, blk):
        if blk[0] != "block":
            self.err("internal: block expected")
        if blk[2] is not None:
            if blk[2][0] in ("if", "iflet", "for", "while", "block"):
                return list(blk[1]) + [blk[2]]
            return list(blk[1]) + [("tail", blk[2])]
        return list(blk[1])

    def walk(self, stmts, i, env, Kc):
        if i == len(stmts):
            return Kc.fall(env)
        st = stmts[i]
        env = dict(env)
        self.curK = Kc
        rest = lambda env2: self.walk(stmts, i + 1, env2, Kc)
        k = st[0]
        if k == "tail":
            if i != len(stmts) - 1:
                self.err("internal: tail")
            if not isinstance(Kc, FnK):
                v = self.ex(st[1], env)
                if v.ty != "unit":
                    self.err("a nested block with a value")
                return self.wrap(self.take(), Kc.fall(env))
            v = self.ex(st[1], env, self.ret_ty)
            return self.wrap(self.take(), self.finish(env, v, Kc))
        if k == "return":
            v = self.ex(st[1], env, self.ret_ty) if st[1] is not None else V("()", "unit")
            return self.wrap(self.take(), self.finish(env, v, Kc))
        if k == "let":
            return self.st_let(st, env, Kc, rest)
        if k == "assign":
            return self.st_assign(st, env, Kc, rest)
        if k == "assert":
            if not st[2]:
                self.err("assert!")
            self.used.add("debug_assert")
            save_steps, self.steps = self.steps, []
            c = self.ex(st[1], env)
            inner = self.wrap(self.take(), f"req {self.as_bool(c)}")
            self.steps = save_steps
            self.step(f"if dbg then\n{ind(inner, 4)}\n  else some ()", "_")
            return self.wrap(self.take(), rest(env))
        if k == "if":
            return self.st_if(st, env, Kc, rest, i == len(stmts) - 1)
        if k == "iflet":
            return self.st_iflet(st, env, Kc, rest, i == len(stmts) - 1)
        if k == "block":
            Kb = ContK(Kc, self, rest, set(env))
            self.depth += 1
            return self.walk(self.body(st), 0, env, Kb)
        if k == "for":
            return self.st_for(st, env, Kc, rest)
        if k == "while":
            return self.st_while(st, env, Kc, rest)
        if k == "try" or k == "mcall":
            inner = st[1] if k == "try" else st
            if inner[0] == "mcall" and inner[1] != ("var", "self"):
                if k == "try":
                    self.err("`?` on a Vec method")
                return self.st_mutator(inner, env, Kc, rest)
            v = self.ex(st, env)
            if self.resolve(v.ty) != "unit" and not (isinstance(v.ty, tuple) and v.ty[0] == "res" and False):
                if isinstance(v.ty, tuple) and v.ty[0] == "res":
                    self.err("a Result value is discarded")
                self.err("a value is discarded")
            return self.wrap(self.take(), rest(env))
        self.err(f"statement form `{k}`")

    def declare(self, env, name, ty, mut):
        ln = self.mangle(name)
        if name in env and env[name].depth < self.depth:
            # a `let` in a nested block that shadows an outer variable gets its own Lean name: the outer binding stays
            # visible to the statements after the block
            self.shadow_count = getattr(self, "shadow_count", 0) + 1
            ln = f"{ln}_s{self.shadow_count}"
        env[name] = Var(ln, ty, mut, self.depth)
        return ln

    def st_let(self, st, env, Kc, rest):
        pat, ty, e = st[1], st[2], st[3]
        if pat[0] != "bind":
            self.err("tuple pattern in `let`")
        name, mut = pat[1], pat[2]
        want = self.rty(ty) if ty is not None else None
        if want is None and e[0] == "int" and e[2] is None:
            ln = self.declare(env, name, ("infer", [None]), mut)
            return self.wrap([("let", ln, str(e[1]))], rest(env))
        v = self.ex(e, env, want)
        if want is not None:
            v = self.typed(v, want, f"let {name}")
        if v.ty is None:
            self.err(f"let {name}: untyped")
        steps = self.take()
        ln = self.declare(env, name, v.ty, mut)
        lean = self.as_bool(v) if v.ty == "bool" else v.lean
        return self.wrap(steps + [("let", ln, lean)], rest(env))

    def st_assign(self, st, env, Kc, rest):
        op, lhs, rhs = st[1], st[2], st[3]
        # --- the place
        lastref = None
        if lhs[0] == "var":
            if lhs[1] not in env or not env[lhs[1]].mut:
                self.err(f"assignment to `{lhs[1]}` which is not a `mut` variable")
            cur = V(env[lhs[1]].lean, self.resolve(env[lhs[1]].ty))
            store = lambda val: [("let", env[lhs[1]].lean, val)]
        elif lhs[0] == "field" and lhs[1] == ("var", "self") and self.fields and lhs[2] in self.fields:
            if self.selfmode != "mut":
                self.err("assignment through `&self`")
            cur = V(f"self.{lhs[2]}", self.fields[lhs[2]])
            store = lambda val: [("let", "self", f"{{ self with {lhs[2]} := {val} }}")]
        elif lhs[0] == "un" and lhs[1] == "*" and lhs[2][0] == "var" and lhs[2][1] in env \
                and isinstance(env[lhs[2][1]].ty, tuple) and env[lhs[2][1]].ty[0] == "lastref":
            var = env[lhs[2][1]]
            cur = V(var.lean, var.ty[2])
            store = lambda val: [("let", var.lean, val),
                                 ("let", "self", f"{{ self with {var.ty[1]} := setLast self.{var.ty[1]} {var.lean} }}")]
        elif lhs[0] == "un" and lhs[1] == "*" and lhs[2][0] == "mcall" and lhs[2][2] == "unwrap" and not lhs[2][3]:
            f, ety = self.last_mut(lhs[2][1])
            self.used.add("unwrap")
            p = self.step(f"lastMut self.{f}")
            cur = V(p, ety)
            store = lambda val: [("let", "self", f"{{ self with {f} := setLast self.{f} {par(val)} }}")]
        else:
            self.err("assignment target")
        if op == "=":
            v = self.typed(self.ex(rhs, env, cur.ty), cur.ty, "assigned value")
            return self.wrap(self.take() + store(v.lean), rest(env))
        bop = op[:-1]
        if bop in ("<<", ">>"):
            b = self.ex(rhs, env)
            b = V(b.lean, "usize", b.lit) if b.ty is None else V(b.lean, self.resolve(b.ty), b.lit)
            if b.ty != "usize" or not self.is_bv(cur.ty):
                self.err(f"`{op}`")
            self.used.add("shift")
            if b.lit is not None and isinstance(cur.ty, str) and b.lit < self.bvk[cur.ty]:
                val = f"{par(cur.lean)} {'<<<' if bop == '<<' else '>>>'} {b.lean}"
            else:
                val = self.step(f"{'shlB' if bop == '<<' else 'shrB'} dbg {par(cur.lean)} {par(b.lean)}")
            return self.wrap(self.take() + store(val), rest(env))
        if bop not in ("+", "-", "*", "&", "|"):
            self.err(f"`{op}`")
        b = self.typed(self.ex(rhs, env, cur.ty), cur.ty, f"right side of `{op}`")
        if isinstance(cur.ty, tuple) and cur.ty[0] == "infer":
            cur = V(cur.lean, self.resolve(b.ty))
        if self.is_nat(cur.ty):
            W = self.natk[cur.ty]
            self.used.add("arith")
            if bop in ("+", "-", "*"):
                val = self.step(f"{ {'+': 'addU', '-': 'subU', '*': 'mulU'}[bop] } dbg {W} {par(cur.lean)} {par(b.lean)}")
            elif bop == "&":
                self.used.add("bitops")
                val = f"{par(cur.lean)} &&& {par(b.lean)}"
            else:
                self.err(f"`{op}` on {cur.ty}")
        elif self.is_bv(cur.ty) and bop in ("&", "|"):
            self.used.add("bitops")
            val = f"{par(cur.lean)} {'&&&' if bop == '&' else '|||'} {par(b.lean)}"
        else:
            self.err(f"`{op}` on {cur.ty}")
        return self.wrap(self.take() + store(val), rest(env))

    def last_mut(self, e):
        """e = `self.<field>.last_mut()` -> (field, element type)"""
        if e[0] == "mcall" and e[2] == "last_mut" and not e[3] and e[1][0] == "field" and e[1][1] == ("var", "self") \
                and self.fields and e[1][2] in self.fields and isinstance(self.fields[e[1][2]], tuple) \
                and self.fields[e[1][2]][0] == "list":
            if self.selfmode != "mut":
                self.err("last_mut through `&self`")
            self.used.add("last_mut")
            return e[1][2], self.fields[e[1][2]][1]
        self.err("only `self.<vec field>.last_mut()` is read")

    def branch(self, stmts, env, Kb, depth):
        self.depth = depth + 1
        t = self.walk(stmts, 0, env, Kb)
        self.depth = depth
        return t

    def st_if(self, st, env, Kc, rest, last):
        c = self.ex(st[1], env)
        if c.ty != "bool":
            self.err("`if` condition")
        steps = self.take()
        then = self.body(st[2])
        els = None if st[3] is None else (self.body(st[3]) if st[3][0] == "block" else [st[3]])
        return self.wrap(steps, self.two_way(f"if {c.lean if c.prop else c.lean + ' = true'} then", "else", then, els or [],
                                             env, env, Kc, rest, last))

    def two_way(self, head1, head2, then, els, env1, env2, Kc, rest, last):
        """`head1 THEN head2 ELSE` followed by the rest of the enclosing block"""
        depth = self.depth
        nfall = int(self.can_fall(then)) + int(self.can_fall(els))
        outer = {k: v for k, v in env2.items()}
        probe = None
        if nfall > 1 and not (last and Kc.small):
            save = (self.counter, self.nfall, list(self.steps), self.depth)
            probe = rest(dict(outer))
            self.counter, self.nfall, self.steps, self.depth = save[0], save[1], save[2], save[3]
        if nfall <= 1 or (last and Kc.small) or ("\n" not in probe and len(probe) < 60):
            Kb = ContK(Kc, self, rest, set(outer))
            tt = self.branch(then, dict(env1), Kb, depth)
            Kb = ContK(Kc, self, rest, set(outer))
            ee = self.branch(els, dict(env2), Kb, depth)
            return f"{head1}\n{ind(tt)}\n{head2}\n{ind(ee)}"
        muts = []
        self.assigned(then, outer, muts, set())
        self.assigned(els, outer, muts, set())
        muts = [n for n in outer if n in muts]
        kname = self.fresh("k")
        rest_text = rest(dict(outer))
        Kj = JoinK(Kc, kname, self.tup(muts, outer))
        tt = self.branch(then, dict(env1), Kj, depth)
        ee = self.branch(els, dict(env2), Kj, depth)
        return (f"let {kname} : {self.tup_ty(muts, outer)} → {Kc.rtype} := fun {self.pat(muts, outer)} =>\n{ind(rest_text, 4)}\n"
                f"{head1}\n{ind(tt)}\n{head2}\n{ind(ee)}")

    def st_iflet(self, st, env, Kc, rest, last):
        pat, scrut, then, els = st[1], st[2], st[3], st[4]
        if pat[0] != "variant" or pat[1] != ["Some"] or len(pat[2]) != 1 or pat[2][0][0] != "bind":
            self.err("if-let pattern")
        f, ety = self.last_mut(scrut)
        p = pat[2][0][1]
        env1 = dict(env)
        self.depth += 1
        ln = self.declare(env1, p, ("lastref", f, ety), False)
        self.depth -= 1
        elsb = [] if els is None else (self.body(els) if els[0] == "block" else [els])
        return self.two_way(f"match lastMut self.{f} with\n| some {ln} =>", "| none =>", self.body(then), elsb, env1, env, Kc, rest, last)

    def st_mutator(self, e, env, Kc, rest):
        recv, name, args = e[1], e[2], e[3]
        if recv[0] == "field" and recv[1] == ("var", "self") and self.fields and recv[2] in self.fields \
                and isinstance(self.fields[recv[2]], tuple) and self.fields[recv[2]][0] == "list":
            if self.selfmode != "mut":
                self.err(f".{name}() through `&self`")
            f, ety = recv[2], self.fields[recv[2]][1]
            self.used.add("vec")
            cur = f"self.{f}"
            if name == "push" and len(args) == 1:
                v = self.typed(self.ex(args[0], env, ety), ety, "pushed value")
                new = f"{cur} ++ [{v.lean}]"
            elif name == "extend_from_slice" and len(args) == 1:
                v = self.typed(self.ex(args[0], env, ("list", ety)), ("list", ety), "extend_from_slice")
                new = f"{cur} ++ {par(v.lean)}"
            elif name == "resize" and len(args) == 2:
                n = self.typed(self.ex(args[0], env, "usize"), "usize", "resize")
                x = self.typed(self.ex(args[1], env, ety), ety, "resize")
                new = f"vecResize {par(cur)} {par(n.lean)} {par(x.lean)}"
            elif name == "clear" and not args:
                new = "[]"
            elif name == "reserve" and len(args) == 1:
                self.typed(self.ex(args[0], env, "usize"), "usize", "reserve")
                return self.wrap(self.take(), rest(env))
            else:
                self.err(f"Vec method .{name}()")
            return self.wrap(self.take() + [("let", "self", f"{{ self with {f} := {new} }}")], rest(env))
        if name == "copy_from_slice" and len(args) == 1 and recv[0] == "index" and recv[1][0] == "var" and recv[2][0] == "rangeexpr":
            d = recv[1][1]
            if d not in self.mutparams:
                self.err("copy_from_slice into something that is not a `&mut [..]` parameter")
            dv = V(env[d].lean, env[d].ty)
            lo, hi = self.range_bounds(recv[2], dv, env)
            src = self.typed(self.ex(args[0], env, dv.ty), dv.ty, "copy_from_slice")
            self.used.add("index")
            self.step(f"sliceCopy {dv.lean} {par(lo)} {par(hi)} {par(src.lean)}", dv.lean)
            return self.wrap(self.take(), rest(env))
        self.err(f"statement `.{name}(..)`")

    def loop_values(self, it, env):
        if it[0] == "rangeexpr":
            if it[1] is None or it[2] is None or it[3]:
                self.err("loop range")
            lo = self.ex(it[1], env, "usize")
            hi = self.typed(self.ex(it[2], env, "usize"), "usize", "loop range")
            lo = self.typed(lo, "usize", "loop range")
            return f"rangeL {par(lo.lean)} {par(hi.lean)}", "usize"
        v = self.ex(it, env)
        if not (isinstance(v.ty, tuple) and v.ty[0] == "list"):
            self.err("`for` over a value that is not a slice or a range")
        return v.lean, v.ty[1]

    def st_for(self, st, env, Kc, rest):
        if Kc.in_loop:
            self.err("nested loop")
        if not isinstance(st[1], str):
            self.err("tuple pattern of `for`")
        vals, ety = self.loop_values(st[2], env)
        steps = self.take()
        body = self.body(st[3])
        state = []
        self.assigned(body, env, state, {st[1]})
        state = [n for n in env if n in state]
        exits = self.has_exit(body)
        if self.pure:
            raise Impure()
        self.nfall += 1
        self.used.add("loops")
        env_b = dict(env)
        depth = self.depth
        self.depth += 1
        x = self.declare(env_b, st[1], ety, False)
        self.depth = depth
        rt = lambda: f"Option (Flow ({self.payload_ty()}) ({self.tup_ty(state, env)}))" if exits else f"Option ({self.tup_ty(state, env)})"
        Kl = LoopK(Kc, self, self.tup(state, env), exits, rt)
        bt = self.branch(body, env_b, Kl, depth)
        init, pat = self.tup(state, env), self.pat(state, env)
        rest_text = rest(dict(env))
        if exits:
            return self.wrap(steps, f"bindF (forF {par(vals)} {init} fun {x} {pat} =>\n{ind(bt, 4)}) (fun r => {Kc.retp('r')}) fun {pat} =>\n{rest_text}")
        return self.wrap(steps, f"(forO {par(vals)} {init} fun {x} {pat} =>\n{ind(bt, 4)}).bind fun {pat} =>\n{rest_text}")

    def st_while(self, st, env, Kc, rest):
        if Kc.in_loop:
            self.err("nested loop")
        c = st[1]
        body = self.body(st[2])
        if not (c[0] == "bin" and c[1] == ">" and c[2][0] == "var" and c[3][0] == "int" and c[2][1] in env and env[c[2][1]].mut
                and self.resolve(env[c[2][1]].ty) == "usize"):
            self.err("`while`: only `while n > LITERAL` with a mutable usize variable n is read")
        n = c[2][1]
        decs = [s for s in body if s[0] == "assign" and s[2] == ("var", n)]
        inner = []
        for s in body:
            if not (s[0] == "assign" and s[2] == ("var", n)):
                self.assigned(s, {n: env[n]}, inner, set())
        if len(decs) != 1 or decs[0][1] != "-=" or decs[0][3][0] != "int" or decs[0][3][1] <= 0 or inner:
            self.err(f"`while`: the body must decrease `{n}` by a positive literal exactly once, at its top level")
        if self.pure:
            raise Impure()
        self.nfall += 1
        self.used.add("loops")
        state = []
        self.assigned(body, env, state, set())
        state = [m for m in env if m in state]
        exits = self.has_exit(body)
        cv = self.ex(c, env)
        if self.steps:
            self.err("`while` condition with a panicking step")
        rt = lambda: f"Option (Flow ({self.payload_ty()}) ({self.tup_ty(state, env)}))"
        Kl = LoopK(Kc, self, self.tup(state, env), True, rt)
        bt = self.branch(body, dict(env), Kl, self.depth)
        init, pat = self.tup(state, env), self.pat(state, env)
        rest_text = rest(dict(env))
        return (f"bindF (whileF {env[n].lean} (fun {pat} => decide ({cv.lean})) (fun {pat} =>\n{ind(bt, 4)}) {init}) "
                f"(fun r => {Kc.retp('r')}) fun {pat} =>\n{rest_text}")

    # ------------------------------------------------------------------ functions
    def setup(self, group, rec, where):
        self.where = where
        self.group = group
        self.counter = 0
        self.steps = []
        self.nfall = 0
        self.depth = 0
        self.const_mode = False
        self.curK = None
        self.generics = {}
        self.wname = {}
        self.mutparams = []
        self.param_ty = {}
        g = [x for x in rec["generics"] if x not in ("<", ">")] if rec is not None else []
        for part in T.wr_split_top(g):
            if len(part) != 3 or part[1] != ":" or part[2] not in ("Bits", "SignedBits"):
                self.err(f"generic parameter `{' '.join(part)}`")
            self.generics[part[0]] = part[2]
            if part[2] == "Bits":
                if "w" in self.wname.values():
                    self.err("two generic Bits parameters")
                self.wname[part[0]] = "w"

    def setup_group(self, group):
        """Self type, fields, error type of an impl group (None = provided methods of the trait)"""
        if group is None:
            self.dict_mode, self.infallible = True, False
            self.fields, self.self_lty, self.self_rust, self.sgen = None, "σ", None, False
            return
        d = SK_GROUPS[group]
        self.dict_mode = False
        self.sgen = d["gen"] is not None
        self.self_rust = d["ty"]
        el = re.fullmatch(r"MemSink<(\w+)>", d["ty"]).group(1)
        self.infallible = True
        if d["kind"] == "trait" and d["trait"] == SK_TRAIT:
            et = self.idx_group(group).get("#types", {}).get("Error")
            if et != ["Infallible"]:
                fail(f"impl {SK_TRAIT} for {d['ty']}: `type Error = Infallible;` expected, found {et}")
        self.elem = ("tv", "S") if self.sgen else el
        self.fields = {}
        for f, tt in self.idx.struct:
            s = "".join(tt)
            if s == "Vec<S>":
                self.fields[f] = ("list", self.elem)
            elif s == "usize":
                self.fields[f] = "usize"
            else:
                fail(f"struct MemSink: field {f}: type `{s}`")
        self.self_lty = "MemSink sw" if self.sgen else f"MemSink {self.bvk[el]}"

    def idx_group(self, group):
        d = SK_GROUPS[group]
        gen = "S:Bits" if d["gen"] else None
        key = (gen, d.get("trait"), d["ty"])
        if key not in self.idx.impls:
            fail(f"impl block `{'impl<' + gen + '> ' if gen else 'impl '}{(d.get('trait') + ' for ') if d.get('trait') else ''}{d['ty']}` not found")
        return self.idx.impls[key]

    def signature(self, rec):
        """-> selfmode, params [(name, ty, mutref)], ret"""
        selfmode = None
        params = []
        for i, p in enumerate(rec["params"]):
            s = "".join(p)
            if i == 0 and s in ("&mutself", "&self", "self"):
                selfmode = {"&mutself": "mut", "&self": "ref", "self": "val"}[s]
                continue
            if p[0] == "mut":
                p = p[1:]
            if len(p) < 3 or p[1] != ":" or not re.fullmatch(r"[a-z_][a-z0-9_]*", p[0]):
                self.err(f"parameter `{' '.join(p)}`")
            mutref = p[2] == "&" and p[3] == "mut"
            params.append((p[0], self.rty(p[2:]), mutref))
        ret = self.rty(rec["ret"]) if rec["ret"] else "unit"
        return selfmode, params, ret

    def eff(self, ret):
        return ret[1] if (self.infallible and isinstance(ret, tuple) and ret[0] == "res") else ret

    def translate_fn(self, group, name, rec, lean_ns):
        where = f"{'trait ' + SK_TRAIT if group is None else 'impl ' + (SK_GROUPS[group].get('trait') + ' for ' if SK_GROUPS[group].get('trait') else '') + SK_GROUPS[group]['ty']}: fn {name}"
        self.setup_group(group)
        self.setup(group, rec, where)
        if self.sgen:
            self.generics["S"] = "Bits"
            self.wname["S"] = "sw"
        for a in rec["attrs"]:
            if not (a == "inline" or a.startswith("inline(") or a.startswith("doc") or a.startswith("allow") or a.startswith("must_use")):
                self.err(f"attribute #[{a}]")
        if rec["body"] is None:
            self.err("no body")
        selfmode, params, ret = self.signature(rec)
        self.selfmode = selfmode
        self.full_ret = ret
        self.ret_ty = ret
        if self.infallible and isinstance(ret, tuple) and ret[0] == "res":
            # Result<R, Infallible>: `Ok(x)` = x; the function's value is the R
            self.ret_ty = ret
        self.mutparams = [p[0] for p in params if p[2]]
        self.param_ty = {p[0]: p[1] for p in params}
        toks = self.idx.t
        lo, hi = rec["body"]
        for attempt in (False, True):
            self.pure = attempt
            self.counter = 0
            self.steps = []
            self.nfall = 0
            self.depth = 0
            ps = self.Parser(toks, lo, hi, where, None)
            blk = ps.block()
            if ps.p != hi:
                self.err("trailing tokens after the body")
            env = {}
            if selfmode is not None:
                env["self"] = Var("self", "self", selfmode == "mut")
            for pn, pt, pm in params:
                env[pn] = Var(self.mangle(pn), pt, True)    # assignability is checked by rustc (`mut` on the parameter)
            try:
                text = self.walk(self.body(blk), 0, env, FnK(self))
            except Impure:
                self.err("internal: impure step in a pure function")
            if self.steps:
                self.err("internal: pending steps")
            if attempt or self.nfall > 0:
                break
        fi = FnInfo()
        fi.lean = f"{lean_ns}.{name}"
        fi.rust = name
        fi.params, fi.ret, fi.selfmode = params, ret, selfmode
        fi.eff_ret = self.eff(ret)
        fi.fallible = not self.pure
        fi.explicit_sw = self.sgen and selfmode is None
        fi.group = group
        sig = []
        if self.dict_mode:
            sig.append("{σ ε : Type}")
        if fi.fallible:
            sig.append("(dbg : Bool)")
        if self.dict_mode:
            sig.append(f"(d : {SK_TRAIT}Req σ ε)")
        if self.sgen:
            sig.append("(sw : Nat)" if fi.explicit_sw else "{sw : Nat}")
        if any(v == "Bits" and k != "S" for k, v in self.generics.items()):
            sig.append("{w : Nat}")
        if selfmode is not None:
            sig.append(f"(self : {self.self_lty})")
        for pn, pt, pm in params:
            sig.append(f"({self.mangle(pn)} : {self.lty(pt)})")
        fi.sig = " ".join(sig)
        fi.rtype = self.fn_rtype()
        fi.text = (f"/-- `{where.replace('`', '')}` (bitsink.rs) -/\n"
                   f"def {fi.lean} {fi.sig} : {fi.rtype} :=\n{ind(text)}\n")
        return fi

    # the payload of a return: [value] + final contents of `&mut` parameters + [self]; uses the effective return type
    def payload_text(self, env, vlean):
        r = self.eff(self.ret_ty)
        comps = ([vlean] if r != "unit" else []) + [env[n].lean for n in self.payload_parts()]
        return "()" if not comps else (comps[0] if len(comps) == 1 else "(" + ", ".join(comps) + ")")

    def payload_ty(self):
        r = self.eff(self.ret_ty)
        comps = ([self.lty(self.ret_ty)] if r != "unit" else [])
        comps += [self.lty(self.param_ty[n]) for n in self.mutparams] + ([self.self_lty] if self.selfmode == "mut" else [])
        return "Unit" if not comps else (comps[0] if len(comps) == 1 else " × ".join(par(x) for x in comps))

    # ------------------------------------------------------------------ sealed traits
    def sealed(self, mod, bounds, types, what):
        if mod not in self.idx.mods:
            fail(f"mod {mod} not found")
        lo, hi = self.idx.mods[mod]
        t = self.idx.t
        i = lo
        while i < hi and t[i] != "trait":
            if t[i] == "use":
                while t[i] != ";":
                    i += 1
                i += 1
                continue
            if t[i] == "pub":
                i += 1
                continue
            fail(f"mod {mod}: unexpected token `{t[i]}`")
        if i >= hi or t[i + 1] != "Sealed" or t[i + 2] != ":":
            fail(f"mod {mod}: `trait Sealed: ..` expected")
        j = i + 3
        while t[j] != "{":
            j += 1
        got = " ".join(t[i + 3:j]).replace(" :: ", "::").replace(" < ", "<").replace(" >", ">")
        if got != bounds:
            fail(f"mod {mod}: the supertraits of Sealed changed: `{got}` (the readings of the operators on `{what}` values were "
                 f"written for `{bounds}`)")
        e = group_end(t, j)
        members = {}
        self.idx.scan_members(j + 1, e - 1, members, f"mod {mod}: trait Sealed")
        if any(k not in ("#consts",) for k in members):
            fail(f"mod {mod}: trait Sealed has members other than consts")
        impls = []
        i = e
        while i < hi:
            if t[i:i + 4] == ["impl", "Sealed", "for"] + [t[i + 3]] and t[i + 4:i + 6] == ["{", "}"]:
                impls.append(t[i + 3])
                i += 6
                continue
            fail(f"mod {mod}: unexpected item after the trait (`{' '.join(t[i:i + 6])}`); `impl Sealed for X {{}}` expected")
        if sorted(impls) != sorted(types) or len(set(impls)) != len(impls):
            fail(f"mod {mod}: Sealed is implemented for {impls}; the translation of `{what}` was written for {sorted(types)}")
        return members.get("#consts", []), [types[x] for x in impls]

    def emit_consts(self, consts):
        self.sealed_consts_decl = consts
        names = set()
        for c in consts:
            sel = [a for a in c["attrs"] if a.startswith("rustversion::")]
            other = [a for a in c["attrs"] if not a.startswith("rustversion::") and not a.startswith("doc")]
            if other or len(sel) > 1:
                fail(f"seal_bits::Sealed: const {c['name']}: attributes {c['attrs']}")
            suf = ""
            if sel:
                key = sel[0][len("rustversion::"):]
                if key not in SK_RUSTVERSION:
                    fail(f"seal_bits::Sealed: const {c['name']}: #[{sel[0]}]")
                suf = SK_RUSTVERSION[key]
            c["lean"] = c["name"] + suf
            if c["lean"] in names:
                fail(f"seal_bits::Sealed: const {c['lean']} twice")
            names.add(c["lean"])
            if "".join(c["ty"]) != "usize":
                fail(f"seal_bits::Sealed: const {c['name']}: type")
        out, done = [], set()
        pending = list(consts)
        while pending:
            progress = False
            for c in list(pending):
                refs = {c["expr"][k + 2] for k in range(len(c["expr"]) - 2) if c["expr"][k] == "Self" and c["expr"][k + 1] == "::"}
                if not refs <= done | {"x"} and not all(r in done for r in refs):
                    continue
                self.setup_group(None)
                self.setup(None, None, f"seal_bits::Sealed: const {c['name']}")
                self.dict_mode, self.selfmode, self.pure, self.const_mode = False, None, True, True
                self.ret_ty = "usize"
                ps = self.Parser(c["expr"], 0, len(c["expr"]), self.where, None)
                e = ps.expr()
                if ps.p != len(c["expr"]):
                    self.err("trailing tokens")
                v = self.typed(self.ex(e, {}, "usize"), "usize", "const value")
                out.append(f"/-- `const {c['name']}: usize = {' '.join(c['expr'])};` of `seal_bits::Sealed`"
                           f"{' (#[' + [a for a in c['attrs'] if a.startswith('rustversion')][0] + '])' if c['lean'] != c['name'] or any(a.startswith('rustversion') for a in c['attrs']) else ''}, for a type of `w` bits -/\n"
                           f"def Sealed.{c['lean']} (w : Nat) : Nat :=\n  {v.lean}\n")
                done.add(c["name"])
                pending.remove(c)
                progress = True
            if not progress:
                fail("seal_bits::Sealed: cyclic consts")
        self.const_mode = False
        return "\n".join(out)

    def req_signatures(self):
        self.req_sigs = {}
        fields = []
        for name in SK_REQUIRED:
            rec = self.idx.trait_fns.get(name)
            if rec is None or rec["body"] is not None:
                fail(f"trait {SK_TRAIT}: `{name}` is expected to be a required method (no body)")
            self.setup_group(None)
            self.setup(None, rec, f"trait {SK_TRAIT}: fn {name}")
            selfmode, params, ret = self.signature(rec)
            if selfmode != "mut" or not (isinstance(ret, tuple) and ret[0] == "res") or any(p[2] for p in params):
                self.err("signature of a required method")
            self.req_sigs[name] = dict(params=[(p[0], p[1]) for p in params], ret=ret)
            imp = "{w : Nat} → " if any(v == "Bits" for v in self.generics.values()) else ""
            args = " → ".join(["σ"] + [self.lty(p[1]) for p in params])
            fields.append(f"  {name} : {imp}{args} → Option ({self.lty(ret)} × σ)")
        for name, rec in self.idx.trait_fns.items():
            if name.startswith("#"):
                continue
            if rec["body"] is None and name not in SK_REQUIRED:
                fail(f"trait {SK_TRAIT}: new required method `{name}`")
            if rec["body"] is not None and name not in SK_PROVIDED:
                fail(f"trait {SK_TRAIT}: new provided method `{name}`")
        if self.idx.trait_fns.get("#types") not in (None, {}) or "#consts" in self.idx.trait_fns:
            fail(f"trait {SK_TRAIT}: associated type with a default / const")
        return (f"/-- the required methods of `trait {SK_TRAIT}` for a sink state `σ` with error type `ε` (`none` = the method panics; "
                f"the new state is returned in the error case too) -/\n"
                f"structure {SK_TRAIT}Req (σ ε : Type) where\n" + "\n".join(fields) + "\n")


SK_PRELUDE = '''/-- control flow of a loop body / a loop: `ret r` = the enclosing function returns `r`, `next s` = go on with state `s` -/
inductive Flow (ρ σ : Type) where
  | ret (r : ρ)
  | next (s : σ)

/-- `debug_assert!(c)` / `assert!(c)` -/
def req (c : Bool) : Option Unit := if c then some () else none

/-- `a + b` on `uW` -/
def addU (dbg : Bool) (w a b : Nat) : Option Nat :=
  if a + b < 2 ^ w then some (a + b) else if dbg then none else some ((a + b) % 2 ^ w)

/-- `a - b` on `uW` -/
def subU (dbg : Bool) (w a b : Nat) : Option Nat :=
  if b ≤ a then some (a - b) else if dbg then none else some ((2 ^ w + a % 2 ^ w - b % 2 ^ w) % 2 ^ w)

/-- `a * b` on `uW` -/
def mulU (dbg : Bool) (w a b : Nat) : Option Nat :=
  if a * b < 2 ^ w then some (a * b) else if dbg then none else some ((a * b) % 2 ^ w)

/-- shift amount of `<<` / `>>` on a `W`-bit value: the dev profile panics iff `k >= W`, release masks it -/
def shAmt (dbg : Bool) (w k : Nat) : Option Nat := if k < w then some k else if dbg then none else some (k % w)

def shlU (w a k : Nat) : Nat := (a * 2 ^ k) % 2 ^ w
def shrU (a k : Nat) : Nat := a / 2 ^ k
/-- `!a` on `uW` -/
def notU (w a : Nat) : Nat := 2 ^ w - 1 - a

/-- `v << k` on a `w`-bit integer -/
def shlB (dbg : Bool) {w : Nat} (v : BitVec w) (k : Nat) : Option (BitVec w) :=
  if k < w then some (v <<< k) else if dbg then none else some (v <<< (k % w))

/-- `v >> k` on an unsigned `w`-bit integer -/
def shrB (dbg : Bool) {w : Nat} (v : BitVec w) (k : Nat) : Option (BitVec w) :=
  if k < w then some (v >>> k) else if dbg then none else some (v >>> (k % w))

/-- `a - b` on an unsigned `w`-bit integer -/
def subB (dbg : Bool) {w : Nat} (a b : BitVec w) : Option (BitVec w) :=
  if b.toNat ≤ a.toNat then some (a - b) else if dbg then none else some (a - b)

/-- `std::mem::size_of::<T>()` of a `w`-bit primitive integer -/
def sizeOfT (w : Nat) : Nat := w / 8
/-- `n.ilog2()` (n > 0) -/
def ilog2 (n : Nat) : Nat := Nat.log2 n
/-- `n.trailing_zeros()` on usize -/
def trailingZeros (n : Nat) : Nat := ((List.range 64).find? fun i => n.testBit i).getD 64

/-- `v.to_be_bytes()` -/
def beBytes {w : Nat} (v : BitVec w) : List (BitVec 8) := (List.range (w / 8)).map fun i => (v >>> (w - 8 * (i + 1))).setWidth 8
/-- `v.to_ne_bytes()` on a little-endian target -/
def leBytes {w : Nat} (v : BitVec w) : List (BitVec 8) := (List.range (w / 8)).map fun i => (v >>> (8 * i)).setWidth 8

/-- `&xs[a..b]` (panics unless `a <= b <= len`) -/
def sliceR {α : Type} (xs : List α) (a b : Nat) : Option (List α) :=
  if a ≤ b ∧ b ≤ xs.length then some ((xs.take b).drop a) else none

/-- `xs[a..b].copy_from_slice(src)` (panics unless `a <= b <= len` and `src.len() == b - a`) -/
def sliceCopy {α : Type} (xs : List α) (a b : Nat) (src : List α) : Option (List α) :=
  if a ≤ b ∧ b ≤ xs.length ∧ src.length = b - a then some (xs.take a ++ src ++ xs.drop b) else none

/-- `xs.last_mut()`: the element the reference points to -/
def lastMut {α : Type} (xs : List α) : Option α := xs.getLast?
/-- writing `v` through the reference obtained from `last_mut()` -/
def setLast {α : Type} (xs : List α) (v : α) : List α := xs.dropLast ++ [v]

/-- `v.resize(n, x)` -/
def vecResize {α : Type} (v : List α) (n : Nat) (x : α) : List α := v.take n ++ List.replicate (n - v.length) x

/-- the values of `a..b` -/
def rangeL (a b : Nat) : List Nat := List.range' a (b - a)

/-- `for x in xs { body }` without `return` / `?` in the body -/
def forO {α σ : Type} : List α → σ → (α → σ → Option σ) → Option σ
  | [], s, _ => some s
  | x :: xs, s, f => (f x s).bind fun s' => forO xs s' f

/-- `for x in xs { body }` where the body may leave the function -/
def forF {α ρ σ : Type} : List α → σ → (α → σ → Option (Flow ρ σ)) → Option (Flow ρ σ)
  | [], s, _ => some (.next s)
  | x :: xs, s, f => match f x s with
    | none => none
    | some (.ret r) => some (.ret r)
    | some (.next s') => forF xs s' f

/-- `while c { body }` with at most `fuel` iterations (`none` if the condition still holds after that) -/
def whileF {ρ σ : Type} : Nat → (σ → Bool) → (σ → Option (Flow ρ σ)) → σ → Option (Flow ρ σ)
  | 0, c, _, s => if c s then none else some (.next s)
  | fuel + 1, c, f, s =>
    if c s then
      match f s with
      | none => none
      | some (.ret r) => some (.ret r)
      | some (.next s') => whileF fuel c f s'
    else some (.next s)

/-- what follows a loop -/
def bindF {ρ σ β : Type} (a : Option (Flow ρ σ)) (onRet : ρ → Option β) (k : σ → Option β) : Option β :=
  match a with
  | none => none
  | some (.ret r) => onRet r
  | some (.next s) => k s
'''


def emit_sink(Tmod, status=None):
    global T, TS
    T = Tmod
    import os
    import translate_source
    TS = translate_source
    path = os.path.join(T.REPO, "src", "bitsink.rs")
    if not os.path.exists(path):
        fail("file not found")
    toks = T.hdr_lex(open(path).read(), "bitsink.rs")
    idx = Index(toks)
    if idx.struct is None:
        fail("struct MemSink not found")
    if not idx.trait_fns:
        fail(f"trait {SK_TRAIT} not found")
    tx = SkTx(idx, make_parser())
    # every impl block of the file must be known
    known = set()
    for g, d in SK_GROUPS.items():
        known.add(("S:Bits" if d["gen"] else None, d.get("trait"), d["ty"]))
    ignorable = {("T:seal_bits::Sealed", "Bits", "T"), ("T:seal_signed_bits::Sealed", "SignedBits", "T")}
    for key in idx.impls:
        if key not in known and key not in ignorable:
            fail(f"unexpected impl block {key}: not covered by this part")
    for key in ignorable:
        if key not in idx.impls or idx.impls[key]:
            fail(f"blanket impl {key} not found or not empty")
    consts, widths = tx.sealed("seal_bits", SK_SEALED_BOUNDS, SK_SEALED_TYPES, "T: Bits")
    sconsts, swidths = tx.sealed("seal_signed_bits", SK_SIGNED_BOUNDS, SK_SIGNED_TYPES, "T: SignedBits")
    if sconsts:
        fail("seal_signed_bits::Sealed has consts")
    out = []
    out.append(tx.emit_consts(consts))
    out.append(f"/-- widths of the types with `impl Sealed for ..` in `seal_bits` (the types `T: Bits` ranges over) -/\n"
               f"def Sealed.widths : List Nat := [{', '.join(str(x) for x in widths)}]\n\n"
               f"/-- widths of the types with `impl Sealed for ..` in `seal_signed_bits` -/\n"
               f"def SignedSealed.widths : List Nat := [{', '.join(str(x) for x in swidths)}]\n")
    # struct
    tx.setup_group("MemSink")
    tx.setup("MemSink", None, "struct MemSink")
    tx.generics["S"] = "Bits"
    tx.wname["S"] = "sw"
    out.append("/-- `struct MemSink<S>` with `S` a `sw`-bit unsigned integer -/\nstructure MemSink (sw : Nat) where\n"
               + "\n".join(f"  {f} : {tx.lty(ty)}" for f, ty in tx.fields.items()) + "\n")
    # all functions of the known groups must be in the spec
    for g in SK_GROUPS:
        for name in tx.idx_group(g):
            if name.startswith("#"):
                continue
            if (g, name) not in SK_SPEC and (g, name) not in SK_UNTRANSLATED:
                fail(f"impl {SK_GROUPS[g]['ty']}: new function `{name}` (not in SK_SPEC)")
    emitted_req = False

    def emit_trait():
        parts = [tx.req_signatures()]
        for name in SK_PROVIDED:
            rec = idx.trait_fns.get(name)
            if rec is None or rec["body"] is None:
                fail(f"trait {SK_TRAIT}: provided method `{name}` not found")
            fi = tx.translate_fn(None, name, rec, SK_TRAIT)
            tx.fns[(None, name)] = fi
            parts.append(fi.text)
        return "\n".join(parts)

    out.append(None)    # place of the trait
    trait_at = len(out) - 1
    groups_done = []
    for g, name in SK_SPEC:
        recs = tx.idx_group(g)
        if name not in recs:
            fail(f"impl {SK_GROUPS[g]['ty']}: function `{name}` not found")
        fi = tx.translate_fn(g, name, recs[name], SK_GROUPS[g]["lean"])
        tx.fns[(g, name)] = fi
        out.append(fi.text)
    out[trait_at] = emit_trait()
    # instances of the provided methods
    for g, d in SK_GROUPS.items():
        if d.get("trait") != SK_TRAIT:
            continue
        tx.setup_group(g)
        ns = d["lean"]
        lines = []
        for name in SK_REQUIRED:
            fi = tx.fns.get((g, name))
            if fi is None:
                fail(f"impl {SK_TRAIT} for {d['ty']}: required method `{name}` missing")
            ps = " ".join(tx.mangle(p[0]) for p in fi.params)
            call = f"{fi.lean}{' dbg' if fi.fallible else ''} self {ps}".rstrip()
            wrapf = "fun (r, s) => (Except.ok r, s)" if fi.eff_ret != "unit" else "fun s => (Except.ok (), s)"
            body = f"({call}).map {wrapf}" if fi.fallible else f"some (({wrapf}) ({call}))"
            lines.append(f"  {name} := fun self {ps} => {body}".replace("  =>", " =>"))
        out.append(f"/-- the required methods as implemented by `impl {SK_TRAIT} for {d['ty']}` (`type Error = Infallible`) -/\n"
                   f"def {ns}.req (dbg : Bool) : {SK_TRAIT}Req ({tx.self_lty}) Empty where\n" + "\n".join(lines) + "\n")
        for name in SK_PROVIDED:
            if (g, name) in tx.fns:
                continue
            fi = tx.fns[(None, name)]
            tx.setup(None, idx.trait_fns[name], "")
            tx.dict_mode, tx.infallible = True, False
            sm, params, ret = tx.signature(idx.trait_fns[name])
            tx.infallible = True
            ps = " ".join(f"({tx.mangle(p[0])} : {tx.lty(p[1])})" for p in params)
            an = " ".join(tx.mangle(p[0]) for p in params)
            out.append(f"/-- `{name}` of `{d['ty']}`: the provided method of the trait (not overridden by the impl) -/\n"
                       f"def {ns}.{name} (dbg : Bool) (self : {tx.self_lty}) {ps} :=\n"
                       f"  {fi.lean}{' dbg' if fi.fallible else ''} ({ns}.req dbg) self {an}\n")
    header = (
        "-- GENERATED by tools/translate.py (part `sink`, tools/translate_sink.py) from src/bitsink.rs — do not edit\n"
        "/-\nStatement-by-statement mirror of the bit sinks: the provided methods of `trait BitSink` (over a record of the required\n"
        "methods), `MemSink<S>`, `impl BitSink for MemSink<u8>`, `MemSink<u64>::write_msbs_impl`, `impl BitSink for MemSink<u64>`,\n"
        "the associated consts of the sealed trait behind `Bits`.\n\n"
        "A function that can panic is `f (dbg : Bool) args : Option R`: `none` = the Rust function panics.  `dbg = true` is the dev\n"
        "profile (overflow checks and debug assertions on), `dbg = false` the release profile; both readings are this one term\n"
        "(every profile-dependent operation is a prelude function taking `dbg`).  A `&mut self` method returns `(value, self)`\n"
        "(just `self` for `()`), a `&mut [u8]` parameter is returned as its final content.  `T: Bits` is an implicit width `w` and a\n"
        "`BitVec w`, the storage element `S` a width `sw`; usize / u32 are `Nat` (domains are hypotheses of the theorems).\n"
        "`Result<R, Infallible>` is `R`; in the provided methods `Result<R, Self::Error>` is `Except ε R`.\n"
        "`(step).bind fun x => rest` = `let x = step; rest` where `step` can panic; `let k := fun .. => rest` is the join point after an\n"
        "`if` whose branches both continue.  The readings this file relies on are listed at its end.\n-/\n"
        "set_option linter.unusedVariables false\nnamespace FlacVerif.Gen.Sink\n\n")
    trailer = ("\n/-\nTrusted readings of this part (tools/translate_sink.py, tables SK_*):\n" + "\n".join("  * " + r for r in SK_READINGS)
               + f"\n  * supertraits of seal_bits::Sealed: {SK_SEALED_BOUNDS}\n"
               + "\n".join(f"  * not translated: {SK_GROUPS[g]['ty']}::{n}: {why}" for (g, n), why in SK_UNTRANSLATED.items())
               + "\n-/\nend FlacVerif.Gen.Sink\n")
    text = header + SK_PRELUDE + "\n" + "\n".join(out) + trailer
    return text.replace("sizeOf ", "sizeOfT ")
