#!/usr/bin/env python3
"""Imports a delivered seeded change into /verif/seeded/<id>/ after confirming it in its scratch worktree.

  tools/import_mutant.py <property> <worktree> <OUT/mK dir> <new id> [cargo test extra args for the demo]

Confirmation (tools/confirm_mutant.sh): the demo passes on the pristine worktree; with the patch the existing
suite passes and the demo fails. Writes patch.diff, demo.rs, meta.json (with the confirmation log). Refuses
(exit 1, nothing kept) when the confirmation does not come out that way."""
import json, os, re, shutil, subprocess, sys
ROOT = os.path.dirname(os.path.dirname(os.path.abspath(__file__)))
prop, wt, src, mid = sys.argv[1:5]
extra = sys.argv[5:]
notes = open(os.path.join(src, "NOTES.md")).read() if os.path.exists(os.path.join(src, "NOTES.md")) else ""
m = re.search(r"features?\s*[:=]?\s*`?([a-z,]+)`?", open(os.path.join(src, "demo.rs")).read()[:600])
p = subprocess.run([os.path.join(ROOT, "tools", "confirm_mutant.sh"), wt, os.path.abspath(src)] + extra,
                   stdout=subprocess.PIPE, stderr=subprocess.STDOUT, text=True, env={**os.environ, "CARGO_NET_OFFLINE": "true"})
log = p.stdout
print(log)
sec = re.split(r"^== ", log, flags=re.M)
get = lambda name: next((s for s in sec if s.startswith(name)), "")
pr, su, mu = get("pristine: demo"), get("mutant: existing suite"), get("mutant: demo")
ok = ("test result: ok" in pr and "FAILED" not in pr and "test result: ok" in su and "FAILED" not in su and "failed" not in su.replace("0 failed", "")
      and "FAILED" in mu)
if not ok:
    print("NOT CONFIRMED")
    sys.exit(1)
d = os.path.join(ROOT, "seeded", mid)
os.makedirs(d, exist_ok=True)
shutil.copy(os.path.join(src, "patch.diff"), os.path.join(d, "patch.diff"))
shutil.copy(os.path.join(src, "demo.rs"), os.path.join(d, "demo.rs"))
json.dump({"id": mid, "breaks_property": prop,
           "origin": os.environ.get("FV_SEED_ORIGIN", "fresh sub-agent given only the property text, the list of earlier ideas to avoid, and a scratch worktree of /repo (nothing from /verif)"),
           "needs_to_manifest": notes[:4000], "demo_cargo_args": " ".join(extra),
           "confirmed_by": "tools/confirm_mutant.sh in the scratch worktree: demo passes on the pristine tree; with the patch the existing suite passes and the demo fails",
           "confirmation_log": log[-3000:]}, open(os.path.join(d, "meta.json"), "w"), indent=1)
print("CONFIRMED ->", d)
