#!/usr/bin/env python3
"""For every wave-4 seeded change: apply the patch to a copy of the pristine source, run the translator (FV_REPO / FV_ROOT into
this private copy of /verif) and build every generated-part theorem module; record which parts fail closed / which theorem modules break."""
import glob, json, os, re, shutil, subprocess, sys
# usage: tools/prooflevel.py <private copy of /verif with a built lean/.lake> <pristine copy of the crate (src, Cargo.toml, Cargo.lock)> [ids...]
# writes seeded/<id>/prooflevel.json in /verif; works on copies only (never touches /repo or /verif/lean)
V = sys.argv[1]
SNAP = sys.argv[2]
sys.argv = sys.argv[:1] + sys.argv[3:]
WORK = os.path.dirname(V.rstrip("/"))
MODS = ["C02Hdr", "C02Gen", "C08Gen", "C18Gen", "C15Gen", "C14Gen", "C09Gen", "C11Gen", "C12Gen", "C03Gen", "C03GenMem", "C03GenErr", "C06Gen", "C06GenCor",
        "C01Gen", "C10Gen", "C13Gen", "C09Gen2", "C16Gen", "C16GenRel", "C08Gen3", "C08Gen4", "C07Gen", "C13GenProp", "C07", "C19"]
out = {}
ids = sorted(os.path.basename(os.path.dirname(p)) for p in glob.glob("/verif/seeded/C*-m[78]/patch.diff"))
if len(sys.argv) > 1:
    ids = sys.argv[1:]
for mid in ids:
    R = os.path.join(WORK, "repo")
    shutil.rmtree(R, ignore_errors=True)
    os.makedirs(R)
    subprocess.run(f"cp -r {SNAP}/src {SNAP}/Cargo.toml {SNAP}/Cargo.lock {R}/ && chmod -R u+w {R}", shell=True, check=True)
    a = subprocess.run(["patch", "-p1", "-s", "-i", f"/verif/seeded/{mid}/patch.diff"], cwd=R, capture_output=True, text=True)
    if a.returncode != 0:
        out[mid] = {"error": "patch failed: " + a.stdout[-200:]}
        continue
    env = dict(os.environ, FV_REPO=R, FV_ROOT=V)
    t = subprocess.run([sys.executable, f"{V}/tools/translate.py"], env=env, capture_output=True, text=True)
    st = json.load(open(f"{V}/.cache/translate_status.json"))
    closed = {k: v[:160] for k, v in st.items() if v != "ok"}
    b = subprocess.run(["lake", "build"] + ["FlacVerif.Theorems." + m for m in MODS], cwd=f"{V}/lean", capture_output=True, text=True)
    broken = sorted(set(re.findall(r"^- FlacVerif\.(?:Theorems|Gen|Lemmas)\.(\S+)", b.stdout + b.stderr, flags=re.M)))
    firsterr = re.findall(r"^error: (FlacVerif/\S+?\.lean:\d+)", b.stdout + b.stderr, flags=re.M)[:3]
    out[mid] = {"fail_closed": closed, "broken_modules": broken, "first_errors": firsterr}
    print(mid, "closed:", sorted(closed), "broken:", broken, flush=True)
    json.dump({"what": "translator + lake build of every generated-part theorem module against the patched source (private copy; tools/prooflevel.py)", **out[mid]}, open(f"/verif/seeded/{mid}/prooflevel.json", "w"), indent=1)
