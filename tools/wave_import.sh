#!/bin/sh
# tools/wave_import.sh <property> <worktree> <first new index>   e.g.  tools/wave_import.sh C16 /tmp/mut4/C16 7
# Imports <worktree>/OUT/m1, m2, ... as <property>-m<index>, m<index+1>, ... (confirmation by tools/import_mutant.py).
P="$1"; WT="$2"; K="$3"
export FV_SEED_ORIGIN="fresh sub-agent (wave ${FV_WAVE:-4}) given only the property text, one line per earlier change to avoid, and a scratch worktree of /repo (nothing from /verif)"
for d in "$WT"/OUT/m*; do
  [ -f "$d/patch.diff" ] || continue
  EXTRA=$(head -8 "$d/demo.rs" | grep -o -- '--features[ =][a-z,]*' | head -1)
  echo "### $P-m$K from $d  extra='$EXTRA'"
  python3 "$(dirname "$0")/import_mutant.py" "$P" "$WT" "$d" "$P-m$K" $EXTRA | tail -12
  K=$((K+1))
done
