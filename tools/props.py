"""Per-property configuration of ./check (streams, budgets, trusted base, rules)."""
import re

COMMON_TRUSTED = [
    "Lean 4.33.0 kernel (thorough tier: re-checked with leanchecker)",
    "axioms: only those listed per theorem under coverage.axioms (subset of propext, Classical.choice, Quot.sound); no sorry/admit/native_decide/bv_decide (source scan + #print axioms)",
    "correspondence harness /verif/harness (Rust, links the crate built from /repo's working tree with --cfg flacenc_verif) and fvdriver's line-protocol glue",
    "rustc/std integer semantics as modelled (DESIGN 1.1), little-endian target",
]


def default_class(line):
    """Class of a record for distinct_nontrivial: the record kind plus its `cls=` field when the
    harness provides one; records without a class field count once per distinct op/shape string."""
    m = re.search(r"\bcls=(\S+)", line)
    if m:
        return m.group(1)
    return None


def sink_class(line):
    # non-trivial = at least one op that writes across a storage-word boundary or has n in {0,w};
    # distinct = the multiset of (op kind, width, n mod 8 class) of the sequence
    m = re.search(r"\bops=(\S+)", line)
    k = re.search(r"\bkind=(\S+)", line)
    if not m:
        return None
    ops = m.group(1).split(",")
    sig = []
    for o in ops[:6]:
        parts = o[1:].split(":")
        sig.append(o[0] + (parts[0] if o[0] in "LMW" else "") + (":" + parts[-1] if o[0] in "LMT" else ""))
    return (k.group(1) if k else "") + "|" + ",".join(sig) + ("+" if len(ops) > 6 else "")


def stream_class(line):
    m = re.search(r"\bcls=(\S+)", line)
    c = re.search(r"\bcfg=(\S+)", line)
    l = re.search(r"\blen=(\d+)", line)
    if not m:
        return None
    # distinct = (family|mode|src|width/channels, block size, length); non-trivial = at least one sample
    if l and int(l.group(1)) == 0 and "empty" not in line[:60]:
        return None
    bs = re.search(r"bs:(\d+)", c.group(1)).group(1) if c else ""
    return m.group(1) + "|" + bs + "|" + (l.group(1) if l else "")


STREAM_RULE = ("stream stream: corpus (witnesses of F1/F3/F4/F9) first, then random (config, PCM) pairs from one PRNG: "
               "14 signal families (silence, DC, full-scale, alternating, impulses, sine+noise at every amplitude, white, heavy-tailed, "
               "r=-l, r=l, loud/silent partitions, ramps, near-constant), 8/12/16/20/24 bit, 1..8 channels, rates at every code-class boundary, "
               "block sizes incl. every explicit-code class, lengths 0/1/15..17/bs-1/bs/bs+1/multi-frame; entry points: single-thread, "
               "multi-thread W=1..3, frame-by-frame; sources: MemSource, byte fill, no len_hint. Real bytes are decoded by the Lean RFC decoder; "
               "distinct = (family, mode, source, width/channels, block size, length); empty inputs count once")

STREAM_TRUSTED = ["hand-written Lean decoder Model/Rfc.lean (from RFC 9639) and component writer Model/Component.lean, tied to the code by re-serialising every decoded real stream byte-exactly",
                  "executable MD5 in Lean (not reasoned about; checked against the md-5 crate on every stream)",
                  "claxon 0.4.3 as second, independent decoder in the direct oracle"]

def c05_extra(run, tier, bins):
    """Multi-thread = single-thread also for the experimental estimators (direct MSE, IRLS-MAE), which keep
    per-thread state: the par stream is run once more in a build with the `experimental` feature."""
    b, err = run.build_harness("release", features="par,serde,log,decode,experimental")
    if err:
        run.proof_problems.append(err)
        return
    run.programs += 1
    run.run_stream(b, "par", ["--cases", 60 if tier == "quick" else 1500], "par@experimental", env={"FVH_EXPERIMENTAL": "1"})


PROPS = {
    "C01": {
        "uses_gen": ["constants", "config", "headers", "writer", "verify", "coding", "source", "decode", "lpc", "rice", "driver", "sink", "utf8"],
        "theorem_modules": ["FlacVerif.Theorems.C01", "FlacVerif.Theorems.C01Strict", "FlacVerif.Theorems.C01Wrap", "FlacVerif.Theorems.C09Gen", "FlacVerif.Theorems.C01Gen", "FlacVerif.Theorems.C13Gen", "FlacVerif.Theorems.C03GenMem"],
        "streams": {"quick": [("stream", ["--cases", 400, "--max-samples", 6000]), ("kernel", ["--cases", 150]), ("stream", ["--cases", 24, "--max-samples", 9000, "--focus", "burst"])],
                    "thorough": [("stream", ["--cases", 2000, "--max-samples", 24000]), ("kernel", ["--cases", 3000]), ("stream", ["--cases", 333, "--max-samples", 24000, "--focus", "burst"])],
                    "search": [("stream", ["--cases", 1500, "--max-samples", 12000])]},
        "diff_prefix": ["c01."], "oracle_fields": ["o_c01"], "class_of": stream_class, "rule": STREAM_RULE,
        "trusted_base": STREAM_TRUSTED,
        "assumptions": ["float estimator output abstracted: theorems quantify over all coefficients/shifts/orders", "source contract: read_samples delivers min(block_size, remaining) samples"],
    },
    "C02": {
        "theorem_modules": ["FlacVerif.Theorems.C02", "FlacVerif.Theorems.C02Gen", "FlacVerif.Theorems.C02Hdr", "FlacVerif.Theorems.C01Strict", "FlacVerif.Theorems.C08Gen3"], "uses_gen": ["tables", "headers", "writer", "sink", "utf8"],
        "streams": {"quick": [("stream", ["--cases", 400, "--max-samples", 6000]), ("kernel", ["--cases", 30])],
                    "thorough": [("stream", ["--cases", 2000, "--max-samples", 24000]), ("kernel", ["--cases", 300])],
                    "search": [("stream", ["--cases", 1500, "--max-samples", 12000])]},
        "diff_prefix": ["c02."], "oracle_fields": ["o_c01"], "class_of": stream_class, "rule": STREAM_RULE,
        "trusted_base": STREAM_TRUSTED, "assumptions": [],
    },
    "C03": {
        "uses_gen": ["constants", "config", "headers", "writer", "verify", "source", "coding", "driver", "sink", "utf8"],
        "theorem_modules": ["FlacVerif.Theorems.C03", "FlacVerif.Theorems.C01Strict", "FlacVerif.Theorems.C14Gen", "FlacVerif.Theorems.C03Gen", "FlacVerif.Theorems.C03GenMem"],
        "streams": {"quick": [("stream", ["--cases", 400, "--max-samples", 6000])],
                    "thorough": [("stream", ["--cases", 2000, "--max-samples", 24000])],
                    "search": [("stream", ["--cases", 1500, "--max-samples", 12000])]},
        "diff_prefix": ["c03."], "oracle_fields": ["o_c03"], "class_of": stream_class, "rule": STREAM_RULE,
        "trusted_base": STREAM_TRUSTED, "assumptions": ["MD5 compression function trusted (executable, cross-checked)"],
    },
    "C04": {
        "uses_gen": ["constants", "config", "headers", "writer", "verify", "source", "coding", "driver", "sink", "utf8"],
        "theorem_modules": ["FlacVerif.Theorems.C04", "FlacVerif.Theorems.C01Strict", "FlacVerif.Theorems.C03Gen", "FlacVerif.Theorems.C03GenMem"],
        "streams": {"quick": [("stream", ["--cases", 300, "--max-samples", 6000]), ("stream", ["--cases", 300, "--max-samples", 1200, "--focus", "residues"]), ("stream", ["--cases", 5, "--max-samples", 36000, "--focus", "manyframes"])],
                    "thorough": [("stream", ["--cases", 1333, "--max-samples", 24000]), ("stream", ["--cases", 3000, "--max-samples", 2000, "--focus", "residues"]), ("stream", ["--cases", 100, "--max-samples", 24000, "--focus", "manyframes"])],
                    "search": [("stream", ["--cases", 1500, "--max-samples", 2000, "--focus", "residues"])]},
        "diff_prefix": ["c04."], "oracle_fields": ["o_c04"], "class_of": stream_class,
        "rule": STREAM_RULE + "; plus a residue sweep: block sizes 32/33/64 with every input length 0..2bs (every residue of len mod bs)",
        "trusted_base": STREAM_TRUSTED, "assumptions": [],
    },
    "C09": {
        "uses_gen": ["constants", "config", "headers", "writer", "verify", "coding", "source", "decode", "lpc", "rice", "callees"],
        "theorem_modules": ["FlacVerif.Theorems.C09", "FlacVerif.Theorems.C09Stream", "FlacVerif.Theorems.C09Gen", "FlacVerif.Theorems.C01Gen", "FlacVerif.Theorems.C13Gen", "FlacVerif.Theorems.C09Gen2", "FlacVerif.Theorems.C13GenProp"],
        "streams": {"quick": [("stream", ["--cases", 250, "--max-samples", 6000]), ("stream", ["--cases", 150, "--max-samples", 9000, "--focus", "loud"]), ("stream", ["--cases", 52, "--max-samples", 9000, "--focus", "threshold"])],
                    "thorough": [("stream", ["--cases", 1333, "--max-samples", 24000]), ("stream", ["--cases", 1000, "--max-samples", 24000, "--focus", "loud"]), ("stream", ["--cases", 173, "--max-samples", 24000, "--focus", "threshold"])],
                    "search": [("stream", ["--cases", 1500, "--max-samples", 9000, "--focus", "loud"])]},
        "diff_prefix": ["c09."], "oracle_fields": ["o_c09"], "class_of": stream_class,
        "rule": STREAM_RULE + "; plus a 'loud' focus (20/24-bit full-scale, alternating, heavy-tailed, loud/silent partition mixes, r=-l stereo; max_parameter in {0,1,2,8,14}). For every single-thread record the encoder's decision logic is REPLAYED in Lean (Model/Encode.lean: encodeFrame on the oracle log of hook 3) and must reproduce every frame byte for byte (field c09.functional); the direct oracle compares every frame's byte length with header + channels*(8+n*bps) bits + CRC",
        "trusted_base": STREAM_TRUSTED + ["functional encoder model Model/Encode.lean mirrors coding.rs:204-560 (tied byte-exactly on every single-thread record through the oracle log)"],
        "assumptions": ["float-derived values (quantised LPC parameters, entropy estimates) are an oracle: the theorems hold for every oracle log"],
    },
    "C11": {
        "uses_gen": ["sink"],
        "theorem_modules": ["FlacVerif.Theorems.C11", "FlacVerif.Theorems.C11Gen"],
        "streams": {
            "quick": [("sink", ["--cases", 3000, "--exhaustive"])],
            "thorough": [("sink", ["--cases", 60000, "--exhaustive"])],
            "search": [("sink", ["--cases", 20000, "--exhaustive"])],
        },
        "profiles": {"quick": ["release", "dev"], "thorough": ["release", "dev"]},
        "class_of": sink_class,
        "rule": "sink stream: corpus (F6 witnesses) + exhaustive sweep offset 0..63 x width {8,16,32,64} x n 0..=width x {lsbs,msbs,twoc,write,zeros} x {MemSink<u8>,MemSink<u64>,user sink} + random op sequences (length 1..200) from one PRNG; model and implementation compared on len, raw storage, exported bytes, ideal bits; distinct = (sink kind, first six ops' kind/width/n) signatures",
        "trusted_base": ["hand-written model FlacVerif/Model/Sink.lean mirrors src/bitsink.rs (tied by the exhaustive + random sink stream in both cargo profiles)"],
        "assumptions": ["operand values fit their declared width (the Rust type system enforces it)", "dest slice of write_to_byte_slice is exactly ceil(len/8) bytes"],
    },
}

COMP_RULE = ("comp stream: public constructors (Residual, QuantizedParameters, Constant, Verbatim, FixedLpc, Lpc, FrameHeader, unknown metadata) on grids of "
             "boundary and inconsistent arguments (one defect at a time on a consistent base: lengths that disagree, orders 7/16/40/64/257/2^32+1, parameters 15/40/255, "
             "warm-up beyond the partition/block, block size 0 and 32768, precision 0/16, coefficients one beyond the precision, wrap-around widths and rates, "
             "frame/sample numbers at every UTF-8 length boundary up to 2^36), random consistent residuals with partition orders 0..5, parameters 0..14 and quotient sums on "
             "both sides of 2^32; every accepted component: verify, count_bits, write through MemSink<u8>, MemSink<u64> and a recording user sink, parse back; for every k a sink "
             "failing on its k-th operation; plus whole small streams with every subframe type, with and without precomputed frame bitstreams. The Lean model decides accept/reject "
             "(Model/Verify.lean), predicts count, bits and the exact operation list (Model/Ops.lean); distinct = (constructor, argument class)")
KERNEL_RULE = ("kernel stream: integer kernels called through the cfg(flacenc_verif) re-exports with arguments the estimator would never produce: Rice parameter search on "
               "9 residual classes (tiny, 16-bit, 2^27, full 2^31 range, loud/silent partitions, per-partition scales, alternating extremes, heavy tails) x sizes 64..8192 x warm-up 0..32 x "
               "max parameter {0,1,2,3,7,8,13,14} with a brute-force optimum in the harness for n<=1200; sign folding; fixed-predictor residuals on full-scale 8..25-bit signals; compute_error with "
               "extreme coefficients/shift 0..15/order 1..24; deinterleave for 1..8 channels over stale buffers; LE conversions incl. negative extremes; EXHAUSTIVE header code spaces "
               "(block size 1..65535, sample size 0..255, sample rate 0..1048575), UTF-8-like coding at every bit-length boundary, finest partition order; distinct = (kernel, class)")

PROPS.update({
    "C08": {
        "theorem_modules": ["FlacVerif.Theorems.C08", "FlacVerif.Theorems.C12", "FlacVerif.Theorems.C08Gen", "FlacVerif.Theorems.C08Gen3", "FlacVerif.Theorems.C08Gen4", "FlacVerif.Lemmas.GenCount"], "uses_gen": ["headers", "writer", "sink", "utf8"],
        "streams": {"quick": [("comp", ["--cases", 120]), ("kernel", ["--cases", 30]), ("stream", ["--cases", 120, "--max-samples", 4000]), ("stream", ["--cases", 3, "--max-samples", 36000, "--focus", "manyframes"]), ("stream", ["--cases", 40, "--max-samples", 9000, "--focus", "loud"])],
                    "thorough": [("comp", ["--cases", 3000]), ("kernel", ["--cases", 200]), ("stream", ["--cases", 1000, "--max-samples", 24000])],
                    "search": [("comp", ["--cases", 1500]), ("stream", ["--cases", 800, "--max-samples", 9000])]},
        "profiles": {"quick": ["release", "dev"], "thorough": ["release", "dev"]},
        "diff_prefix": ["c08."], "oracle_fields": ["o_c08"],
        "rule": COMP_RULE + " || " + STREAM_RULE + "; here the model's count/bits of the tree decoded from the real bytes are compared with count_bits of the real stream",
        "trusted_base": ["hand-written component model Model/Component.lean, Model/Rice.lean (bits, count) and Model/Ops.lean, tied to bitrepr.rs by the comp stream (count, length through both sinks, bytes, operation list) and by re-serialising every decoded real stream byte-exactly"],
        "assumptions": ["components satisfy the well-formedness the constructors/verify establish (C18); frame and sample numbers < 2^36"],
    },
    "C12": {
        "theorem_modules": ["FlacVerif.Theorems.C12", "FlacVerif.Theorems.C08Gen", "FlacVerif.Theorems.C12Gen"], "uses_gen": ["headers", "writer", "sink"],
        "streams": {"quick": [("comp", ["--cases", 120])], "thorough": [("comp", ["--cases", 4000])], "search": [("comp", ["--cases", 1500])]},
        "profiles": {"quick": ["release", "dev"], "thorough": ["release", "dev"]},
        "diff_prefix": ["c12."], "oracle_fields": ["o_c12"], "rule": COMP_RULE,
        "trusted_base": ["Model/Ops.lean: the operation list each write issues (tied to bitrepr.rs by comparing it with the list a recording sink really receives, for every component and whole streams)",
                         "that every sink error is returned with `?` (no unwrap) is not visible to the model: it is established by the fail-at-every-k enumeration on the real code"],
        "assumptions": ["the user sink implements the four required trait methods (provided methods expand as Model/Sink.lean `Op.expand`, proved bit-equivalent in C11_defaults)"],
    },
    "C13": {
        "theorem_modules": ["FlacVerif.Theorems.C13", "FlacVerif.Theorems.C13Enc", "FlacVerif.Theorems.C09Gen", "FlacVerif.Theorems.C13Gen", "FlacVerif.Theorems.C13GenProp"], "uses_gen": ["constants", "config", "headers", "writer", "verify", "coding", "source", "decode", "rice"],
        "streams": {"quick": [("kernel", ["--cases", 400]), ("stream", ["--cases", 150, "--max-samples", 6000])],
                    "thorough": [("kernel", ["--cases", 6000]), ("stream", ["--cases", 1000, "--max-samples", 24000]), ("stream", ["--cases", 666, "--max-samples", 24000, "--focus", "loud"])],
                    "search": [("kernel", ["--cases", 3000])]},
        "diff_prefix": ["c13."], "oracle_fields": ["o_c13"],
        "rule": KERNEL_RULE + " || " + STREAM_RULE + "; the partitioning recovered from the real bytes by the Lean decoder is compared on COST with the model's search on the same residual",
        "trusted_base": ["Model/Rice.lean mirrors rice.rs (u32 arithmetic, saturation) — tied by the kernel stream on (order, parameters, reported bits) and by stream records on cost"],
        "assumptions": ["residual values inside (-2^31, 2^31), block length < 2^16", "optimality is claimed whenever the optimum is below the saturation value 2^28-1 (for an emitted residual this always holds: C13_emitted); at exactly 2^28-1 with a single partition the code can return a worse choice (C13_saturation_edge_counterexample, replayed on the real code as corpus case corpus-c13-edge) - such a residual is never emitted because it loses against verbatim"],
    },
    "C14": {
        "uses_gen": ["constants", "source"],
        "theorem_modules": ["FlacVerif.Theorems.C14", "FlacVerif.Theorems.C14Gen"],
        "streams": {"quick": [("kernel", ["--cases", 40]), ("stream", ["--cases", 250, "--max-samples", 5000])],
                    "thorough": [("kernel", ["--cases", 400]), ("stream", ["--cases", 1666, "--max-samples", 24000])],
                    "search": [("stream", ["--cases", 1200, "--max-samples", 9000])]},
        "diff_prefix": ["c14."], "oracle_fields": ["o_c14"], "class_of": stream_class,
        "rule": KERNEL_RULE + " || " + STREAM_RULE + "; every stream record is encoded a second time with the other delivery mode (integers <-> packed bytes) and the bytes compared",
        "trusted_base": ["Model/Source.lean mirrors arrayutils.rs deinterleave / le_bytes_to_i32s / i32s_to_le_bytes and source.rs FrameBuf fills — tied by the kernel stream (all 8 channel specialisations over stale buffers, all 4 byte widths)"],
        "assumptions": ["samples inside the declared width (otherwise the byte path wraps and the integer path does not; the encoder rejects such input: C17)"],
    },
})

PAR_RULE = ("par stream: corpus (the three confirmed failures of F8: read error, out-of-range sample, FLACENC_WORKERS=0) first, then random (config, PCM, plan) from one PRNG: "
            "0..24 blocks of 32..256 samples with/without a short last block, 1..3 channels, all widths, 14 signal families; worker count from config (1,2,3,5,8,core count), from "
            "FLACENC_WORKERS in {unset,'3','0','x','7' overridden by config}; fault plan in {none, read error at a random read index 0..N+1, out-of-range sample in a random block, both}; "
            "integer or packed-byte delivery; schedule perturbation intensity {0,10,40,80}% (yield / 50us / 500us sleeps after protocol events, seeded). Every run is made through the "
            "instrumented channels (events logged atomically with the channel operation) and its event log is REPLAYED through the Lean protocol model Par.step: each event must be an enabled "
            "transition with matching buffer id / frame number / byte length, the final state must be final with every thread exited, and the result kind must equal the model's and the "
            "single-thread run's. Direct oracles: watchdog (hang), catch_unwind, error kind vs single-thread, /proc/self/task before/after, helper-thread panic count, and for fault-free runs "
            "bytes(mt) = bytes(single-thread) = bytes(second mt run without instrumentation) = bytes(frame-by-frame assembly). distinct = (workers, env, fault kind, intensity, block count)")

PROPS.update({
    "C05": {
        "extra": c05_extra, "uses_gen": ["constants", "config", "par"],
        "theorem_modules": ["FlacVerif.Theorems.C05", "FlacVerif.Theorems.C06Gen", "FlacVerif.Theorems.C06GenCor"],
        "streams": {"quick": [("par", ["--cases", 150])], "thorough": [("par", ["--cases", 6000])], "search": [("par", ["--cases", 1500])]},
        "diff_prefix": ["c05."], "oracle_fields": ["o_c05"], "rule": PAR_RULE,
        "trusted_base": ["Model/Par.lean: hand model of the thread protocol of par.rs (atomic steps = channel operations and marked scheduling points), tied to the code by replaying every logged run",
                         "crossbeam-channel bounded FIFO semantics and Mutex exclusion (atomicity of the modelled steps); the OS scheduler is not modelled: the theorems quantify over all interleavings of the modelled steps",
                         "instrumented channels of cfg(flacenc_verif) (try_send/try_recv under the log lock) behave like the plain blocking operations; cross-checked by an uninstrumented second run per case",
                         "that the per-frame encoder is a function of (config, block, frame number) only is C10/C09 (functional correspondence), not part of the protocol proof"],
        "assumptions": ["source contract: read_samples fills the buffer with the samples it reports; a non-final read delivers a non-empty block (an empty data block is the hasher's stop token: C05_empty_block_hash_mismatch shows what a contract-violating source causes)"],
    },
    "C06": {
        "uses_gen": ["constants", "config", "par"],
        "theorem_modules": ["FlacVerif.Theorems.C06", "FlacVerif.Theorems.C06Gen", "FlacVerif.Theorems.C06GenCor"],
        "streams": {"quick": [("par", ["--cases", 150])], "thorough": [("par", ["--cases", 6000])], "search": [("par", ["--cases", 1500])]},
        "diff_prefix": ["c06."], "oracle_fields": ["o_c06"], "rule": PAR_RULE,
        "trusted_base": ["Model/Par.lean (as C05)", "that a model thread in state `exited` corresponds to an OS thread that is gone is observed (/proc/self/task), not proved",
                         "crossbeam-channel / Mutex / JoinHandle semantics"],
        "assumptions": ["workers do not panic inside the per-frame encoder (C07/C17: verified configuration, every argument error is returned as Err)", "non-empty data blocks (as C05)"],
    },
})

API_RULE = ("api stream: every public entry point (StreamInfo::new / Stream::new, FrameBuf::with_size, FrameBuf fill_interleaved / fill_le_bytes after a full block, "
            "Context::fill_le_bytes, encode_fixed_size_frame: frame number, sample range at 3 positions x 5 widths, channel mismatch; encode_with_fixed_block_size single- and multi-thread: "
            "block size, declared channels / width / rate of the source, out-of-range samples at 5 positions, byte delivery with a disagreeing width) on the grid {0, min-1, min, max, max+1, "
            "2^8+k, 2^16+k, 2^32+k, 2^63+k, usize::MAX-1, usize::MAX} per argument, others valid; calls that may block run under a 20 s watchdog; EXHAUSTIVE over the grid. "
            "The model (Model/Api.lean, Model/Verify.lean, Model/Source.lean) decides accept/reject for each call and must agree; the direct oracle demands an error for every "
            "argument outside the documented domain and forbids panic/hang. distinct = (entry point, outcome)")

PROPS.update({
    "C17": {
        "uses_gen": ["constants", "source", "config", "headers", "writer", "verify", "coding", "driver", "sink", "utf8"],
        "theorem_modules": ["FlacVerif.Theorems.C17", "FlacVerif.Theorems.C14Gen", "FlacVerif.Theorems.C09Gen", "FlacVerif.Theorems.C03GenErr"],
        "streams": {"quick": [("api", [])], "thorough": [("api", ["--thorough"])], "search": [("api", ["--thorough"])]},
        "profiles": {"quick": ["release", "dev"], "thorough": ["release", "dev"]},
        "diff_prefix": ["c17."], "oracle_fields": ["o_c17"], "rule": API_RULE,
        "trusted_base": ["Model/Api.lean, Model/Verify.lean (StreamInfo::new), Model/Source.lean (FrameBuf fills): decision mirrors of the argument checks, tied to the code on the whole grid in both cargo profiles"],
        "assumptions": ["sample rate 0 is accepted by the code and by the model (the property does not list it); the supported widths are 8/12/16/20/24"],
    },
    "C18": {
        "theorem_modules": ["FlacVerif.Theorems.C18", "FlacVerif.Theorems.C18Parse", "FlacVerif.Theorems.C18Gen"], "uses_gen": ["constants", "headers", "writer", "verify"],
        "streams": {"quick": [("comp", ["--cases", 150])], "thorough": [("comp", ["--cases", 4000])], "search": [("comp", ["--cases", 1500])]},
        "profiles": {"quick": ["release", "dev"], "thorough": ["release", "dev"]},
        "diff_prefix": ["c18.", "c08.count", "c08.len8", "c08.len64"], "oracle_fields": ["o_c18"], "rule": COMP_RULE,
        "trusted_base": ["Model/Verify.lean: decision mirrors of the public constructors and verify impls, tied to datatype.rs / verify.rs by Theorems/C18Gen.lean (the source text is parsed by translator part `verify` into Gen/Verify.lean, macros expanded from their macro_rules! definitions; equality with the hand model is proved for every argument value) and by the comp stream (accept/reject on the whole grid, both profiles)",
                         "translator part `verify`: accessor table WR_MODEL, VF_CTORS (Residual::from_parts, QuantizedParameters::from_parts), VF_PART, and the readings of std/heapless functions listed at the end of Gen/Verify.lean",
                         "parse-back of accepted components is decided by the real parser on every accepted case (the parser mirror and its round-trip theorems belong to C15)"],
        "assumptions": ["typed slice arguments (&[u8], &[u32], &[i16]) hold values of their element type; FrameOffset::Frame carries a u32"],
    },
})


# ------------------------------------------------------------------ C20: one model, four builds
FEATURE_SETS = ["", "par,serde,log", "par,serde,log,decode", "par,serde,log,decode,experimental"]


def c20_extra(run, tier, bins):
    """Translation validation of each build against the same model: the harness is built once per
    feature set, every build encodes the same corpus (same seed), every output goes through the Lean
    model checks, and the per-case digests must agree across builds."""
    import hashlib, os, re
    cases = 120 if tier == "quick" else 800
    maxs = 5000 if tier == "quick" else 24000
    digests = {}
    for fs in FEATURE_SETS:
        b, err = run.build_harness("release", features=fs)
        if err:
            run.proof_problems.append(err)
            continue
        run.programs += 1
        d = {}
        # the general corpus, and streams of more than 1024 / 2048 frames (frame numbers whose coded length
        # changes: the precomputed frames of `par` builds and the counted ones of serial builds must agree)
        for (tag, args) in [("", ["--cases", cases, "--max-samples", maxs]),
                            ("mf:", ["--cases", 2 if tier == "quick" else 12, "--max-samples", 36000 if tier == "quick" else 70000, "--focus", "manyframes-mt"])]:
            label = "stream@features[" + (fs or "none") + "]" + tag.rstrip(":")
            run.run_stream(b, "stream", args, label)
            rec = os.path.join(os.path.dirname(os.path.dirname(os.path.abspath(__file__))), ".cache", f"{run.pid}-{label}.rec")
            for line in open(rec):
                m = re.search(r"\bid=(\S+)", line)
                b2 = re.search(r"\bimpl_bytes=(\S+)", line)
                i2 = re.search(r"\bimpl=(\S+)", line)
                if m:
                    d[tag + m.group(1)] = (hashlib.md5(b2.group(1).encode()).hexdigest() if b2 else "none", i2.group(1) if i2 else "?", line)
        digests[fs] = d
    # call histories on one long-lived thread: the same sequence of calls must give the same results in
    # every build (without `par`, "multi-thread" encodes run on the calling thread and share its scratch
    # storage with everything that ran before; with `par` they run on fresh worker threads)
    hist = {}
    for fs in FEATURE_SETS:
        b, err = run.build_harness("release", features=fs)
        if err:
            continue
        label = "history@features[" + (fs or "none") + "]"
        run.run_stream(b, "history", ["--cases", 25 if tier == "quick" else 400], label)
        rec = os.path.join(os.path.dirname(os.path.dirname(os.path.abspath(__file__))), ".cache", f"{run.pid}-{label}.rec")
        d = {}
        for line in open(rec):
            m = re.search(r"\bid=(\S+)", line)
            c = re.search(r"\bcalls=(\S+)", line)
            r2 = re.search(r"\bres=(\S+)", line)
            if m and c and r2:
                calls = c.group(1).split(";")
                res = r2.group(1).split(";")
                d[m.group(1)] = [(cd, rs) for cd, rs in zip(calls, res) if not cd.startswith("parse:")]
        hist[fs] = d
    if FEATURE_SETS[1] in hist:
        for fs, d in hist.items():
            for rid, pairs in d.items():
                ref = hist[FEATURE_SETS[1]].get(rid)
                if ref is not None and ref != pairs:
                    bad = next((a for a, b2 in zip(pairs, ref) if a != b2), ("?", "?"))
                    run.oracle_fails.append(("features[" + (fs or "none") + "]", f"history id={rid} call={bad[0]}",
                                             f"call {bad[0]} of history {rid} gives different bytes than in the build with features [{FEATURE_SETS[1]}]"))
                    break
    ref_fs = FEATURE_SETS[1]
    if ref_fs in digests:
        for fs, d in digests.items():
            if fs == ref_fs:
                continue
            for rid, (h, kind, line) in d.items():
                r = digests[ref_fs].get(rid)
                if r is None or r[0] != h or r[1] != kind:
                    run.oracle_fails.append(("features[" + (fs or "none") + "]", line.strip()[:3000],
                                             f"bytes differ from the build with features [{ref_fs}] for case {rid}"))
                    break
        run.stats["feature_sets_compared"] = len(digests)
        run.stats["cases_per_feature_set"] = len(digests[ref_fs])


PROPS.update({
    "C20": {
        "level": "translation_validation",
        "uses_gen": ["constants", "config", "headers", "writer", "verify", "source", "coding", "driver"],
        "theorem_modules": ["FlacVerif.Theorems.C01", "FlacVerif.Theorems.C09", "FlacVerif.Theorems.C03Gen"],
        "streams": {"quick": [], "thorough": [], "search": []},
        "extra": c20_extra,
        "diff_prefix": ["c01.", "c02.", "c03.", "c04.", "c09.", "c10."], "oracle_fields": ["o_c01", "o_c09", "o_c10"], "class_of": stream_class,
        "rule": ("the harness is built four times - no features, default (log, par, serde), default+decode, default+decode+experimental - and each build encodes the same corpus "
                 "(STREAM_RULE generator, same seed, non-experimental configurations, the `multithread` field set explicitly because only its DEFAULT legitimately depends on the par feature); "
                 "every build's output is checked against the one feature-free Lean model (strict RFC decoder, book-keeping, functional replay on the oracle log) and the per-case digests of the "
                 "emitted bytes are compared across the four builds. " + STREAM_RULE),
        "trusted_base": STREAM_TRUSTED + ["cargo / rustc conditional compilation itself (cfg attributes) cannot be expressed in a Lean model: the property is decided by validating each build against the same model and comparing digests"],
        "assumptions": ["float results are compared across builds, not modelled"],
    },
})

PARSER_RULE = ("parser stream: 14+ small emitted streams covering every subframe type (constant, verbatim, fixed, LPC), 1..3 channels, left/side, right/side and mid/side frames, widths 8..24, "
               "several frames incl. a short last one; for each: EVERY single-bit flip of the whole stream, every 2..8-bit burst pattern (127 patterns) at every k-th bit position inside the "
               "frames (k = 16 quick, 1 thorough: exhaustive), truncation at every byte; plus random byte strings, random tails after a valid STREAMINFO, random frame headers after a valid sync "
               "code, random byte substitutions. The real parser + decoder run under catch_unwind; every mutant's outcome (error / accepted same audio / accepted different audio / parser panic / "
               "decoder panic) must equal the outcome of the Lean mirror Model/RepoParser.lean on the same bytes (debug-profile arithmetic for the dev build, wrapping for release). Direct oracle: "
               "no panic anywhere; no mutant that alters bits inside a frame is accepted with different audio. distinct = (family, width/channels, subframe kinds)")

def c07_extra(run, tier, bins):
    """'Every accepted configuration encodes every valid input without panicking': besides the probe corpus
    of the config stream, the dev-profile build (overflow checks, debug assertions) encodes the F14 witnesses
    and the `burst` focus of the stream generator (inputs fitted to the quantised predictor so that the
    prediction is as large as arithmetic allows) - any panic is a failing input for C07."""
    import os, re
    b = bins.get("dev")
    if not b:
        return
    old = getattr(run, "driver_name", "fvdriver")
    run.driver_name = "fvdriver"
    import subprocess
    root = os.path.dirname(os.path.dirname(os.path.abspath(__file__)))
    subprocess.run(["lake", "build", "fvdriver"], cwd=os.path.join(root, "lean"), stdout=subprocess.DEVNULL, stderr=subprocess.DEVNULL)
    try:
        for (label, args) in [("stream@dev-burst", ["--cases", 36 if tier == "quick" else 400, "--max-samples", 9000 if tier == "quick" else 36000, "--focus", "burst"])]:
            run.run_stream(b, "stream", args, label)
            rec = os.path.join(os.path.dirname(os.path.dirname(os.path.abspath(__file__))), ".cache", f"{run.pid}-{label}.rec")
            if os.path.exists(rec):
                for line in open(rec):
                    m = re.search(r"\bimpl=panic msg=(\S+)", line)
                    if m:
                        run.oracle_fails.append((label, line.rstrip("\n"), "o_c07=fail:panic_on_valid_input_with_verified_configuration:" + m.group(1)))
    finally:
        run.driver_name = old


def c10_extra(run, tier, bins):
    """The experimental estimators (direct MSE, IRLS-MAE) have per-thread state too: the history stream is
    run once more in a build with the `experimental` feature, with configurations that enable them."""
    b, err = run.build_harness("release", features="par,serde,log,decode,experimental")
    if err:
        run.proof_problems.append(err)
        return
    run.programs += 1
    run.run_stream(b, "history", ["--cases", 40 if tier == "quick" else 1500], "history@experimental", env={"FVH_EXPERIMENTAL": "1"})


PROPS.update({
    "C16": {
        "theorem_modules": ["FlacVerif.Theorems.C16crc", "FlacVerif.Theorems.C16", "FlacVerif.Theorems.C02Gen", "FlacVerif.Theorems.C02Hdr", "FlacVerif.Theorems.C15Gen", "FlacVerif.Theorems.C16Gen", "FlacVerif.Theorems.C16GenRel"], "uses_gen": ["constants", "tables", "headers", "writer", "verify", "decode", "parser"],
        "streams": {"quick": [("parser", ["--cases", 14, "--burst-stride", 40, "--random", 1500])],
                    "thorough": [("parser", ["--cases", 24, "--burst-stride", 4, "--random", 30000])],
                    "search": [("parser", ["--cases", 30, "--burst-stride", 4, "--random", 20000])]},
        "profiles": {"quick": ["release", "dev"], "thorough": ["release", "dev"]},
        "diff_prefix": ["c16."], "oracle_fields": ["o_c16"], "rule": PARSER_RULE,
        "trusted_base": ["Model/RepoParser.lean: hand mirror of parser.rs / decode.rs with explicit panic outcomes, tied to the code by agreeing on the outcome of every generated mutant in both cargo profiles",
                         "bitwise CRC model Model/Codes.lean `crcBits` vs the table-driven `crc` crate: tied by the same correspondence (every accepted/rejected mutant exercises both CRCs) and by C02's byte-exact re-serialisation"],
        "assumptions": ["'never accepts an altered frame' is proved for every alteration confined to a burst of <= 8 (header) / <= 16 (frame) bits that leaves the framing intact (C16_*_burst_rejected); alterations that change the framing (e.g. the block-size code) move the position of the check sums and are decided by the exhaustive enumeration, as the property's quantifier prescribes (a universal claim is impossible with 16 check bits)"],
    },
})

CONFIG_RULE = ("config stream: corpus (F2: partitions 0 / 1000, max_order 7; F13: Tukey without alpha; K1: block_size = usize::MAX) first; verification grid: each of the 17 configuration "
               "fields at 0, 1, min-1, min, min+1, max-1, max, max+1, 255, 256, 65535, 65536, 2^32+max, usize::MAX (alpha: +-0, 1, 1+-ulp, denormals, +-inf, NaNs, 1e-6, 0.40001; all 512 "
               "combinations of the 9 booleans in thorough), others default - EXHAUSTIVE per field - plus random pairs of fields at boundary values; every accepted grid point is encoded "
               "against a probe corpus of 12 signals (single- and multi-thread) under catch_unwind and decoded by claxon. TOML: random valid and boundary configurations, Value::try_from / "
               "to_string / from_str round trip, and documents with 0..12 randomly omitted key paths (fields, whole sections, enum tags, per-variant fields). The GENERATED Lean model "
               "(Gen/Config.lean, produced by tools/translate.py from config.rs on every run) must give the same verify verdict, the same serialised value tree and the same parsed "
               "configuration or error. distinct = (kind, field or removal class)")

PROPS.update({
    "C07": {
        "driver": "fvconfig", "uses_gen": ["constants", "config", "headers", "writer", "verify", "coding", "source", "decode", "lpc", "rice", "driver", "floatskel", "sink", "utf8"], "extra": c07_extra,
        "theorem_modules": ["FlacVerif.Theorems.C07", "FlacVerif.Theorems.C07Total", "FlacVerif.Theorems.C09Gen", "FlacVerif.Theorems.C01Gen", "FlacVerif.Theorems.C13Gen", "FlacVerif.Theorems.C03GenErr", "FlacVerif.Theorems.C07Gen", "FlacVerif.Theorems.C13GenProp"],
        "streams": {"quick": [("config", ["--cases", 150])], "thorough": [("config", ["--cases", 800, "--thorough"])], "search": [("config", ["--cases", 800, "--thorough"])]},
        "profiles": {"quick": ["release", "dev"], "thorough": ["release", "dev"]},
        "diff_prefix": ["c07."], "oracle_fields": ["o_c07"], "rule": CONFIG_RULE,
        "trusted_base": ["tools/translate.py (Rust-subset -> Lean translator, fails closed) — validated on every run by comparing the generated verify with the real into_verified on the whole grid",
                         "InRange in Theorems/C07.lean is written by hand from the property statement (literal numbers), not from the code",
                         "panic sites inside the float code (autocorrelation / Levinson asserts) are outside the model: covered by the probe-corpus enumeration only"],
        "assumptions": ["alpha is a genuine f32 bit pattern (< 2^32)"],
    },
    "C19": {
        "driver": "fvconfig", "uses_gen": ["constants", "config"],
        "streams": {"quick": [("config", ["--cases", 150])], "thorough": [("config", ["--cases", 800, "--thorough"])], "search": [("config", ["--cases", 800, "--thorough"])]},
        "diff_prefix": ["c19."], "oracle_fields": ["o_c19"], "rule": CONFIG_RULE,
        "trusted_base": ["tools/translate.py: struct shapes, serde attributes (container default, tag, per-field default fns) and Default impls are read from config.rs on every run",
                         "the toml 0.5 / serde text layer (text <-> value tree) is MODELLED, not verified: the model starts at serde's data model; the text layer is exercised by the direct round-trip oracle"],
        "assumptions": ["workers is None or non-zero (Option<NonZeroUsize>)", "TOML integers are non-negative and below 2^63 (see known finding K1)"],
    },
})

HISTORY_RULE = ("history stream: corpus (F7: Tukey alpha 0.0, 1e-6, 0.4, 0.40001 on one thread) first; then random histories of 6..35 calls on ONE long-lived thread — stream-level encodes "
                "(single-thread, frame-by-frame, multi-thread W=2,3), parse + re-serialise + decode, and the kernels that own thread-local scratch (Rice parameter search, fixed-predictor errors, "
                "quantised-LPC errors, encode_subframe) — with block sizes jumping between 32 and 4096, 1/2/3/8 channels, all widths, and window parameters from {0, 1e-6, denormal, 0.4, "
                "0.4+ulp, 0.40001, 0.4+2^-17, 1-ulp, 1, 0.5}; every call's result is compared with the same call made alone on a fresh thread; the window-cache fingerprint of 210 alpha "
                "bit patterns is compared with the model's and checked for collisions. distinct = sequence of call kinds")

PROPS.update({
    "C10": {
        "extra": c10_extra, "uses_gen": ["constants", "config", "headers", "writer", "verify", "coding", "source", "decode", "lpc", "rice"],
        "theorem_modules": ["FlacVerif.Theorems.C10", "FlacVerif.Theorems.C01Gen", "FlacVerif.Theorems.C13Gen", "FlacVerif.Theorems.C10Gen"],
        "streams": {"quick": [("history", ["--cases", 60]), ("kernel", ["--cases", 120])],
                    "thorough": [("history", ["--cases", 3000]), ("kernel", ["--cases", 1500])],
                    "search": [("history", ["--cases", 600])]},
        "diff_prefix": ["c10.", "c13.cost", "c01.diffs", "c01.lpcerr"], "oracle_fields": ["o_c10"], "rule": HISTORY_RULE + " || " + KERNEL_RULE,
        "trusted_base": ["Model/Scratch.lean: hand model of every reusable!/reuse! site with the STALE buffer as an explicit argument (Vec::resize keeps the old prefix, SimdVec lanes past len, FrameBuf::resize keeps filled_size), tied to the code through the pure models it is proved equal to (diffs, computeError, search: kernel stream, called on one thread with varying sizes, i.e. with genuinely stale buffers) and through the window fingerprint comparison",
                         "float window VALUES and the LPC estimator's float buffers are not modelled: only which (size, window) a cache entry was computed for, and that the cast/windowed/correlation buffers are fully overwritten"],
        "assumptions": ["stable (fakesimd) build; the simd-nightly path of weighted_delay_prod_sum_impl splits by heap alignment (read only, noted in DESIGN.md)"],
    },
    "C15": {
        "theorem_modules": ["FlacVerif.Theorems.C15", "FlacVerif.Theorems.C02Hdr", "FlacVerif.Theorems.C15Gen", "FlacVerif.Theorems.C16Gen", "FlacVerif.Theorems.C16GenRel"], "uses_gen": ["constants", "tables", "headers", "writer", "verify", "decode", "parser"],
        "streams": {"quick": [("parser", ["--cases", 14, "--burst-stride", 64, "--random", 200]), ("stream", ["--cases", 150, "--max-samples", 5000]), ("comp", ["--cases", 100])],
                    "thorough": [("parser", ["--cases", 40, "--burst-stride", 16, "--random", 2000]), ("stream", ["--cases", 1333, "--max-samples", 24000]), ("comp", ["--cases", 3000])],
                    "search": [("stream", ["--cases", 1000, "--max-samples", 9000])]},
        "diff_prefix": ["c15."], "oracle_fields": ["o_c15"], "class_of": default_class,
        "rule": PARSER_RULE + " || " + STREAM_RULE + "; every emitted stream is parsed by the crate's own parser (consumes all input, verifies, re-serialises to the same bytes, decodes to the input) and by the Lean mirror, whose tree must equal the one the strict RFC decoder recovered || " + COMP_RULE,
        "trusted_base": ["Model/RepoParser.lean: hand mirror of parser.rs/decode.rs (nom combinator semantics incl. alt order, bits() byte re-alignment, many_till), tied to the code mutant-by-mutant (C16) and on every emitted stream",
                         "Model/Component.lean writer model (bits), tied byte-exactly to bitrepr.rs on every stream record"],
        "assumptions": ["LPC order <= 24, widths <= 25 bits, quotients < 2^32, block size < 2^32 (limits of the repository's parser, all satisfied by the encoder's output)", "fixed-blocking headers as the encoder writes them (frame number < 2^32, start sample 0)"],
    },
})
