"""Per-property configuration of ./check (streams, budgets, trusted base, rules)."""
import re

COMMON_TRUSTED = [
    "Lean 4.33.0 kernel (thorough tier: re-checked with leanchecker)",
    "axioms: only those listed per theorem under coverage.axioms (subset of propext, Classical.choice, Quot.sound); no sorry/admit/native_decide/bv_decide (source scan + #print axioms)",
    "correspondence harness /verif/harness (Rust, links the crate built from /repo's working tree with --cfg flacenc_verif) and fvdriver's line-protocol glue",
    "rustc/std integer semantics as modelled (DESIGN 1.1), little-endian target",
]


def default_class(line):
    """Class of a record for distinct_nontrivial: the record kind plus its `cls=` field when the
    harness provides one; records without a class field count once per distinct op/shape string."""
    m = re.search(r"\bcls=(\S+)", line)
    if m:
        return m.group(1)
    return None


def sink_class(line):
    # non-trivial = at least one op that writes across a storage-word boundary or has n in {0,w};
    # distinct = the multiset of (op kind, width, n mod 8 class) of the sequence
    m = re.search(r"\bops=(\S+)", line)
    k = re.search(r"\bkind=(\S+)", line)
    if not m:
        return None
    ops = m.group(1).split(",")
    sig = []
    for o in ops[:6]:
        parts = o[1:].split(":")
        sig.append(o[0] + (parts[0] if o[0] in "LMW" else "") + (":" + parts[-1] if o[0] in "LMT" else ""))
    return (k.group(1) if k else "") + "|" + ",".join(sig) + ("+" if len(ops) > 6 else "")


def stream_class(line):
    m = re.search(r"\bcls=(\S+)", line)
    c = re.search(r"\bcfg=(\S+)", line)
    l = re.search(r"\blen=(\d+)", line)
    if not m:
        return None
    # distinct = (family|mode|src|width/channels, block size, length); non-trivial = at least one sample
    if l and int(l.group(1)) == 0 and "empty" not in line[:60]:
        return None
    bs = re.search(r"bs:(\d+)", c.group(1)).group(1) if c else ""
    return m.group(1) + "|" + bs + "|" + (l.group(1) if l else "")


STREAM_RULE = ("stream stream: corpus (witnesses of F1/F3/F4/F9) first, then random (config, PCM) pairs from one PRNG: "
               "14 signal families (silence, DC, full-scale, alternating, impulses, sine+noise at every amplitude, white, heavy-tailed, "
               "r=-l, r=l, loud/silent partitions, ramps, near-constant), 8/12/16/20/24 bit, 1..8 channels, rates at every code-class boundary, "
               "block sizes incl. every explicit-code class, lengths 0/1/15..17/bs-1/bs/bs+1/multi-frame; entry points: single-thread, "
               "multi-thread W=1..3, frame-by-frame; sources: MemSource, byte fill, no len_hint. Real bytes are decoded by the Lean RFC decoder; "
               "distinct = (family, mode, source, width/channels, block size, length); empty inputs count once")

STREAM_TRUSTED = ["hand-written Lean decoder Model/Rfc.lean (from RFC 9639) and component writer Model/Component.lean, tied to the code by re-serialising every decoded real stream byte-exactly",
                  "executable MD5 in Lean (not reasoned about; checked against the md-5 crate on every stream)",
                  "claxon 0.4.3 as second, independent decoder in the direct oracle"]

PROPS = {
    "C01": {
        "streams": {"quick": [("stream", ["--cases", 400, "--max-samples", 6000])],
                    "thorough": [("stream", ["--cases", 6000, "--max-samples", 40000])],
                    "search": [("stream", ["--cases", 1500, "--max-samples", 12000])]},
        "diff_prefix": ["c01."], "oracle_fields": ["o_c01"], "class_of": stream_class, "rule": STREAM_RULE,
        "trusted_base": STREAM_TRUSTED,
        "assumptions": ["float estimator output abstracted: theorems quantify over all coefficients/shifts/orders", "source contract: read_samples delivers min(block_size, remaining) samples"],
    },
    "C02": {
        "streams": {"quick": [("stream", ["--cases", 400, "--max-samples", 6000])],
                    "thorough": [("stream", ["--cases", 6000, "--max-samples", 40000])],
                    "search": [("stream", ["--cases", 1500, "--max-samples", 12000])]},
        "diff_prefix": ["c02."], "oracle_fields": ["o_c01"], "class_of": stream_class, "rule": STREAM_RULE,
        "trusted_base": STREAM_TRUSTED, "assumptions": [],
    },
    "C03": {
        "streams": {"quick": [("stream", ["--cases", 400, "--max-samples", 6000])],
                    "thorough": [("stream", ["--cases", 6000, "--max-samples", 40000])],
                    "search": [("stream", ["--cases", 1500, "--max-samples", 12000])]},
        "diff_prefix": ["c03."], "oracle_fields": ["o_c03"], "class_of": stream_class, "rule": STREAM_RULE,
        "trusted_base": STREAM_TRUSTED, "assumptions": ["MD5 compression function trusted (executable, cross-checked)"],
    },
    "C04": {
        "streams": {"quick": [("stream", ["--cases", 300, "--max-samples", 6000]), ("stream", ["--cases", 300, "--max-samples", 1200, "--focus", "residues"])],
                    "thorough": [("stream", ["--cases", 4000, "--max-samples", 40000]), ("stream", ["--cases", 3000, "--max-samples", 2000, "--focus", "residues"])],
                    "search": [("stream", ["--cases", 1500, "--max-samples", 2000, "--focus", "residues"])]},
        "diff_prefix": ["c04."], "oracle_fields": ["o_c04"], "class_of": stream_class,
        "rule": STREAM_RULE + "; plus a residue sweep: block sizes 32/33/64 with every input length 0..2bs (every residue of len mod bs)",
        "trusted_base": STREAM_TRUSTED, "assumptions": [],
    },
    "C09": {
        "streams": {"quick": [("stream", ["--cases", 250, "--max-samples", 6000]), ("stream", ["--cases", 150, "--max-samples", 9000, "--focus", "loud"])],
                    "thorough": [("stream", ["--cases", 4000, "--max-samples", 40000]), ("stream", ["--cases", 3000, "--max-samples", 40000, "--focus", "loud"])],
                    "search": [("stream", ["--cases", 1500, "--max-samples", 9000, "--focus", "loud"])]},
        "diff_prefix": ["c09."], "oracle_fields": ["o_c09"], "class_of": stream_class,
        "rule": STREAM_RULE + "; plus a 'loud' focus (20/24-bit full-scale, alternating, heavy-tailed, loud/silent partition mixes, r=-l stereo; max_parameter in {0,1,2,8,14}). For every single-thread record the encoder's decision logic is REPLAYED in Lean (Model/Encode.lean: encodeFrame on the oracle log of hook 3) and must reproduce every frame byte for byte (field c09.functional); the direct oracle compares every frame's byte length with header + channels*(8+n*bps) bits + CRC",
        "trusted_base": STREAM_TRUSTED + ["functional encoder model Model/Encode.lean mirrors coding.rs:204-560 (tied byte-exactly on every single-thread record through the oracle log)"],
        "assumptions": ["float-derived values (quantised LPC parameters, entropy estimates) are an oracle: the theorems hold for every oracle log"],
    },
    "C11": {
        "streams": {
            "quick": [("sink", ["--cases", 3000, "--exhaustive"])],
            "thorough": [("sink", ["--cases", 60000, "--exhaustive"])],
            "search": [("sink", ["--cases", 20000, "--exhaustive"])],
        },
        "profiles": {"quick": ["release", "dev"], "thorough": ["release", "dev"]},
        "class_of": sink_class,
        "rule": "sink stream: corpus (F6 witnesses) + exhaustive sweep offset 0..63 x width {8,16,32,64} x n 0..=width x {lsbs,msbs,twoc,write,zeros} x {MemSink<u8>,MemSink<u64>,user sink} + random op sequences (length 1..200) from one PRNG; model and implementation compared on len, raw storage, exported bytes, ideal bits; distinct = (sink kind, first six ops' kind/width/n) signatures",
        "trusted_base": ["hand-written model FlacVerif/Model/Sink.lean mirrors src/bitsink.rs (tied by the exhaustive + random sink stream in both cargo profiles)"],
        "assumptions": ["operand values fit their declared width (the Rust type system enforces it)", "dest slice of write_to_byte_slice is exactly ceil(len/8) bytes"],
    },
}
