"""Per-property configuration of ./check (streams, budgets, trusted base, rules)."""
import re

COMMON_TRUSTED = [
    "Lean 4.33.0 kernel (thorough tier: re-checked with leanchecker)",
    "axioms: only those listed per theorem under coverage.axioms (subset of propext, Classical.choice, Quot.sound); no sorry/admit/native_decide/bv_decide (source scan + #print axioms)",
    "correspondence harness /verif/harness (Rust, links the crate built from /repo's working tree with --cfg flacenc_verif) and fvdriver's line-protocol glue",
    "rustc/std integer semantics as modelled (DESIGN 1.1), little-endian target",
]


def default_class(line):
    """Class of a record for distinct_nontrivial: the record kind plus its `cls=` field when the
    harness provides one; records without a class field count once per distinct op/shape string."""
    m = re.search(r"\bcls=(\S+)", line)
    if m:
        return m.group(1)
    return None


def sink_class(line):
    # non-trivial = at least one op that writes across a storage-word boundary or has n in {0,w};
    # distinct = the multiset of (op kind, width, n mod 8 class) of the sequence
    m = re.search(r"\bops=(\S+)", line)
    k = re.search(r"\bkind=(\S+)", line)
    if not m:
        return None
    ops = m.group(1).split(",")
    sig = []
    for o in ops[:6]:
        parts = o[1:].split(":")
        sig.append(o[0] + (parts[0] if o[0] in "LMW" else "") + (":" + parts[-1] if o[0] in "LMT" else ""))
    return (k.group(1) if k else "") + "|" + ",".join(sig) + ("+" if len(ops) > 6 else "")


PROPS = {
    "C11": {
        "streams": {
            "quick": [("sink", ["--cases", 3000, "--exhaustive"])],
            "thorough": [("sink", ["--cases", 60000, "--exhaustive"])],
            "search": [("sink", ["--cases", 20000, "--exhaustive"])],
        },
        "profiles": {"quick": ["release", "dev"], "thorough": ["release", "dev"]},
        "class_of": sink_class,
        "rule": "sink stream: corpus (F6 witnesses) + exhaustive sweep offset 0..63 x width {8,16,32,64} x n 0..=width x {lsbs,msbs,twoc,write,zeros} x {MemSink<u8>,MemSink<u64>,user sink} + random op sequences (length 1..200) from one PRNG; model and implementation compared on len, raw storage, exported bytes, ideal bits; distinct = (sink kind, first six ops' kind/width/n) signatures",
        "trusted_base": ["hand-written model FlacVerif/Model/Sink.lean mirrors src/bitsink.rs (tied by the exhaustive + random sink stream in both cargo profiles)"],
        "assumptions": ["operand values fit their declared width (the Rust type system enforces it)", "dest slice of write_to_byte_slice is exactly ceil(len/8) bytes"],
    },
}
