"""Manifest prose per property."""
HOOK_COMMITS = ["b5085ab"]
NOTES = ("Technique family: machine-checked proof in Lean 4. Every check = (P) lake build of the property's theorem module + "
         "#print axioms audit + forbidden-construct scan, and (T) the model/implementation correspondence streams, rebuilt from "
         "/repo's working tree on every run. A broken proof or correspondence is reported as a violation; the direct oracles "
         "in the harness supply the failing input when one exists. See DESIGN.md.")
NOT_CLAIMED = {}
TEXT = {
    "C01": {
        "level_text": "Proof (partial at the stream level). Proved for all inputs and all predictors: sign folding inverse and exactness of the u32 computation, Rice split/join, LPC restore∘residual = id for any coefficients/shift/order, fixed predictors 0..4, mid/side / left/side / right/side inverses. The assembly of these laws into bytes is checked, not proved: every generated stream's real bytes are decoded by the Lean RFC decoder (the same definitions the theorems are about) and by claxon and compared with the input.",
        "level_note": "Float estimator abstracted (theorems hold for every QParams). Bit-level parsing of whole frames/streams is not yet a theorem: Legal-membership of the implementation's output is sampled (DESIGN 8).",
        "technique": "Lean 4 inverse-law theorems + strict Lean RFC decoder run on the real bytes (correspondence) + claxon direct oracle",
        "design_ref": "DESIGN.md section 3 C01",
    },
    "C02": {
        "level_text": "Proof for the three finite header code spaces (C02_blocksize_all for every block length 1..65535, C02_samplerate_all for every rate, C02_samplesize_all, C02_channel_code: never a reserved code, extra field fits, RFC table decodes back) as ∀-theorems relating the mirrored coders to the RFC decoder's tables; every other clause of well-formedness is decided by running the strict Lean RFC decoder (which names the first violated clause) on the real bytes of every generated stream.",
        "level_note": "Stream-level `analyze (emit ..) = ok` is not yet a theorem; the clause list is enforced by the executable decoder on sampled outputs.",
        "technique": "Lean 4 theorems over code spaces + strict RFC 9639 decoder in Lean on real bytes",
        "design_ref": "DESIGN.md section 3 C02",
    },
    "C03": {
        "level_text": "Proof of which bytes are hashed and which count is stored: C03_split_invariant (any split of the input into blocks gives the same hashed byte sequence = little-endian ⌈bps/8⌉-byte samples in order, and the same sample count), C03_fill_bytes_eq (integer and packed-byte delivery advance the context identically), C03_le_bytes_prefix (sign extension), C03_empty. The 34 STREAMINFO bytes of every generated stream are compared with the model's `assembleInfo` serialisation and the MD5 recomputed in Lean.",
        "level_note": "MD5's compression function is executable-only in Lean (cross-checked against md-5 on every case). Asynchronous hashing order in par mode is covered by the protocol model of C05/C06 once claimed; here by comparison under W=1..3.",
        "technique": "Lean 4 induction over the block list + byte-exact STREAMINFO correspondence",
        "design_ref": "DESIGN.md section 3 C03",
    },
    "C04": {
        "level_text": "Proof. C04_bounds: for every non-empty frame list (unbounded), the assembled STREAMINFO has min=max block size = requested block size and frame-size fields that are attained by a frame and bound every frame (= min/max byte length); C04_empty for the empty stream. The model's book-keeping (`assembleInfo`, mirroring add_frame / set_block_sizes with their integer casts) is tied to the code on every generated stream, including a sweep over every residue of len mod bs.",
        "level_note": "The theorem is about the mirrored book-keeping; that frame.count_bits()/8 is the written byte length is C08 (compared here: byte lengths come from the real bytes).",
        "technique": "Lean 4 fold invariant (induction over add_frame) + byte-exact correspondence",
        "design_ref": "DESIGN.md section 3 C04",
    },
    "C09": {
        "level_text": "Proof. C09_subframe: for every oracle log (any LPC coefficients, any entropy estimates, however wrong), every block and every configuration, the subframe the mirrored `encode_subframe` returns reports at most 8+n*bps bits (a candidate displaces Verbatim only after its real count_bits was compared). C09_frame: for every channel count and stereo configuration the subframes of a frame total at most channels*(8+n*bps) bits (a side-channel recombination is taken only if strictly cheaper than left+right) - no slack needed. The mirrored decision logic (Model/Encode.lean) is tied to coding.rs by replaying it on the logged oracle values of every single-thread record and comparing every frame byte for byte.",
        "level_note": "Reported size = written size is C08. The float estimator is an oracle (theorems quantify over all logs). Trusted: the hook that logs the oracle values (cfg flacenc_verif).",
        "technique": "Lean 4 theorem over a functional model of the encoder's decision logic, universally quantified over the float oracle + byte-exact functional correspondence",
        "design_ref": "DESIGN.md section 3 C09, section 1.1",
    },
    "C11": {
        "level_text": "Proof. Theorems C11_word_refines / C11_byte_refines (every valid op from every invariant state, i.e. every bit offset: no panic, invariant kept, abstract bits = old ++ ideal), C11_word_run / C11_byte_run (any op sequence, unbounded), C11_sinks_agree, C11_defaults (provided trait methods expand to the same ideal bits) about a statement-by-statement model of both MemSink implementations over BitVec; model tied to src/bitsink.rs by an exhaustive (offset x width x n x op x sink) sweep plus random op sequences in both cargo profiles.",
        "level_note": "Trusted: Lean kernel; the hand-written model's fidelity is checked, not assumed (exhaustive + random differential on len, raw storage, exported bytes). Not proved in Lean: byte export (as_slice/write_to_byte_slice) = packBytes abs (compared only); little-endian target assumed for to_ne_bytes.",
        "technique": "Lean 4 refinement proof (pointwise BitVec.getMsbD invariants) + exhaustive/differential model-code correspondence",
        "design_ref": "DESIGN.md section 3 C11, section 2 M1",
    },
}
