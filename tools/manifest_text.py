"""Manifest prose per property."""
HOOK_COMMITS = ["b5085ab"]
NOTES = ("Technique family: machine-checked proof in Lean 4. Every check = (P) lake build of the property's theorem module + "
         "#print axioms audit + forbidden-construct scan, and (T) the model/implementation correspondence streams, rebuilt from "
         "/repo's working tree on every run. A broken proof or correspondence is reported as a violation; the direct oracles "
         "in the harness supply the failing input when one exists. See DESIGN.md.")
NOT_CLAIMED = {}
TEXT = {
    "C11": {
        "level_text": "Proof. Theorems C11_word_refines / C11_byte_refines (every valid op from every invariant state, i.e. every bit offset: no panic, invariant kept, abstract bits = old ++ ideal), C11_word_run / C11_byte_run (any op sequence, unbounded), C11_sinks_agree, C11_defaults (provided trait methods expand to the same ideal bits) about a statement-by-statement model of both MemSink implementations over BitVec; model tied to src/bitsink.rs by an exhaustive (offset x width x n x op x sink) sweep plus random op sequences in both cargo profiles.",
        "level_note": "Trusted: Lean kernel; the hand-written model's fidelity is checked, not assumed (exhaustive + random differential on len, raw storage, exported bytes). Not proved in Lean: byte export (as_slice/write_to_byte_slice) = packBytes abs (compared only); little-endian target assumed for to_ne_bytes.",
        "technique": "Lean 4 refinement proof (pointwise BitVec.getMsbD invariants) + exhaustive/differential model-code correspondence",
        "design_ref": "DESIGN.md section 3 C11, section 2 M1",
    },
}
