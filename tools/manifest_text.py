"""Manifest prose per property."""
HOOK_COMMITS = ["b5085ab", "847d5d3", "8b8737f"]
NOTES = ("Technique family: machine-checked proof in Lean 4. Every check = (P) lake build of the property's theorem module + "
         "#print axioms audit + forbidden-construct scan, and (T) the model/implementation correspondence streams, rebuilt from "
         "/repo's working tree on every run. A broken proof or correspondence is reported as a violation; the direct oracles "
         "in the harness supply the failing input when one exists. See DESIGN.md.")
NOT_CLAIMED = {}
TEXT = {
    "C01": {
        "level_text": "Proof (partial at the stream level). Proved for all inputs and all predictors: sign folding inverse and exactness of the u32 computation, Rice split/join, LPC restore∘residual = id for any coefficients/shift/order, fixed predictors 0..4, mid/side / left/side / right/side inverses. The assembly of these laws into bytes is checked, not proved: every generated stream's real bytes are decoded by the Lean RFC decoder (the same definitions the theorems are about) and by claxon and compared with the input.",
        "level_note": "Float estimator abstracted (theorems hold for every QParams). Bit-level parsing of whole frames/streams is not yet a theorem: Legal-membership of the implementation's output is sampled (DESIGN 8).",
        "technique": "Lean 4 inverse-law theorems + strict Lean RFC decoder run on the real bytes (correspondence) + claxon direct oracle",
        "design_ref": "DESIGN.md section 3 C01",
    },
    "C02": {
        "level_text": "Proof for the three finite header code spaces (C02_blocksize_all for every block length 1..65535, C02_samplerate_all for every rate, C02_samplesize_all, C02_channel_code: never a reserved code, extra field fits, RFC table decodes back) as ∀-theorems relating the mirrored coders to the RFC decoder's tables; every other clause of well-formedness is decided by running the strict Lean RFC decoder (which names the first violated clause) on the real bytes of every generated stream.",
        "level_note": "Stream-level `analyze (emit ..) = ok` is not yet a theorem; the clause list is enforced by the executable decoder on sampled outputs.",
        "technique": "Lean 4 theorems over code spaces + strict RFC 9639 decoder in Lean on real bytes",
        "design_ref": "DESIGN.md section 3 C02",
    },
    "C03": {
        "level_text": "Proof of which bytes are hashed and which count is stored: C03_split_invariant (any split of the input into blocks gives the same hashed byte sequence = little-endian ⌈bps/8⌉-byte samples in order, and the same sample count), C03_fill_bytes_eq (integer and packed-byte delivery advance the context identically), C03_le_bytes_prefix (sign extension), C03_empty. The 34 STREAMINFO bytes of every generated stream are compared with the model's `assembleInfo` serialisation and the MD5 recomputed in Lean.",
        "level_note": "MD5's compression function is executable-only in Lean (cross-checked against md-5 on every case). Asynchronous hashing order in par mode is covered by the protocol model of C05/C06 once claimed; here by comparison under W=1..3.",
        "technique": "Lean 4 induction over the block list + byte-exact STREAMINFO correspondence",
        "design_ref": "DESIGN.md section 3 C03",
    },
    "C04": {
        "level_text": "Proof. C04_bounds: for every non-empty frame list (unbounded), the assembled STREAMINFO has min=max block size = requested block size and frame-size fields that are attained by a frame and bound every frame (= min/max byte length); C04_empty for the empty stream. The model's book-keeping (`assembleInfo`, mirroring add_frame / set_block_sizes with their integer casts) is tied to the code on every generated stream, including a sweep over every residue of len mod bs.",
        "level_note": "The theorem is about the mirrored book-keeping; that frame.count_bits()/8 is the written byte length is C08 (compared here: byte lengths come from the real bytes).",
        "technique": "Lean 4 fold invariant (induction over add_frame) + byte-exact correspondence",
        "design_ref": "DESIGN.md section 3 C04",
    },
    "C09": {
        "level_text": "Proof. C09_subframe: for every oracle log (any LPC coefficients, any entropy estimates, however wrong), every block and every configuration, the subframe the mirrored `encode_subframe` returns reports at most 8+n*bps bits (a candidate displaces Verbatim only after its real count_bits was compared). C09_frame: for every channel count and stereo configuration the subframes of a frame total at most channels*(8+n*bps) bits (a side-channel recombination is taken only if strictly cheaper than left+right) - no slack needed. The mirrored decision logic (Model/Encode.lean) is tied to coding.rs by replaying it on the logged oracle values of every single-thread record and comparing every frame byte for byte.",
        "level_note": "Reported size = written size is C08. The float estimator is an oracle (theorems quantify over all logs). Trusted: the hook that logs the oracle values (cfg flacenc_verif).",
        "technique": "Lean 4 theorem over a functional model of the encoder's decision logic, universally quantified over the float oracle + byte-exact functional correspondence",
        "design_ref": "DESIGN.md section 3 C09, section 1.1",
    },
    "C11": {
        "level_text": "Proof. Theorems C11_word_refines / C11_byte_refines (every valid op from every invariant state, i.e. every bit offset: no panic, invariant kept, abstract bits = old ++ ideal), C11_word_run / C11_byte_run (any op sequence, unbounded), C11_sinks_agree, C11_defaults (provided trait methods expand to the same ideal bits) about a statement-by-statement model of both MemSink implementations over BitVec; model tied to src/bitsink.rs by an exhaustive (offset x width x n x op x sink) sweep plus random op sequences in both cargo profiles.",
        "level_note": "Trusted: Lean kernel; the hand-written model's fidelity is checked, not assumed (exhaustive + random differential on len, raw storage, exported bytes). Not proved in Lean: byte export (as_slice/write_to_byte_slice) = packBytes abs (compared only); little-endian target assumed for to_ne_bytes.",
        "technique": "Lean 4 refinement proof (pointwise BitVec.getMsbD invariants) + exhaustive/differential model-code correspondence",
        "design_ref": "DESIGN.md section 3 C11, section 2 M1",
    },
    "C08": {
        "level_text": "Proof. C08_residual / C08_subframe / C08_header / C08_frame (incl. 8 | length) / C08_streaminfo / C08_stream: for every well-formed component (unbounded sizes) the reported count equals the length of the written bit string; C08_utf8 for every number < 2^36; necessity examples show each well-formedness clause used is needed. C08_through_sinks_{residual,subframe,frame,stream}: composed with the sink refinement of C11, both in-memory sinks end with exactly `count` bits holding exactly `bits`. Precomputed frames: Frame.opsPrecomputed writes the same bytes (C12_frame_ops_precomputed). Model tied to bitrepr.rs by the comp stream and by re-serialising every decoded real stream.",
        "level_note": "Well-formedness is what the constructors/verify establish (C18_*_sound) and what the encoder produces (checked on every stream record).",
        "technique": "Lean 4 theorems (structural induction over the component tree) + differential correspondence on count/length/bytes/operation list",
        "design_ref": "DESIGN.md section 3 C08",
    },
    "C12": {
        "level_text": "Proof. The operation sequence every write issues (Model/Ops.lean) is proved to denote exactly the component's bit string (C12_residual_ops, _subframe_ops, _header_ops, _frame_ops, _frame_ops_precomputed, _streaminfo_ops, _stream_ops) and to consist of valid operations only; C12_failing_sink: for every k, a sink failing on its k-th call makes write return the sink error with exactly the first k operations accepted, whose ideal bits are a prefix of the correct bitstream (C12_subframe, C12_frame, C12_stream instances). The operation list is tied to the code by comparing it with what a recording sink receives; the absence of unwrap/panic on the error path is decided by enumerating every k on the real code (all subframe types, headers, whole streams with and without precomputed frames).",
        "level_note": "The model has no panic outcome for write: that part of the property is decided by the enumeration on the real code, in both cargo profiles.",
        "technique": "Lean 4 theorems over the operation-list model + fail-at-every-k enumeration against the real code",
        "design_ref": "DESIGN.md section 3 C12",
    },
    "C13": {
        "level_text": "Proof. C13_optimal: for every residual (values in (-2^31,2^31), length < 2^16), warm-up and maximum parameter <= 14, the mirrored search (u32 arithmetic, chunked/saturating cost tables, merge, packed minimiser) returns a choice inside the search space and no choice of the space is cheaper, whenever the optimum is below the saturation value 2^28-1; the reported code_bits is then the true cost. C13_emitted: the same without side condition for any residual whose chosen cost is below 2^28-1 (every emitted residual, by C09). C13_total: the search never hits a panic site. C13_optimal_edge / C13_saturation_edge_counterexample delimit the one case where the literal threshold 'below 2^28' fails (optimum exactly 2^28-1 with a single partition), replayed on the real code.",
        "level_note": "The property text says 'below 2^28'; the theorem needs 'below 2^28-1' (strictly below the saturation value). The gap is a single value, unreachable for emitted residuals (they cost less than verbatim < 2^20 bits); documented in DESIGN.md section 4 as an observation, not a defect.",
        "technique": "Lean 4 proof of the table invariant (saturated true cost) through from_errors/merge/minimizer and of the order loop + differential correspondence (exact mirror and cost) + brute-force oracle",
        "design_ref": "DESIGN.md section 3 C13",
    },
    "C14": {
        "level_text": "Proof. C14_le_roundtrip(_list): little-endian packing then sign-extending unpacking is the identity for every k in 1..4 and every value inside k bytes; C14_fill: filling the frame buffer from packed bytes equals filling it from integers, including which inputs are rejected; C14_channel_slice / C14_stale_independent: what the encoder reads from the buffer is the de-interleaved input and does not depend on the buffer's previous contents (full block followed by a shorter one), for every channel count; C14_context: the MD5/sample-count context advances identically (also the multi-thread context, which converts integers to bytes first); C14_fill_accepts: the shape invariant is preserved so fills iterate.",
        "level_note": "That identical buffer + context give identical bytes is the functional character of the encoder (C09 functional correspondence, C10); additionally every stream record is encoded through both delivery modes and compared.",
        "technique": "Lean 4 theorems over a mirror of deinterleave / LE conversion / FrameBuf fills + kernel-level differential correspondence + two-source stream comparison",
        "design_ref": "DESIGN.md section 3 C14",
    },
    "C05": {
        "level_text": "Proof over the protocol model (any W >= 1, any block list, every interleaving of feeder, W workers and hasher, no bound): C05_deterministic - every final state reachable without faults holds exactly frames 0..N-1 in order, each computed from its own block with its own number, and the hasher has consumed exactly the concatenated block bytes in order; C05_any_two_runs - any two complete runs (any fault plan) agree on result and hash input; C05_numbering, C05_no_lock_contention, C05_frames support invariants (token conservation, numbering, sink contents). Worker count is a parameter (from config, FLACENC_WORKERS or core count in the code; 0 is excluded by C06_W0_deadlock + the fix that ignores FLACENC_WORKERS=0). The model is tied to par.rs by trace validation: every real run's event log is replayed through Par.step.",
        "level_note": "Partial in two respects, both stated: the OS scheduler and the atomicity of channel/mutex operations are assumed, not modelled; equality of the *bytes* additionally needs the per-frame encoder to be a function of its arguments (C10, C09 functional correspondence) - compared directly on every case (mt = st = uninstrumented mt = frame-by-frame).",
        "technique": "Lean 4 invariant proofs over a transition-system model of the thread protocol + trace validation of the real code against the model + direct byte comparison under perturbed schedules",
        "design_ref": "DESIGN.md section 3 C05, Appendix A",
    },
    "C06": {
        "level_text": "Proof over the same model with fault plans (read error at any read index, any set of blocks holding an out-of-range sample, any combination): C06_deadlock_free(_strong) - every reachable non-final state has an enabled step (a join is only ever needed for a thread that has exited); C06_potential_decreases / C06_run_length / C06_terminates - a natural-number potential strictly decreases with every step, so every run has at most 9N+3W+7 steps; C06_final - in every final state all W workers and the hasher have exited and were joined and the result equals the single-thread loop's (first failure in sequential order: Config for the first invalid block before Source for a later read error); C06_first_error, C06_framenum_set (the frame-number expect never fires), C06_capacities, C06_md5_stream; C06_W0_deadlock (negative control). Tied to par.rs by trace validation incl. faulty runs; the runtime half (returns, no leaked OS threads, no helper-thread panic) is observed by the direct oracles.",
        "level_note": "Atomicity of modelled steps and thread exit = OS thread gone are assumptions/observations. Needs non-empty data blocks (source contract); C06_empty_block_deadlock exhibits the hang a contract-violating source would cause.",
        "technique": "Lean 4 proofs (invariants, progress, termination potential, refinement to the sequential result) over the protocol model + trace validation + fault enumeration with watchdog and thread accounting on the real code",
        "design_ref": "DESIGN.md section 3 C06, Appendix A",
    },
    "C17": {
        "level_text": "Proof of the decision logic over unbounded naturals: C17_streaminfo (accepted iff 1..8 channels, width in {8,12,16,20,24}, rate <= 96000) and C17_streaminfo_wraparound (2^32+k Hz, 2^8+k channels/bits, 0 channels rejected for every k), C17_framebuf (iff 1..8 channels and 32..32767 samples), C17_fill_interleaved_rejects / C17_fill_le_bytes_rejects (over-long fills, partial frames, widths outside 1..4, partial samples), C17_context_width (a byte fill is accepted iff its width is the declared one), C17_frame_args / C17_frame_number_rejected / C17_sample_range (frame number >= 2^31, empty buffer, channel mismatch, any out-of-range sample anywhere), C17_stream_args (encode_with_fixed_block_size in both modes accepts iff block size in 32..32767 and the source format is supported). The mirrors are tied to the code on the whole argument grid in both cargo profiles; 'never panics or hangs' is decided on the real code by that grid under catch_unwind and a watchdog.",
        "level_note": "The theorems speak about the mirrored checks; panic/hang freedom of the real entry points is an enumeration over the grid, as the property's quantifier prescribes.",
        "technique": "Lean 4 theorems stating the decision logic outright + exhaustive grid correspondence on the real API",
        "design_ref": "DESIGN.md section 3 C17",
    },
    "C18": {
        "level_text": "Proof over the constructor/verify mirrors (unbounded arguments): C18_residual_verify_iff (verify = WF and block size <= 32767, both directions), C18_residual_sound / _rejects / _complete, C18_qparams_sound / _rejects, C18_constant_sound, C18_verbatim_sound, C18_fixed_sound, C18_lpc_sound (every accepted component is well-formed, reports exactly the number of bits it writes (C08), issues only valid sink operations whose ideal bits are its bit string (C12)), C18_subframe_through_sinks, C18_header_sound / _rejects / _rejects_wraparound, C18_block_size_zero, C18_streaminfo_iff / _sound, C18_unknown_iff. C18_fixed_not_WF documents the one gap between verify and the strict WF (warm-up = whole block), shown harmless. Accept/reject, verify, count, bytes, operation list and parse-back are compared with the real constructors on the grid; 'no combination of arguments panics' is the grid enumeration under catch_unwind in both profiles.",
        "level_note": "Parse-back identity is decided by running the real parser on every accepted grid case (theorems for the parser mirror are under C15).",
        "technique": "Lean 4 soundness/completeness theorems for the constructor mirrors + grid correspondence (constructor, verify, count, write through three sinks, parse back)",
        "design_ref": "DESIGN.md section 3 C18",
    },
    "C20": {
        "level_text": "Translation validation (not a proof): no Lean definition can mention a cargo feature, so the model is feature-free by construction and the property is decided by validating every buildable feature set against that same model. The harness is built with {}, default, default+decode and default+decode+experimental; each build encodes the same fixed-seed corpus of inputs and non-experimental configurations; every output is accepted by the strict Lean RFC decoder, reproduces the input, matches the model's STREAMINFO book-keeping and (single-thread records) is reproduced byte for byte by the functional encoder model on the logged oracle; the digests of the emitted bytes are then compared case by case across the four builds.",
        "level_note": "Lower level than the other properties by necessity (said in DESIGN.md section 3 C20): conditional compilation is outside what a model of the code's semantics can express; equality of the float-derived choices across builds is established by comparison only.",
        "technique": "per-build translation validation against one Lean model + cross-build digest comparison",
        "design_ref": "DESIGN.md section 3 C20",
    },
    "C16": {
        "level_text": "Proof of the check-sum half + exhaustive enumeration of the rest. C16_crc8_burst / C16_crc16_burst: for any message, XOR-ing a non-zero error pattern confined to <= 8 (<= 16) consecutive bits changes the CRC (generic proof for any CRC with odd polynomial and zero init; linearity C16_crc*_linear, zero-step injectivity); C16_header_burst_rejected / C16_frame_burst_rejected: such a burst anywhere in a header/frame including the stored check value makes the parser's comparison fail; C16_*_clean_accepted, C16_*_accepts_own for the unaltered data. The parser/decoder mirror Model/RepoParser.lean has explicit panic outcomes for every unwrap/expect/assert/checked arithmetic of parser.rs and decode.rs; it is tied to the real code by agreeing on the outcome of every enumerated mutant (all single-bit flips, 2..8-bit bursts, truncations, random strings) in both cargo profiles. 'Never panics' and 'no altered frame accepted with different audio' are decided on the real code by that enumeration (exhaustive over the stated mutation space in the thorough tier).",
        "level_note": "A universal 'never accepts an altered frame' is false for any format with 16 check bits (counting); it is split as DESIGN.md section 3 C16 describes. The panic-freedom theorem for the mirror (C16_total) is added when its proof is complete; until then panic-freedom rests on the enumeration.",
        "technique": "Lean 4 CRC algebra (burst detection) + parser/decoder mirror validated mutant-by-mutant against the real parser + exhaustive mutation enumeration",
        "design_ref": "DESIGN.md section 3 C16",
    },
    "C07": {
        "level_text": "Proof against the GENERATED model: tools/translate.py regenerates Gen/Config.lean from src/config.rs on every run (field list, Default impls, every verify_range!/verify_true!, the cfg!(experimental) guard, and which nested verify() calls are chained), and C07_exact proves `Encoder.verify exp c = true <-> InRange exp c` for every configuration, where InRange is written by hand from the documented ranges (block size 32..32767, fixed max order <= 4, partitions 1..64, LPC order 1..24, precision 1..15, Rice parameter <= 14, Tukey alpha a non-NaN f32 in [0,1] via the bit-level lemma C07_alpha, experimental options only when compiled in); C07_rejects, C07_nan_rejected, C07_default_verifies; C07_consumers: the preconditions the integer consumers rely on (partitions != 0 for the division, max_order+1 <= 5, precision >= 1, order <= 24, parameter < 16, block size >= 32) follow from verification. Un-chaining a nested verify or changing a limit changes the generated model and breaks the proof on the next run. 'Every accepted configuration encodes every valid input without panicking and losslessly': decided by encoding every accepted grid point against a probe corpus under catch_unwind + claxon (the property's own quantifier), with C01/C09/C13_total covering the integer pipeline for all inputs.",
        "level_note": "Partial for panic-freedom: the float estimator's internal asserts are outside the model (probe-corpus enumeration only).",
        "technique": "Lean 4 theorem over a model regenerated from the source by a fail-closed translator + grid correspondence validating the translator + probe-corpus enumeration",
        "design_ref": "DESIGN.md section 3 C07, section 1.2 (a)",
    },
    "C19": {
        "level_text": "Proof over a model of serde's data model whose struct shapes, attributes and defaults are GENERATED from config.rs on every run: C19_roundtrip (+ one per nested type): fromT (toT c) = ok c; C19_verify_commutes(_omitted); C19_empty_document / C19_empty_section; C19_omitted_fields (+ per struct): erasing ANY set of keys yields exactly those fields reset to their defaults; C19_omitted_in_{stereo,subframe,fixed,qlpc,prc,orderSel,window}: the same for keys omitted inside sections of the whole document; C19_omitted_partitions / _alpha (per-variant defaults 16 / 0.4), C19_omitted_type (a missing tag is an error); C19_default_documented: the generated defaults equal the documented literals (4096, par, none, true x3, 4, ApproxEnt 16, 10, 15, false, 0, Tukey 0.4, 14). Tied to the real toml/serde behaviour by comparing serialised value trees and parsed configurations (or errors) on random configurations with random omitted key paths.",
        "level_note": "The TOML text layer (toml 0.5) is modelled from serde's value tree upward, not verified. Known finding K1: an integer field above 2^63-1 cannot be serialised/parsed by toml 0.5 (fails loudly).",
        "technique": "Lean 4 theorems over a serde-shape model regenerated from the source + differential correspondence with toml/serde",
        "design_ref": "DESIGN.md section 3 C19",
    },
}
