#!/bin/sh
# Confirms a delivered mutant in its scratch worktree:
#   tools/confirm_mutant.sh <worktree> <mutant dir with patch.diff + demo.rs> [cargo test extra args]
# 1. pristine: demo passes; 2. mutant: full existing suite passes AND demo fails; 3. worktree left pristine.
set -u
WT="$1"; M="$2"; shift 2
EXTRA="$*"
cd "$WT" || exit 2
git checkout -q -- src 2>/dev/null
mkdir -p tests && cp "$M/demo.rs" tests/mut_demo.rs
echo "== pristine: demo"
cargo test --offline $EXTRA --test mut_demo 2>&1 | grep -E "^test result|panicked|error\[" | head -5
PR=$?
git apply "$M/patch.diff" || { echo "patch does not apply"; exit 2; }
echo "== mutant: existing suite"
mv tests/mut_demo.rs /tmp/.mut_demo_hold.$$
cargo test --workspace --no-fail-fast --offline 2>&1 | grep -E "^test result|FAILED|failed" | head -6
mv /tmp/.mut_demo_hold.$$ tests/mut_demo.rs
echo "== mutant: demo"
cargo test --offline $EXTRA --test mut_demo > /tmp/.mut_demo_out.$$ 2>&1
grep -E "^test result" /tmp/.mut_demo_out.$$ | head -3; grep -E "panicked" /tmp/.mut_demo_out.$$ | head -2; rm -f /tmp/.mut_demo_out.$$
git checkout -q -- src
rm -f tests/mut_demo.rs
git status --short | grep -v "^?? OUT" | head -3
