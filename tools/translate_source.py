#!/usr/bin/env python3
"""Part `source` of tools/translate.py: the sample-delivery path.

  Gen/Source.lean   src/arrayutils.rs (`deinterleave*`, `le_bytes_to_i32s*`, `i32s_to_le_bytes`, `is_constant`,
                    `slice_as_simd`, `find_min_and_max`, `find_max_abs`), src/source.rs (`FrameBuf`, `Context`, `MemSource`,
                    their `Fill` / `Source` / `Seekable` impls), `verify_macro_impl` of src/error.rs and the `Fill` impl of
                    `ParContext` (src/par.rs)

The function bodies are PARSED (lexer / item index / expression parser of parts `headers`, `writer`, `verify`, extended
below with `while`, range expressions / slice ranges, `#[cfg(..)]` on statements, `vec![x; n]`, `repeat!`, token-level
expansion of `seq!`) and mirrored statement by statement as Lean functions in the `Option` monad (`none` = the Rust
function panics in the dev profile or does not terminate).  Nothing about the translated functions (constants, widths,
bounds, order of statements, guards) is built into this file; what IS built in (the trusted base of this part) is in
the tables SRC_SIMD (readings of the fakesimd stand-ins, each with the exact Rust body it was written for),
SRC_ERR_CTORS, SRC_EXT_TYPES, SRC_VIEW, PATH_FNS, the fingerprint of src/repeat.rs (`repeat!`) and the readings of std /
md-5 / seq-macro items, each marked "std:" / "md-5:" where it is implemented (listed at the end of the generated file).
Anything else raises `fail("<file>: fn X: ...")`.
"""
import sys, os, re, hashlib

_m = sys.modules.get("__main__")
T = _m if (getattr(_m, "HdrParser", None) is not None and getattr(_m, "VfParser", None) is not None) else __import__("translate")
fail = T.fail
Unreadable = T.Unreadable

UBITS = T.HDR_BITS            # unsigned widths (usize from FV_USIZE_BITS, default 64)
SBITS = T.WR_SBITS            # signed widths

# ---------------------------------------------------------------------------------------------- trusted tables

# sha256 (first 16 hex digits) of the token text of src/repeat.rs.  Built-in reading of its two macros:
#   repeat!(c to N => body)                 ==  for c in 0..N { body }
#   repeat!(c to N ; while cond => body)    ==  for c in 0..N { if !cond { break } body }
# (`Count<N>: Repeat` exists for 1 <= N <= 32 only: any other N does not compile.)
SRC_REPEAT_FP = "94696835de82e524"

# seq!(N in A..=B { body }) / seq!(N in A..B { body }) (crate seq-macro 0.3): the body repeated for N = A, A+1, ..,
# with the token `N` replaced by the integer literal and `ident~N` pasted into one identifier.  Expanded at token level
# before items are indexed.

# external types: Rust type text -> (tag, Lean type).  `md5::Md5` is the list of bytes hashed so far.
SRC_EXT_TYPES = {"md5::Md5": ("md5", "List Nat")}

# error constructors (pure, no panics; the error VALUE is dropped: `Err(_)` is `none`): (type, fn) -> number of arguments
SRC_ERR_CTORS = {("VerifyError", "new"): 2, ("SourceError", "by_reason"): 1}
SRC_ERR_ENUMS = {"SourceErrorReason"}

# fakesimd stand-ins (src/fakesimd.rs, the stable-Rust build: feature `simd-nightly` off).  `Simd<T, N>` is `[T; N]`, read
# as a `List` of N lanes.  Each entry: exact Rust body (token text) the reading was written for -> reading.
#   kind "assoc": `simd::Simd::<name>(args)`, kind "method": `<simd value>.<name>(args)`.
SRC_SIMD = {
    "splat":      dict(kind="assoc", trait=None, body="Self([v; N])"),
    "simd_max":   dict(kind="method", trait="SimdOrd", body="Self(array::from_fn(|i| self.0[i].max(other.0[i])))"),
    "simd_min":   dict(kind="method", trait="SimdOrd", body="Self(array::from_fn(|i| self.0[i].min(other.0[i])))"),
    "abs":        dict(kind="method", trait="SimdInt", body="Self(array::from_fn(|i| num_traits::sign::abs(self.0[i])))"),
    "cast":       dict(kind="method", trait="SimdInt", body="Simd::<U, N>(array::from_fn(|i| U::from(self.0[i]).unwrap()))"),
    "reduce_max": dict(kind="method", trait="SimdUint",
                       body='self.0.into_iter().max().expect("INTERNAL ERROR in `reduce_max` of fakesimd.")'),
    "reduce_min": dict(kind="method", trait="SimdUint",
                       body='self.0.into_iter().min().expect("INTERNAL ERROR in `reduce_min` of fakesimd.")'),
}

# structs whose Rust definition is NOT mirrored field by field: (file, struct) -> fields kept (Rust field -> type text)
# plus "ghost" fields standing for an effect outside the crate.  `ParContext` owns a worker thread and a channel; the
# translated `Fill` impl only touches `bytes_per_sample`, `bytebuf` and sends `bytebuf.clone()` through the channel
# (`enqueue_buffer`): `sent` = the buffers sent so far, in order.
SRC_VIEW = {
    ("par.rs", "ParContext"): dict(
        fields=[("bytes_per_sample", "usize"), ("bytebuf", "Vec<u8>")],
        ghost=[("sent", "List (List Nat)")],
        # method -> (exact Rust body, reading as a Lean update of `self`)
        methods={"enqueue_buffer": ("self.process_queue.0.send(self.bytebuf.clone()).expect(panic_msg::MPMC_SEND_FAILED);",
                                    "{ self with sent := self.sent ++ [self.bytebuf] }")}),
}

# (file, trait | None, owner | None, fn)   in emission order (callees first).  Every entry MUST be translated.
SRC_SPEC = [
    ("error.rs", None, None, "verify_macro_impl"),
    ("arrayutils.rs", None, None, "deinterleave_gen"),
    ("arrayutils.rs", None, None, "deinterleave_ch1"),
    ("arrayutils.rs", None, None, "deinterleave_ch2"),
    ("arrayutils.rs", None, None, "deinterleave_ch3"),
    ("arrayutils.rs", None, None, "deinterleave_ch4"),
    ("arrayutils.rs", None, None, "deinterleave_ch5"),
    ("arrayutils.rs", None, None, "deinterleave_ch6"),
    ("arrayutils.rs", None, None, "deinterleave_ch7"),
    ("arrayutils.rs", None, None, "deinterleave_ch8"),
    ("arrayutils.rs", None, None, "deinterleave"),
    ("arrayutils.rs", None, None, "le_bytes_to_i32s_impl"),
    ("arrayutils.rs", None, None, "le_bytes_to_i32s"),
    ("arrayutils.rs", None, None, "i32s_to_le_bytes"),
    ("arrayutils.rs", None, None, "is_constant"),
    ("arrayutils.rs", None, None, "slice_as_simd"),
    ("arrayutils.rs", None, None, "find_min_and_max"),
    ("arrayutils.rs", None, None, "simd_map_and_reduce"),
    ("arrayutils.rs", None, None, "find_max_abs"),
    ("source.rs", None, "FrameBuf", "new_stereo_buffer"),
    ("source.rs", None, "FrameBuf", "with_size"),
    ("source.rs", None, "FrameBuf", "size"),
    ("source.rs", None, "FrameBuf", "filled_size"),
    ("source.rs", None, "FrameBuf", "channels"),
    ("source.rs", None, "FrameBuf", "resize"),
    ("source.rs", None, "FrameBuf", "channel_slice"),
    ("source.rs", None, "FrameBuf", "verify_samples"),
    ("source.rs", "Fill", "FrameBuf", "fill_interleaved"),
    ("source.rs", "Fill", "FrameBuf", "fill_le_bytes"),
    ("source.rs", None, "Context", "new"),
    ("source.rs", None, "Context", "bytes_per_sample"),
    ("source.rs", None, "Context", "current_frame_number"),
    ("source.rs", None, "Context", "md5_digest"),
    ("source.rs", None, "Context", "total_samples"),
    ("source.rs", "Fill", "Context", "fill_interleaved"),
    ("source.rs", "Fill", "Context", "fill_le_bytes"),
    ("source.rs", "Fill", "(T,U)", "fill_interleaved"),
    ("source.rs", "Fill", "(T,U)", "fill_le_bytes"),
    ("source.rs", None, "MemSource", "from_samples"),
    ("source.rs", None, "MemSource", "as_slice"),
    ("source.rs", "Source", "MemSource", "channels"),
    ("source.rs", "Source", "MemSource", "bits_per_sample"),
    ("source.rs", "Source", "MemSource", "sample_rate"),
    ("source.rs", "Seekable", "MemSource", "len"),
    ("source.rs", "Seekable", "MemSource", "read_samples_from"),
    ("source.rs", "Source", "MemSource", "read_samples"),
    ("source.rs", "Source", "MemSource", "len_hint"),
    ("par.rs", "Fill", "ParContext", "fill_interleaved"),
    ("par.rs", "Fill", "ParContext", "fill_le_bytes"),
]

# deliberately NOT translated (reason); listed at the end of the generated file
SRC_UNTRANSLATED = [
    ("source.rs", "FrameBuf::fill_stereo_with_iter", "generic over an `Iterator` (zip of `iter_mut`s); used by the stereo coder, not by the delivery path"),
    ("source.rs", "FrameBuf::raw_slice", "#[cfg(test)]"),
    ("source.rs", "impl Fill for &mut T / impl Source for &mut T / impl Seekable for &mut T", "forwarders `T::f(self, ..)`: the same function on the referent"),
    ("source.rs", "impl fmt::Debug for Context", "formatting only"),
    ("source.rs", "Seekable::is_empty (default method)", "not on the delivery path"),
    ("arrayutils.rs", "deinterleave_ch2_simd, le16_bytes_to_i32s", "#[cfg(feature = \"simd-nightly\")]: not part of the stable (fakesimd) build"),
    ("arrayutils.rs", "SimdVec, pack_into_simd_vec, unpack_simds, slice_as_simd_mut, unaligned_map_and_update, transmute_and_flatten_simd(_mut), "
                      "find_sum_abs_f32, find_max, wrapping_sum", "SIMD containers / f32 / raw-pointer transmutes / closures with attributes: outside the delivery path (used by lpc.rs / rice.rs)"),
    ("par.rs", "ParContext::new / enqueue_buffer / request_stop / finalize, the hashing thread", "threads and channels: `enqueue_buffer` is read through the table SRC_VIEW "
               "(its body is compared with par.rs); what the hashing thread does with a received buffer is `Context::fill_le_bytes` (translated above)"),
]

LEAN_RESERVED = set(T.WR_LEAN_RESERVED) | {"req", "bindO", "forO", "forF", "bindF", "tryO", "default", "id", "not", "and", "or",
                                            "List", "Nat", "Int", "Bool", "Option", "Unit", "Type", "Flow", "countUp", "repeatWhileO",
                                            "vecResize", "local", "open", "end", "section", "prefix", "instance", "fun", "decide", "leNat", "tryO"}


def mangle(name):
    return name + "_" if name in LEAN_RESERVED else name


def fingerprint(toks):
    return hashlib.sha256(" ".join(toks).encode()).hexdigest()[:16]


def tok_text(t):
    s = ""
    for i, x in enumerate(t):
        if i and (re.match(r"\w", x) and re.match(r"\w", t[i - 1][-1:])):
            s += " "
        s += x
    return s


def ind(s, k=2):
    return "\n".join((" " * k + l) if l else l for l in s.split("\n"))


def par(s):
    return T.wr_par(s)


def land(*xs):
    xs = [x for x in xs if x is not None and x != "true"]
    if not xs:
        return None
    return xs[0] if len(xs) == 1 else "(" + " && ".join(xs) + ")"


# ---------------------------------------------------------------------------------------------- cfg, seq!

def group_end(toks, i, where):
    pairs = {"(": ")", "[": "]", "{": "}"}
    stack = []
    while i < len(toks):
        if toks[i] in pairs:
            stack.append(pairs[toks[i]])
        elif toks[i] in pairs.values():
            if not stack or stack.pop() != toks[i]:
                fail(f"{where}: unbalanced bracket {toks[i]!r}")
            if not stack:
                return i + 1
        i += 1
    fail(f"{where}: unbalanced brackets")


def read_features():
    """default features of Cargo.toml (the build that is verified: `cargo build` without flags)"""
    path = os.path.join(T.REPO, "Cargo.toml")
    if not os.path.exists(path):
        fail("Cargo.toml: file not found")
    src = open(path).read()
    m = re.search(r"^\[features\]\s*$(.*?)(?=^\[)", src, re.S | re.M)
    if not m:
        fail("Cargo.toml: no [features] section")
    d = re.search(r"^default\s*=\s*\[(.*?)\]", m.group(1), re.S | re.M)
    if not d:
        fail("Cargo.toml: no default feature list")
    return set(re.findall(r'"([^"]+)"', d.group(1)))


class CfgEval:
    def __init__(self, features):
        self.features = features
        # cfg flags with a fixed value in the verified build (dev profile, not a test build, no verification hooks)
        self.flags = {"test": False, "debug_assertions": True, "flacenc_verif": False}

    def eval(self, toks, where):
        v, p = self.pred(toks, 0, where)
        if p != len(toks):
            fail(f"{where}: cfg predicate `{tok_text(toks)}`")
        return v

    def pred(self, t, p, where):
        if p >= len(t):
            fail(f"{where}: cfg predicate")
        x = t[p]
        if x in ("not", "all", "any") and p + 1 < len(t) and t[p + 1] == "(":
            q = group_end(t, p + 1, where)
            inner = t[p + 2:q - 1]
            parts = T.wr_split_top(inner)
            vals = [self.eval(s, where) for s in parts]
            if x == "not":
                if len(vals) != 1:
                    fail(f"{where}: cfg(not(..)) with {len(vals)} arguments")
                return (not vals[0]), q
            return (all(vals) if x == "all" else any(vals)), q
        if x == "feature" and t[p + 1:p + 2] == ["="] and p + 2 < len(t) and t[p + 2].startswith('"'):
            return (t[p + 2].strip('"') in self.features), p + 3
        if x in self.flags:
            return self.flags[x], p + 1
        fail(f"{where}: cfg predicate `{tok_text(t)}` (unknown flag `{x}`)")


def expand_seq(toks, where):
    """token-level expansion of `seq!(N in A..=B { body })` (crate seq-macro)"""
    out = []
    i = 0
    while i < len(toks):
        if toks[i] == "seq" and toks[i + 1:i + 3] == ["!", "("]:
            j = group_end(toks, i + 2, where)
            inner = toks[i + 3:j - 1]
            if len(inner) < 7 or inner[1] != "in" or inner[3] not in ("..", "..=") or inner[5] != "{" or inner[-1] != "}" \
                    or not re.fullmatch(r"[A-Za-z_][A-Za-z0-9_]*", inner[0]) \
                    or not re.fullmatch(r"\d+", inner[2]) or not re.fullmatch(r"\d+", inner[4]) \
                    or group_end(inner, 5, where) != len(inner):
                fail(f"{where}: seq! invocation `{tok_text(inner[:6])} ..`")
            ident, lo, hi = inner[0], int(inner[2]), int(inner[4])
            if inner[3] == "..=":
                hi += 1
            body = inner[6:-1]
            for v in range(lo, hi):
                exp = []
                k = 0
                while k < len(body):
                    if body[k] == "~":
                        if k + 1 < len(body) and body[k + 1] == ident and exp and re.fullmatch(r"[A-Za-z_][A-Za-z0-9_]*", exp[-1]):
                            exp[-1] = exp[-1] + str(v)
                            k += 2
                            continue
                        fail(f"{where}: seq!: `~` not in the form `ident~{ident}`")
                    if body[k] == "#" and k + 1 < len(body) and body[k + 1] == ident:
                        fail(f"{where}: seq!: `#{ident}` repetition section")
                    exp.append(str(v) if body[k] == ident else body[k])
                    k += 1
                out += expand_seq(exp, where)
            i = j
            continue
        out.append(toks[i])
        i += 1
    return out


# ---------------------------------------------------------------------------------------------- parser

class SrcParser(T.VfParser):
    """VfParser + `while`, range expressions (`a..b`, `a..=b`, `..b`, `a..`, also as slice index), `#[cfg(..)]` on a
    statement (evaluated), `vec![x; n]`, `repeat!`, `panic!` with a message."""

    cfg = None      # CfgEval, set by the driver

    def sub(self, toks):
        ps = SrcParser(toks, 0, len(toks), self.where, self.macros)
        ps.scan_only = self.scan_only
        ps.depth = self.depth + 1
        return ps

    STOP = (")", "]", "}", ",", ";", "{", None)

    def expr(self, level=0):
        if level != 0:
            return T.VfParser.expr(self, level)
        if self.peek() in ("..", "..="):
            op = self.peek()
            self.p += 1
            if self.peek() in self.STOP:
                if op == "..=":
                    self.err("`..=` without an upper bound")
                return ("rangeexpr", None, None, False)
            hi = T.VfParser.expr(self, 0)
            return ("rangeexpr", None, hi, op == "..=")
        l = T.VfParser.expr(self, 0)
        if self.peek() in ("..", "..="):
            op = self.peek()
            self.p += 1
            if self.peek() in self.STOP:
                if op == "..=":
                    self.err("`..=` without an upper bound")
                return ("rangeexpr", l, None, False)
            hi = T.VfParser.expr(self, 0)
            if self.peek() in ("..", "..="):
                self.err("chained range")
            return ("rangeexpr", l, hi, op == "..=")
        return l

    def cfg_attr(self):
        """at `#[cfg(..)]`: evaluate it and skip it -> bool"""
        self.p += 2
        self.eat("cfg")
        if self.peek() != "(":
            self.err("#[cfg ..]")
        q = group_end(self.t, self.p, self.where)
        v = SrcParser.cfg.eval(self.t[self.p + 1:q - 1], self.where)
        self.p = q
        self.eat("]")
        return v

    def block(self):
        save, self.struct_ok = self.struct_ok, True
        try:
            return self.block_()
        finally:
            self.struct_ok = save

    def block_(self):
        self.eat("{")
        stmts = []
        tail = None
        while True:
            keep = True
            while self.peek() == "#" and self.peek(1) == "[":
                if self.peek(2) == "cfg":
                    keep = self.cfg_attr() and keep
                else:
                    self.skip_attrs()
            x = self.peek()
            if x == "}":
                if not keep:
                    self.err("#[cfg] before `}`")
                self.p += 1
                break
            if x == ";":
                self.p += 1
                continue
            if x == "let":
                st = self.let_()
                if keep:
                    stmts.append(st)
                continue
            if x in ("fn", "use", "const", "static", "struct", "enum", "impl", "loop", "unsafe"):
                self.err(f"`{x}` item / statement inside a function body")
            if x in ("if", "match", "for", "while", "{"):
                e = {"if": self.if_, "match": self.match, "for": self.for_, "while": self.while_, "{": self.block}[x]()
                if self.peek() in (".", "?") or (self.peek() in self.ASSIGN):
                    self.err("operator applied to a block-like expression statement")
                if self.peek() == "}":
                    self.p += 1
                    if keep:
                        tail = e
                    elif tail is not None:
                        self.err("#[cfg]-dependent tail expression")
                    break
                if self.peek() == ";":
                    self.p += 1
                if keep:
                    if tail is not None:
                        self.err("statement after a #[cfg]-selected tail block")
                    stmts.append(e)
                continue
            e = self.expr()
            if self.peek() in self.ASSIGN:
                op = self.peek()
                self.p += 1
                rhs = self.expr()
                if self.peek() != "}":
                    self.eat(";")
                if keep:
                    stmts.append(("assign", op, e, rhs))
                continue
            if self.peek() == ";":
                self.p += 1
                if keep:
                    stmts.append(e)
            elif self.peek() == "}":
                if keep:
                    tail = e
            else:
                self.err(f"expected `;` or `}}` after expression, found {self.peek()!r}")
        return ("block", stmts, tail)

    def unary(self):
        if self.peek() == "&" and self.peek(1) == "mut":
            self.p += 2
            return ("un", "&mut", self.unary())
        return T.VfParser.unary(self)

    def while_(self):
        self.eat("while")
        if self.peek() == "let":
            self.err("while-let")
        c = self.head_expr()
        return ("while", c, self.block())

    def for_(self):
        self.eat("for")
        v = self.for_pat()
        self.eat("in")
        it = self.head_expr()
        body = self.block()
        return ("for", v, it, body)

    def primary(self):
        x = self.peek()
        if x == "vec" and self.peek(1) == "!" and self.peek(2) == "[":
            q = group_end(self.t, self.p + 2, self.where)
            ps = self.sub(self.t[self.p + 3:q - 1])
            self.p = q
            if ps.peek() is None:
                return ("array", [])            # std: vec![]
            a = ps.expr()
            if ps.peek() == ";":
                ps.p += 1
                n = ps.expr()
                if ps.peek() is not None:
                    ps.err("vec![x; n]")
                return ("arrayrep", a, n)        # std: vec![x; n]
            items = [a]
            while ps.peek() == ",":
                ps.p += 1
                if ps.peek() is None:
                    break
                items.append(ps.expr())
            if ps.peek() is not None:
                ps.err("vec![..]")
            return ("array", items)
        return T.VfParser.primary(self)

    def macro(self, name, toks):
        if name == "repeat":
            ps = self.sub(toks)
            if not ps.is_ident(ps.peek()):
                ps.err("repeat!: counter")
            ctr = ps.peek()
            ps.p += 1
            if ps.peek() != "to":
                ps.err("repeat!: expected `to`")
            ps.p += 1
            upto = T.VfParser.expr(ps, 0)
            cond = None
            if ps.peek() == ";":
                ps.p += 1
                ps.eat("while")
                cond = T.VfParser.expr(ps, 0)
            ps.eat("=>")
            body = ps.block()
            if ps.peek() is not None:
                ps.err("repeat!: trailing tokens")
            return ("repeat", ctr, upto, cond, body)
        if name in ("panic", "unreachable", "unimplemented", "todo"):
            # std: diverges with a panic (whatever the message arguments evaluate to, the outcome is a panic)
            return ("panic",)
        if name in ("assert", "debug_assert", "assert_eq", "debug_assert_eq", "assert_ne"):
            ps = self.sub(toks)
            a = ps.expr()
            if name.endswith("_eq") or name.endswith("_ne"):
                ps.eat(",")
                b = ps.expr()
                a = ("bin", "==" if name.endswith("_eq") else "!=", a, b)
            if ps.peek() not in (None, ","):
                ps.err(f"{name}! arguments")
            # the rest is the panic message: only evaluated when the assertion fails, i.e. when the outcome is a panic anyway
            return ("assert", a, name.startswith("debug"))
        if name == "format":
            for t_ in toks[1:]:
                if not (t_ in (",", ".", "(", ")") or re.fullmatch(r"[A-Za-z_][A-Za-z0-9_]*|\d+", t_)):
                    self.err("format! with a computed argument")
            if not toks or not toks[0].startswith('"'):
                self.err("format!")
            return ("format", toks[0])
        return T.VfParser.macro(self, name, toks)


# ---------------------------------------------------------------------------------------------- translation

class NotTotal(Exception):
    pass


class IntVar:
    """type of a `let` local initialised with an unsuffixed integer literal, until its first typed use"""
    count = 0

    def __init__(self, name):
        IntVar.count += 1
        self.id = IntVar.count
        self.name = name
        self.ty = None


class SV:
    """translated value: Lean text, Rust type, panic-freedom condition (Lean Bool text, None = cannot panic), steps that
    must run before the value exists (`pre`: binds of fallible calls, `?`), Prop text for a bool, literal value"""
    __slots__ = ("lean", "ty", "ex", "pre", "prop", "lit")

    def __init__(self, lean, ty, ex=None, pre=None, prop=None, lit=None):
        self.lean, self.ty, self.ex, self.pre, self.prop, self.lit = lean, ty, ex, list(pre or []), prop, lit


class Var:
    __slots__ = ("lean", "ty", "mut", "mode", "lit")

    def __init__(self, lean, ty, mut=False, mode="val", lit=None):
        self.lean, self.ty, self.mut, self.mode = lean, ty, mut, mode    # mode: "val" | "ref" | "mutref"
        self.lit = lit      # value of a local initialised with an integer literal, until anything modifies it


def is_u(ty):
    return isinstance(ty, str) and ty in UBITS


def is_s(ty):
    return isinstance(ty, str) and ty in SBITS


def is_int(ty):
    return is_u(ty) or is_s(ty)


def bits(ty):
    return UBITS[ty] if ty in UBITS else SBITS[ty]


def is_list(ty):
    return isinstance(ty, tuple) and ty[0] in ("list", "array", "simd")


def elem(ty):
    return ty[1]


class FnInfo:
    def __init__(self):
        self.lean = None        # Lean name
        self.trait = None
        self.owner = None
        self.name = None
        self.params = []        # [(rust name, type, mode)]  without erased (`&str`) parameters
        self.all_params = []    # [(rust name, type | "str", mode)] in Rust order (to match call arguments)
        self.consts = []        # const generic parameters kept as explicit Lean parameters [(name, ty)]
        self.all_consts = []    # all const generic parameters, in order (to match a turbofish)
        self.tparams = []       # type parameters [(name, [bounds])]
        self.ret = "unit"
        self.muts = []          # [(rust name, type)] parameters passed by `&mut` (incl. `self`)
        self.total = False
        self.dicts = []         # dictionary parameters [(lean name, lean type, (type param, trait, method))]
        self.extra = []         # uninterpreted external functions [(lean name, lean type)]
        self.lanes = None


class K:
    """where a statement list ends up: kind "fn" (function body), "loopO" (loop body, no early return), "loopF" (loop
    body with `return` / `?`), "join" (branch of an `if` statement that assigns outer variables)"""

    def __init__(self, kind, state=()):
        self.kind, self.state = kind, list(state)


class SrcTx:
    def __init__(self, files, cfg, cinfo, macros):
        self.files = files          # file name -> HdrItems (seq!-expanded tokens)
        self.cfg = cfg
        self.consts_info = cinfo    # (order, consts, values) of part `constants`
        self.macros = macros
        self.fns = {}               # (owner | None, name) -> FnInfo   (translated)
        self.structs = {}           # name -> [(field, type)]
        self.struct_file = {}
        self.ghost = {}             # struct name -> [(field, lean type)]
        self.traits = {}            # trait name -> {method: fn record}, file
        self.impls = {}             # file -> {(trait | None, owner text): (generics tokens, {fn: rec})}
        self.where = ""
        self.self_ty = None
        self.cur = None             # FnInfo being translated
        self.total = False
        self.ivars = []
        self.tmp = 0
        self.fname = None
        self.used_consts = {}
        self.used_simd = set()
        self.used_view = set()

    def err(self, msg):
        fail(f"{self.where}: {msg}")

    def fresh(self, base="v"):
        self.tmp += 1
        return f"{base}{self.tmp}'"      # a name no Rust identifier can have

    def fallible(self):
        if self.total:
            raise NotTotal()

    def some(self, x):
        return x if self.total else f"some {par(x)}"

    # ---------------------------------------------------------------- types
    def norm_ty_toks(self, toks):
        t = []
        for x in toks:
            if x.startswith("'"):
                continue
            if x == ">>":
                t += [">", ">"]
            elif x == "&&":
                t += ["&", "&"]
            else:
                t.append(x)
        return t

    def ty(self, toks, tparams=None):
        """Rust type tokens -> (type, mode)"""
        t = self.norm_ty_toks(toks)
        mode = "val"
        while t and t[0] in ("&", "mut"):
            if t[0] == "&":
                mode = "mutref" if t[1:2] == ["mut"] else ("ref" if mode == "val" else mode)
            t = t[1:]
        return self.ty_(t, tparams or {}), mode

    def ty_(self, t, tparams):
        if not t:
            self.err("empty type")
        s = "".join(t)
        if s in UBITS or s in SBITS:
            return s
        if s == "bool":
            return "bool"
        if s in ("str", "String"):
            return "str"
        if s == "()":
            return "unit"
        if s == "Self":
            if self.self_ty is None:
                self.err("`Self` outside an impl")
            return self.self_ty
        if s in tparams:
            for b in (tparams[s] or []):
                m = re.fullmatch(r"(Fn|FnMut|FnOnce)\((.*)\)(?:->(.*))?", b.replace(" ", ""))
                if m:
                    # closure parameter: a function value
                    args = [self.ty(a, tparams)[0] for a in T.wr_split_top(T.hdr_lex(m.group(2), self.where))] if m.group(2) else []
                    ret = self.ty(T.hdr_lex(m.group(3), self.where), tparams)[0] if m.group(3) else "unit"
                    return ("fn", tuple(args), ret)
            return ("gen", s)
        if s in SRC_EXT_TYPES:
            return ("ext", SRC_EXT_TYPES[s][0])
        if s in self.structs:
            return ("struct", s)
        if s in ("VerifyError", "SourceError", "SourceErrorReason"):
            return "err"
        if t[0] == "&":
            return self.ty(t, tparams)[0]
        if t[0] == "[" and t[-1] == "]":
            parts = T.wr_split_top(t[1:-1], ";")
            if len(parts) == 1:
                return ("list", self.ty(parts[0], tparams)[0])
            if len(parts) == 2:
                n = "".join(parts[1])
                if re.fullmatch(r"\d+", n):
                    return ("array", self.ty(parts[0], tparams)[0], int(n))
                return ("array", self.ty(parts[0], tparams)[0], n)
            self.err(f"type `{s}`")
        if t[0] == "(" and t[-1] == ")":
            parts = T.wr_split_top(t[1:-1])
            if len(parts) < 2:
                self.err(f"type `{s}`")
            return ("tuple", tuple(self.ty(p, tparams)[0] for p in parts))
        for h in (["Vec"], ["Option"], ["Result"], ["simd", "::", "Simd"], ["Simd"]):
            if t[:len(h)] == h and len(t) > len(h) + 2 and t[len(h)] == "<" and t[-1] == ">":
                args = T.wr_split_top(t[len(h) + 1:-1])
                if h[-1] == "Vec" and len(args) == 1:
                    return ("list", self.ty(args[0], tparams)[0])
                if h[-1] == "Option" and len(args) == 1:
                    return ("option", self.ty(args[0], tparams)[0])
                if h[-1] == "Result" and len(args) == 2:
                    if self.ty(args[1], tparams)[0] != "err":
                        self.err(f"type `{s}`: error type")
                    return ("result", self.ty(args[0], tparams)[0])
                if h[-1] == "Simd" and len(args) == 2:
                    return ("simd", self.ty(args[0], tparams)[0])
        self.err(f"unsupported type `{s}`")

    def lty(self, ty):
        if isinstance(ty, IntVar):
            if ty.ty is None:
                return f"⟦ivt{ty.id}⟧"
            ty = ty.ty
        if is_u(ty):
            return "Nat"
        if is_s(ty):
            return "Int"
        if ty == "bool":
            return "Bool"
        if ty == "unit":
            return "Unit"
        if ty in ("str", "err"):
            return "Unit"
        k = ty[0]
        if k in ("list", "array", "simd"):
            return f"List {par(self.lty(ty[1]))}"
        if k == "struct":
            return ty[1]
        if k == "tuple":
            return "(" + " × ".join(self.lty(x) for x in ty[1]) + ")"
        if k in ("option", "result"):
            return f"Option {par(self.lty(ty[1]))}"
        if k == "gen":
            return ty[1]
        if k == "fn":
            return " → ".join([par(self.lty(a)) for a in ty[1]] + [f"Option {par(self.lty(ty[2]))}"])
        if k == "ext":
            for _, (tag, lt) in SRC_EXT_TYPES.items():
                if tag == ty[1]:
                    return lt
        self.err(f"no Lean type for {ty!r}")

    def dflt(self, ty):
        ty = self.res(ty)
        if is_u(ty):
            return "0"
        if is_s(ty):
            return "0"
        if ty == "bool":
            return "false"
        if isinstance(ty, tuple) and ty[0] in ("list", "array", "simd"):
            return "[]"
        return "default"

    def res(self, ty):
        if isinstance(ty, IntVar):
            return ty.ty if ty.ty is not None else ty
        return ty

    def subst(self, ty, m):
        if isinstance(ty, tuple):
            if ty[0] == "gen":
                return m.get(ty[1], ty)
            if ty[0] == "tuple":
                return ("tuple", tuple(self.subst(x, m) for x in ty[1]))
            if ty[0] in ("list", "option", "result", "simd"):
                return (ty[0], self.subst(ty[1], m))
            if ty[0] == "array":
                return ("array", self.subst(ty[1], m), ty[2])
            if ty[0] == "fn":
                return ("fn", tuple(self.subst(a, m) for a in ty[1]), self.subst(ty[2], m))
        return ty

    def unify_gen(self, pty, aty, m):
        """bind type parameters of `pty` from the argument type `aty`"""
        aty = self.res(aty)
        if isinstance(pty, tuple):
            if pty[0] == "gen":
                if pty[1] in m and not self.same(m[pty[1]], aty):
                    self.err(f"type parameter {pty[1]} bound to {m[pty[1]]!r} and {aty!r}")
                m[pty[1]] = aty
                return
            if isinstance(aty, tuple):
                if pty[0] in ("list", "array", "simd") and aty[0] in ("list", "array", "simd"):
                    self.unify_gen(pty[1], aty[1], m)
                elif pty[0] == aty[0] and pty[0] in ("option", "result"):
                    self.unify_gen(pty[1], aty[1], m)
                elif pty[0] == "tuple" and aty[0] == "tuple" and len(pty[1]) == len(aty[1]):
                    for a, b in zip(pty[1], aty[1]):
                        self.unify_gen(a, b, m)

    def same(self, a, b):
        a, b = self.res(a), self.res(b)
        if a == b:
            return True
        if isinstance(a, tuple) and isinstance(b, tuple):
            if a[0] in ("list", "array", "simd") and b[0] in ("list", "array", "simd"):
                # a slice view of an array / vector: same element type is enough (lengths are tracked by conditions)
                return self.same(a[1], b[1])
            if a[0] == b[0] and a[0] in ("option", "result"):
                return a[1] is None or b[1] is None or self.same(a[1], b[1])
            if a[0] == b[0] == "tuple" and len(a[1]) == len(b[1]):
                return all(self.same(x, y) for x, y in zip(a[1], b[1]))
        return False

    # ---------------------------------------------------------------- integers
    def lit_lean(self, v, ty):
        if is_s(ty):
            return f"({v} : Int)"
        return str(v)

    def fits(self, v, ty, what):
        if is_u(ty):
            ok = 0 <= v < 2 ** UBITS[ty]
        else:
            ok = -(2 ** (SBITS[ty] - 1)) <= v < 2 ** (SBITS[ty] - 1)
        if not ok:
            self.err(f"{what}: literal {v} does not fit {ty}")

    def coerce(self, sv, ty, what="value"):
        """give an untyped literal / literal-initialised local the integer type `ty`"""
        ty = self.res(ty)
        if isinstance(sv.ty, IntVar):
            if sv.ty.ty is None:
                if not is_int(ty):
                    self.err(f"{what}: `{sv.ty.name}` (initialised with an integer literal) used as {ty!r}")
                sv.ty.ty = ty
            sv.ty = sv.ty.ty
        if sv.ty is None and sv.lit is not None:
            if isinstance(ty, IntVar):
                return sv
            if not is_int(ty):
                self.err(f"{what}: integer literal where {ty!r} is expected")
            self.fits(sv.lit, ty, what)
            return SV(self.lit_lean(sv.lit, ty), ty, sv.ex, sv.pre, None, sv.lit)
        return sv

    def in_range(self, ty, e):
        if is_u(ty):
            return f"decide ({e} < {2 ** UBITS[ty]})"
        b = SBITS[ty]
        return f"decide (({-(2 ** (b - 1))} : Int) ≤ {e} ∧ {e} < ({2 ** (b - 1)} : Int))"

    def arith(self, op, l, r):
        """binary arithmetic on two values of the same integer type"""
        ty = self.res(l.ty)
        pre = l.pre + r.pre
        ex = land(l.ex, r.ex)
        a, b = par(l.lean), par(r.lean)
        lit = None
        if op in ("+", "-", "*"):
            e = f"{a} {op} {b}"
            if l.lit is not None and r.lit is not None:
                lit = {"+": l.lit + r.lit, "-": l.lit - r.lit, "*": l.lit * r.lit}[op]
                self.fits(lit, ty, f"`{l.lit} {op} {r.lit}`")       # rustc rejects an overflowing constant expression
                return SV(self.lit_lean(lit, ty), ty, ex, pre, None, lit)
            if op == "-" and is_u(ty):
                c = f"decide ({b} ≤ {a})"
            else:
                c = self.in_range(ty, f"{a} {op} {b}")
            return SV(e, ty, land(ex, c), pre)
        if op in ("/", "%"):
            if r.lit is not None:
                if r.lit == 0:
                    self.err("division by the literal 0")
                c = None
            else:
                c = f"decide ({b} ≠ 0)"
            if is_s(ty):
                # Rust truncates toward zero; MIN / -1 overflows
                mn = -(2 ** (SBITS[ty] - 1))
                c = land(c, f"decide (¬ ({a} = ({mn} : Int) ∧ {b} = (-1 : Int)))")
                e = f"Int.tdiv {a} {b}" if op == "/" else f"Int.tmod {a} {b}"
            else:
                e = f"{a} {op} {b}"
            return SV(e, ty, land(ex, c), pre)
        if op in ("&", "|", "^"):
            if not is_u(ty):
                self.err(f"`{op}` on {ty!r}")
            lop = {"&": "&&&", "|": "|||", "^": "^^^"}[op]
            return SV(f"{a} {lop} {b}", ty, ex, pre)
        self.err(f"operator `{op}`")

    def shift(self, op, l, r):
        ty = self.res(l.ty)
        rt = self.res(r.ty)
        if not is_int(ty) or not (is_int(rt) or (r.ty is None and r.lit is not None)):
            self.err(f"`{op}` on {ty!r} / {rt!r}")
        w = bits(ty)
        pre = l.pre + r.pre
        a, b = par(l.lean), par(r.lean)
        if r.lit is not None:
            if not 0 <= r.lit < w:
                self.err(f"shift by the constant {r.lit} on a {w}-bit value")
            c = None
            b = str(r.lit)
            n = b
        else:
            if is_s(rt):
                c = f"decide ((0 : Int) ≤ {b} ∧ {b} < ({w} : Int))"
                n = f"{b}.toNat"
            else:
                c = f"decide ({b} < {w})"
                n = b
        if op == "<<":
            if is_u(ty):
                e = f"({a} <<< {n}) % {2 ** w}"
            else:
                e = f"Int.bmod ({a} * 2 ^ {n}) {2 ** w}"
        else:
            e = f"{a} >>> {n}"      # Nat: logical; Int: arithmetic (floor), as in Rust
        return SV(e, ty, land(l.ex, r.ex, c), pre)

    def cast(self, v, to):
        fr = self.res(v.ty)
        if v.ty is None and v.lit is not None:
            # an unsuffixed literal takes the target type when it fits, else i32 then truncates; only the fitting case is read
            self.fits(v.lit, to, "cast of a literal")
            return SV(self.lit_lean(v.lit, to), to, v.ex, v.pre, None, v.lit)
        if fr == "bool" and is_int(to):
            return SV(f"(if {v.lean} then {self.lit_lean(1, to)} else {self.lit_lean(0, to)})", to, v.ex, v.pre)
        if not is_int(fr) or not is_int(to):
            self.err(f"cast from {fr!r} to {to!r}")
        a = par(v.lean)
        if is_u(fr) and is_u(to):
            e = v.lean if UBITS[to] >= UBITS[fr] else f"{a} % {2 ** UBITS[to]}"
        elif is_u(fr) and is_s(to):
            e = f"({v.lean} : Int)" if SBITS[to] > UBITS[fr] else f"Int.bmod ({v.lean} : Int) {2 ** SBITS[to]}"
        elif is_s(fr) and is_u(to):
            e = f"({a} % ({2 ** UBITS[to]} : Int)).toNat"
        else:
            e = v.lean if SBITS[to] >= SBITS[fr] else f"Int.bmod {a} {2 ** SBITS[to]}"
        return SV(e, to, v.ex, v.pre)

    # ---------------------------------------------------------------- closing a value / a statement
    def items_of(self, sv):
        return list(sv.pre) + ([("req", sv.ex)] if sv.ex is not None else [])

    def close(self, items, inner, Kc=None, env=None):
        out = inner
        for it in reversed(items):
            if it[0] == "let":
                if "\n" in it[2]:
                    out = f"let {it[1]} :=\n{ind(it[2])}\n{out}"
                else:
                    out = f"let {it[1]} := {it[2]}\n{out}"
                continue
            self.fallible()
            if it[0] == "req":
                out = f"req {par(it[1])} <|\n{out}"
            elif it[0] == "bind":
                if out in (f"some {it[1]}", f"some ({it[1]})"):
                    out = it[2]         # `bindO a some = a`
                else:
                    out = f"bindO {par(it[2])} fun {it[1]} =>\n{out}"
            elif it[0] == "try":
                if Kc is None:
                    self.err("`?` in a position where the enclosing function cannot return")
                out = f"tryO {par(it[2])} {par(self.k_ret(Kc, env, 'none', it[3]))} fun {it[1]} =>\n{out}"
            else:
                self.err(f"internal: item {it[0]}")
        return out

    def close_val(self, sv):
        """the value of `sv` as one term (`Option _` unless translating a total function)"""
        for it in sv.pre:
            if it[0] == "try":
                self.err("`?` inside a conditionally evaluated expression")
        return self.close(self.items_of(sv), self.some(sv.lean))

    # ---------------------------------------------------------------- expressions
    def cond_text(self, c):
        return c.prop if c.prop is not None else f"{c.lean} = true"

    def tx(self, e, env, want=None):
        k = e[0]
        m = getattr(self, "x_" + k, None)
        if m is None:
            self.err(f"expression of kind `{k}` is not supported here")
        return m(e, env, want)

    def x_paren(self, e, env, want):
        v = self.tx(e[1], env, want)
        return v

    def x_mexp(self, e, env, want):
        return self.tx(e[2], env, want)

    def x_unit(self, e, env, want):
        return SV("()", "unit")

    def x_str(self, e, env, want):
        return SV("()", "str")

    def x_format(self, e, env, want):
        # std: format!(..) builds a String; it cannot panic for plain arguments (Display of integers); the value is dropped
        return SV("()", "str")

    def x_int(self, e, env, want):
        v, suf = e[1], e[2]
        if suf is not None:
            self.fits(v, suf, "literal")
            return SV(self.lit_lean(v, suf), suf, lit=v)
        w = self.res(want)
        if is_int(w):
            self.fits(v, w, "literal")
            return SV(self.lit_lean(v, w), w, lit=v)
        return SV(str(v), None, lit=v)

    def x_boollit(self, e, env, want):
        return SV("true" if e[1] else "false", "bool", prop="True" if e[1] else "False")

    def const_lookup(self, name):
        order, consts, values = self.consts_info
        toks = self.files[self.fname].toks
        # `use super::constant::[mod::]*NAME;` or `use crate::constant::..`
        for i in range(len(toks) - 4):
            if toks[i] == "use" and toks[i + 1] in ("super", "crate") and toks[i + 3] == "constant":
                j = i + 4
                segs = []
                while toks[j] == "::":
                    segs.append(toks[j + 1])
                    j += 2
                if toks[j] == ";" and segs and segs[-1] == name:
                    full = ".".join(segs)
                    if full in consts and isinstance(values.get(full), int):
                        ty = consts[full][0]
                        if ty not in UBITS and ty not in SBITS:
                            self.err(f"constant {full} of type {ty}")
                        self.used_consts[full] = ty
                        return SV("FlacVerif.Gen.Const." + full.replace(".", "_"), ty)
                    self.err(f"constant `{full}` is not a numeric constant of constant.rs")
        return None

    def x_var(self, e, env, want):
        name = e[1]
        if name in env:
            v = env[name]
            if v is None:
                self.err(f"`{name}` is used after the counting loop that advanced it")
            return SV(v.lean, v.ty)
        for n, ty in self.cur.all_consts:
            if n == name:
                if (n, ty) not in self.cur.consts:
                    self.cur.consts.append((n, ty))
                return SV(mangle(n), ty)
        if re.fullmatch(r"[A-Z][A-Z0-9_]*", name):
            c = self.const_lookup(name)
            if c is not None:
                return c
        if name == "None":
            return SV("none", ("option", None))
        self.err(f"unknown name `{name}`")

    def x_path(self, e, env, want):
        segs = e[1]
        if len(segs) == 2 and segs[0] in SRC_ERR_ENUMS:
            return SV("()", "err")
        if len(segs) == 2 and (segs[0] in UBITS or segs[0] in SBITS) and segs[1] in ("MAX", "MIN"):
            ty = segs[0]
            if ty in UBITS:
                v = 2 ** UBITS[ty] - 1 if segs[1] == "MAX" else 0
            else:
                v = 2 ** (SBITS[ty] - 1) - 1 if segs[1] == "MAX" else -(2 ** (SBITS[ty] - 1))
            return SV(self.lit_lean(v, ty), ty, lit=v)      # std: uN::MAX / iN::MIN ..
        self.err(f"path `{'::'.join(segs)}` as a value")

    def x_un(self, e, env, want):
        op = e[1]
        if op in ("&", "&mut", "*"):
            return self.tx(e[2], env, want)       # references are erased
        v = self.tx(e[2], env, want if op == "-" else "bool")
        if op == "!":
            if self.res(v.ty) != "bool":
                self.err(f"`!` on {v.ty!r}")
            return SV(f"!{par(v.lean)}", "bool", v.ex, v.pre, f"¬ {par(v.prop)}" if v.prop is not None else None)
        if op == "-":
            if v.ty is None and v.lit is not None:
                w = self.res(want)
                if is_s(w):
                    self.fits(-v.lit, w, "literal")
                    return SV(self.lit_lean(-v.lit, w), w, v.ex, v.pre, None, -v.lit)
                return SV(str(-v.lit), None, v.ex, v.pre, None, -v.lit)
            ty = self.res(v.ty)
            if not is_s(ty):
                self.err(f"unary `-` on {ty!r}")
            if v.lit is not None:
                self.fits(-v.lit, ty, "literal")
                return SV(self.lit_lean(-v.lit, ty), ty, v.ex, v.pre, None, -v.lit)
            mn = -(2 ** (SBITS[ty] - 1))
            return SV(f"-{par(v.lean)}", ty, land(v.ex, f"decide ({par(v.lean)} ≠ ({mn} : Int))"), v.pre)
        self.err(f"unary `{op}`")

    def int_pair(self, e, env, want):
        l = self.tx(e[2], env, want)
        r = self.tx(e[3], env, l.ty if l.ty is not None else want)
        if l.ty is None and r.ty is not None:
            l = self.coerce(l, r.ty)
        if r.ty is None and l.ty is not None:
            r = self.coerce(r, l.ty)
        if isinstance(l.ty, IntVar) and l.ty.ty is None and not isinstance(r.ty, IntVar):
            l = self.coerce(l, r.ty)
        if isinstance(r.ty, IntVar) and r.ty.ty is None and not isinstance(l.ty, IntVar):
            r = self.coerce(r, l.ty)
        l.ty, r.ty = self.res(l.ty), self.res(r.ty)
        return l, r

    def x_bin(self, e, env, want):
        op = e[1]
        if op in ("&&", "||"):
            l = self.tx(e[2], env, "bool")
            r = self.tx(e[3], env, "bool")
            if self.res(l.ty) != "bool" or self.res(r.ty) != "bool":
                self.err(f"`{op}` on {l.ty!r} / {r.ty!r}")
            if r.pre:
                v = self.fresh()
                closed = self.close_val(r)
                if op == "||":
                    term = f"if {self.cond_text(l)} then {self.some('true')} else\n{closed}"
                else:
                    term = f"if {self.cond_text(l)} then\n{ind(closed)}\nelse {self.some('false')}"
                return SV(v, "bool", None, self.items_of(l) + [("bind", v, term)])
            if op == "||":
                ex = land(l.ex, f"({par(l.lean)} || {r.ex})" if r.ex is not None else None)
                prop = f"({l.prop} ∨ {r.prop})" if l.prop is not None and r.prop is not None else None
            else:
                ex = land(l.ex, f"(!{par(l.lean)} || {r.ex})" if r.ex is not None else None)
                prop = f"({l.prop} ∧ {r.prop})" if l.prop is not None and r.prop is not None else None
            return SV(f"({l.lean} {op} {r.lean})", "bool", ex, l.pre, prop)
        if op in ("==", "!=", "<", ">", "<=", ">="):
            l, r = self.int_pair(e, env, None)
            if l.ty is None and r.ty is None and l.lit is not None and r.lit is not None:
                self.err("comparison of two untyped literals")
            lop = {"==": "=", "!=": "≠", "<": "<", ">": ">", "<=": "≤", ">=": "≥"}[op]
            pre, ex = l.pre + r.pre, land(l.ex, r.ex)
            if isinstance(l.ty, IntVar) or isinstance(r.ty, IntVar):
                self.err("comparison between locals whose integer type is not known yet")
            if is_int(l.ty):
                if l.ty != r.ty:
                    self.err(f"`{op}` on {l.ty!r} / {r.ty!r}")
                p = f"{par(l.lean)} {lop} {par(r.lean)}"
                return SV(f"decide ({p})", "bool", ex, pre, p)
            if op in ("==", "!="):
                if not self.same(l.ty, r.ty):
                    self.err(f"`{op}` on {l.ty!r} / {r.ty!r}")
                if l.ty == "bool" or (isinstance(l.ty, tuple) and l.ty[0] == "gen"):
                    return SV(f"({par(l.lean)} {op} {par(r.lean)})", "bool", ex, pre)
            self.err(f"`{op}` on {l.ty!r} / {r.ty!r}")
        if op in ("<<", ">>"):
            l = self.tx(e[2], env, want)
            r = self.tx(e[3], env, None)
            if l.ty is None and l.lit is not None:
                w = self.res(want)
                if not is_int(w):
                    self.err("shift of an untyped literal")
                l = self.coerce(l, w)
            if isinstance(r.ty, IntVar):
                self.err("shift amount whose integer type is not known yet")
            return self.shift(op, l, r)
        if op in ("+", "-", "*", "/", "%", "&", "|", "^"):
            l, r = self.int_pair(e, env, want)
            if l.ty is None and r.ty is None:
                if l.lit is None or r.lit is None:
                    self.err(f"`{op}` on untyped operands")
                w = self.res(want)
                if is_int(w):
                    l, r = self.coerce(l, w), self.coerce(r, w)
                else:
                    if op in ("/", "%") and r.lit == 0:
                        self.err("division by the literal 0")
                    v = {"+": l.lit + r.lit, "-": l.lit - r.lit, "*": l.lit * r.lit, "/": abs(l.lit) // abs(r.lit) if r.lit else 0,
                         "%": 0, "&": l.lit & r.lit, "|": l.lit | r.lit, "^": l.lit ^ r.lit}[op]
                    if op in ("/", "%") and (l.lit < 0 or r.lit < 0):
                        self.err("constant division with a negative operand")
                    if op == "%":
                        v = l.lit % r.lit
                    return SV(str(v), None, None, [], None, v)
            if isinstance(l.ty, IntVar) or isinstance(r.ty, IntVar):
                self.err(f"`{op}` on a local whose integer type is not known yet")
            if not is_int(l.ty) or l.ty != r.ty:
                self.err(f"`{op}` on {l.ty!r} / {r.ty!r}")
            return self.arith(op, l, r)
        self.err(f"operator `{op}`")

    def x_cast(self, e, env, want):
        v = self.tx(e[1], env, None)
        if isinstance(v.ty, IntVar):
            self.err("cast of a local whose integer type is not known yet")
        return self.cast(v, e[2])

    def struct_fields(self, name):
        if name not in self.structs:
            self.err(f"struct `{name}` is not known")
        return self.structs[name]

    def x_field(self, e, env, want):
        b = self.tx(e[1], env, None)
        ty = self.res(b.ty)
        if isinstance(ty, tuple) and ty[0] == "struct":
            for f, fty in self.struct_fields(ty[1]):
                if f == e[2]:
                    return SV(f"{par(b.lean)}.{mangle(f)}", fty, b.ex, b.pre)
            self.err(f"struct {ty[1]} has no (modelled) field `{e[2]}`")
        self.err(f"field `.{e[2]}` of a value of type {ty!r}")

    def tup_proj(self, lean, i, n):
        a = par(lean)
        if i == n - 1:
            return a + ".2" * (n - 1) if n > 1 else a
        return a + ".2" * i + ".1"

    def x_tupidx(self, e, env, want):
        b = self.tx(e[1], env, None)
        ty = self.res(b.ty)
        if not (isinstance(ty, tuple) and ty[0] == "tuple") or e[2] >= len(ty[1]):
            self.err(f"`.{e[2]}` of a value of type {ty!r}")
        return SV(self.tup_proj(b.lean, e[2], len(ty[1])), ty[1][e[2]], b.ex, b.pre)

    def length_of(self, v):
        ty = self.res(v.ty)
        if ty[0] == "array" and isinstance(ty[2], int):
            return str(ty[2]), ty[2]
        return f"{par(v.lean)}.length", None

    def slice_of(self, b, rng, env):
        """`b[lo..hi]` -> (value, condition, lo lean, hi lean, pre)"""
        if rng[3]:
            self.err("inclusive slice range")
        ln, _ = self.length_of(b)
        pre, ex = [], None
        lo = hi = None
        if rng[1] is not None:
            lo = self.coerce(self.tx(rng[1], env, "usize"), "usize")
            if self.res(lo.ty) != "usize":
                self.err("slice bound is not a usize")
            pre, ex = pre + lo.pre, land(ex, lo.ex)
        if rng[2] is not None:
            hi = self.coerce(self.tx(rng[2], env, "usize"), "usize")
            if self.res(hi.ty) != "usize":
                self.err("slice bound is not a usize")
            pre, ex = pre + hi.pre, land(ex, hi.ex)
        a = par(b.lean)
        if lo is not None and lo.lit == 0:
            lo_l = None
        else:
            lo_l = lo.lean if lo is not None else None
        if lo_l is None and hi is None:
            return b.lean, ex, "0", ln, pre
        if lo_l is None:
            return f"{a}.take {par(hi.lean)}", land(ex, f"decide ({par(hi.lean)} ≤ {ln})"), "0", hi.lean, pre
        if hi is None:
            return f"{a}.drop {par(lo_l)}", land(ex, f"decide ({par(lo_l)} ≤ {ln})"), lo_l, ln, pre
        return (f"({a}.drop {par(lo_l)}).take ({par(hi.lean)} - {par(lo_l)})",
                land(ex, f"decide ({par(lo_l)} ≤ {par(hi.lean)})", f"decide ({par(hi.lean)} ≤ {ln})"), lo_l, hi.lean, pre)

    def x_index(self, e, env, want):
        b = self.tx(e[1], env, None)
        ty = self.res(b.ty)
        if not is_list(ty):
            self.err(f"indexing a value of type {ty!r}")
        idx = e[2]
        while idx[0] == "paren":
            idx = idx[1]
        if idx[0] == "rangeexpr":
            val, ex, _, _, pre = self.slice_of(b, idx, env)
            return SV(val, ("list", ty[1]), land(b.ex, ex), b.pre + pre)
        i = self.coerce(self.tx(idx, env, "usize"), "usize")
        if self.res(i.ty) != "usize":
            self.err(f"index of type {i.ty!r}")
        ln, n = self.length_of(b)
        if n is not None and i.lit is not None:
            if i.lit >= n:
                self.err(f"constant index {i.lit} into an array of length {n}")
            c = None
        else:
            c = f"decide ({par(i.lean)} < {ln})"
        return SV(f"{par(b.lean)}.getD {par(i.lean)} {self.dflt(ty[1])}", ty[1], land(b.ex, i.ex, c), b.pre + i.pre)

    def x_tuple(self, e, env, want):
        w = self.res(want)
        vs = []
        for j, x in enumerate(e[1]):
            wt = w[1][j] if isinstance(w, tuple) and w[0] == "tuple" and len(w[1]) == len(e[1]) else None
            v = self.tx(x, env, wt)
            if v.ty is None and v.lit is not None:
                if wt is None:
                    self.err("untyped literal in a tuple")
                v = self.coerce(v, wt)
            vs.append(v)
        pre, ex = [], None
        for v in vs:
            pre, ex = pre + v.pre, land(ex, v.ex)
        return SV("(" + ", ".join(v.lean for v in vs) + ")", ("tuple", tuple(v.ty for v in vs)), ex, pre)

    def x_array(self, e, env, want):
        w = self.res(want)
        et = w[1] if is_list(w) else None
        vs = [self.tx(x, env, et) for x in e[1]]
        for v in vs:
            if v.ty is not None:
                et = v.ty
        if et is None:
            if vs:
                self.err("array literal of untyped elements")
            return SV("[]", ("list", None))
        vs = [self.coerce(v, et) for v in vs]
        pre, ex = [], None
        for v in vs:
            pre, ex = pre + v.pre, land(ex, v.ex)
        return SV("[" + ", ".join(v.lean for v in vs) + "]", ("array", et, len(vs)), ex, pre)

    def x_arrayrep(self, e, env, want):
        # std: vec![x; n] / [x; n]
        w = self.res(want)
        x = self.tx(e[1], env, w[1] if is_list(w) else None)
        if x.ty is None:
            self.err("repeated element of unknown type")
        n = self.coerce(self.tx(e[2], env, "usize"), "usize")
        if self.res(n.ty) != "usize":
            self.err("repeat count is not a usize")
        return SV(f"List.replicate {par(n.lean)} {par(x.lean)}", ("list", x.ty), land(x.ex, n.ex), x.pre + n.pre)

    def x_structlit(self, e, env, want):
        segs, fields = e[1], e[2]
        name = segs[-1]
        if name == "Self":
            if self.self_ty is None or self.self_ty[0] != "struct":
                self.err("`Self { .. }` outside an impl of a struct")
            name = self.self_ty[1]
        if len(segs) != 1 or name not in self.structs or name in self.ghost:
            self.err(f"struct literal `{'::'.join(segs)}`")
        decl = self.struct_fields(name)
        given = dict(fields)
        if set(given) != {f for f, _ in decl} or len(fields) != len(decl):
            self.err(f"struct literal of {name}: fields {sorted(given)} do not match the definition")
        pre, ex, parts = [], None, []
        for f, x in fields:                 # evaluated in the order written
            fty = dict(decl)[f]
            v = self.coerce(self.tx(x, env, fty), fty)
            if not self.same(v.ty, fty):
                self.err(f"struct literal of {name}: field {f} of type {fty!r} initialised with {v.ty!r}")
            pre, ex = pre + v.pre, land(ex, v.ex)
            parts.append((f, v.lean))
        d = dict(parts)
        body = ", ".join(f"{mangle(f)} := {d[f]}" for f, _ in decl)
        return SV(f"({{ {body} }} : {name})", ("struct", name), ex, pre)

    def x_if(self, e, env, want):
        c = self.tx(e[1], env, "bool")
        if self.res(c.ty) != "bool":
            self.err("`if` condition is not a boolean")
        if e[3] is None:
            self.err("`if` without `else` used as a value")
        a = self.tx(e[2], env, want)
        b = self.tx(e[3], env, want if a.ty is None else a.ty)
        if a.ty is None and b.ty is not None:
            a = self.coerce(a, b.ty)
        if b.ty is None and a.ty is not None:
            b = self.coerce(b, a.ty)
        if a.ty is None:
            self.err("`if` whose branches are untyped literals")
        if not self.same(a.ty, b.ty):
            self.err(f"`if` branches of types {a.ty!r} / {b.ty!r}")
        ct = self.cond_text(c)
        if a.pre or b.pre:
            v = self.fresh()
            term = f"if {ct} then\n{ind(self.close_val(a))}\nelse\n{ind(self.close_val(b))}"
            return SV(v, a.ty, None, self.items_of(c) + [("bind", v, term)])
        ex = None
        if a.ex is not None or b.ex is not None:
            ex = f"(if {ct} then {a.ex or 'true'} else {b.ex or 'true'})"
        return SV(f"(if {ct} then {a.lean} else {b.lean})", a.ty, land(c.ex, ex), c.pre)

    def x_block(self, e, env, want):
        """block used as a value: `let`s of pure values, then the tail"""
        stmts, tail = e[1], e[2]
        if tail is None:
            self.err("block without a value used as a value")
        env2 = dict(env)
        pre = []
        for st in stmts:
            if st[0] != "let" or st[1][0] != "bind":
                self.err("statement other than a simple `let` inside a block used as a value")
            name = st[1][1]
            if name in env2:
                self.err(f"`let {name}` inside a block used as a value shadows an outer variable")
            wt = self.ty(st[2])[0] if st[2] is not None else None
            v = self.tx(st[3], env2, wt)
            if v.ty is None:
                if wt is None:
                    if v.lit is None:
                        self.err(f"`let {name}`: cannot type the initialiser")
                    iv = IntVar(name)
                    self.ivars.append(iv)
                    pre += self.items_of(v) + [("let", f"{mangle(name)} : ⟦ivt{iv.id}⟧", f"⟦ivv{iv.id}:{v.lit}⟧")]
                    env2[name] = Var(mangle(name), iv, st[1][2])
                    continue
                v = self.coerce(v, wt)
            pre += self.items_of(v) + [("let", mangle(name), v.lean)]
            env2[name] = Var(mangle(name), v.ty, st[1][2])
        t = self.tx(tail, env2, want)
        return SV(t.lean, t.ty, t.ex, pre + t.pre, t.prop, t.lit)

    def x_try(self, e, env, want):
        v = self.tx(e[1], env, ("result", want) if want is not None else None)
        ty = self.res(v.ty)
        if not (isinstance(ty, tuple) and ty[0] == "result"):
            self.err(f"`?` on a value of type {ty!r}")
        if self.cur.ret is None or not (isinstance(self.cur.ret, tuple) and self.cur.ret[0] == "result"):
            self.err("`?` in a function that does not return a Result")
        n = self.fresh()
        pat = n if ty[1] != "unit" else "()"
        return SV("()" if ty[1] == "unit" else n, ty[1], None, self.items_of(v) + [("try", pat, v.lean, None)])

    def x_closure(self, e, env, want):
        self.err("closure in a position this part does not read")

    def x_rangeexpr(self, e, env, want):
        self.err("range expression in a position this part does not read")

    def x_panic(self, e, env, want):
        self.err("`panic!` used as a value")

    # ---------------------------------------------------------------- calls
    def strip_ref(self, a):
        while a[0] == "paren" or (a[0] == "un" and a[1] in ("&", "&mut", "*")):
            a = a[1] if a[0] == "paren" else a[2]
        return a

    def place(self, e, env):
        """assignable expression -> (root variable, [path elements])"""
        e = self.strip_ref(e)
        if e[0] == "var":
            if e[1] not in env or env[e[1]] is None:
                self.err(f"`{e[1]}` is not an assignable variable here")
            return e[1], []
        if e[0] == "field":
            r, p = self.place(e[1], env)
            return r, p + [("field", e[2])]
        if e[0] == "tupidx":
            r, p = self.place(e[1], env)
            return r, p + [("tup", e[2])]
        if e[0] == "index":
            r, p = self.place(e[1], env)
            idx = e[2]
            while idx[0] == "paren":
                idx = idx[1]
            if idx[0] == "rangeexpr":
                return r, p + [("slice", idx)]
            return r, p + [("index", idx)]
        self.err(f"expression of kind `{e[0]}` is not an assignable place")

    def check_mutable(self, root, env):
        v = env[root]
        v.lit = None        # (in place: conservative for every environment that shares the variable)
        if not (v.mut or v.mode == "mutref"):
            self.err(f"`{root}` is modified but is neither `let mut` nor a `&mut` parameter")

    def upd(self, cur, path, new, env):
        """new value of the value `cur` (SV) after the component at `path` is replaced by the Lean term `new`
        -> (lean, condition, pre)"""
        if not path:
            return new, None, []
        h = path[0]
        ty = self.res(cur.ty)
        if h[0] == "field":
            if not (isinstance(ty, tuple) and ty[0] == "struct"):
                self.err(f"field `.{h[1]}` of a value of type {ty!r}")
            for f, fty in self.struct_fields(ty[1]):
                if f == h[1]:
                    inner, ex, pre = self.upd(SV(f"{par(cur.lean)}.{mangle(f)}", fty), path[1:], new, env)
                    return f"{{ {cur.lean} with {mangle(f)} := {inner} }}", ex, pre
            self.err(f"struct {ty[1]} has no (modelled) field `{h[1]}`")
        if h[0] == "tup":
            if not (isinstance(ty, tuple) and ty[0] == "tuple"):
                self.err(f"`.{h[1]}` of a value of type {ty!r}")
            n = len(ty[1])
            parts = []
            ex, pre = None, []
            for j in range(n):
                pj = self.tup_proj(cur.lean, j, n)
                if j == h[1]:
                    inner, ex, pre = self.upd(SV(pj, ty[1][j]), path[1:], new, env)
                    parts.append(inner)
                else:
                    parts.append(pj)
            return "(" + ", ".join(parts) + ")", ex, pre
        if h[0] == "index":
            if not is_list(ty):
                self.err(f"indexing a value of type {ty!r}")
            i = self.coerce(self.tx(h[1], env, "usize"), "usize")
            if self.res(i.ty) != "usize":
                self.err(f"index of type {i.ty!r}")
            ln, n = self.length_of(cur)
            c = f"decide ({par(i.lean)} < {ln})"
            inner, ex, pre = self.upd(SV(f"{par(cur.lean)}.getD {par(i.lean)} {self.dflt(ty[1])}", ty[1]), path[1:], new, env)
            return f"{par(cur.lean)}.set {par(i.lean)} {par(inner)}", land(i.ex, c, ex), i.pre + pre
        if h[0] == "slice":
            if path[1:]:
                self.err("component of a sub-slice as an assignable place")
            if not is_list(ty):
                self.err(f"slicing a value of type {ty!r}")
            val, ex, lo, hi, pre = self.slice_of(cur, h[1], env)
            # the caller guarantees `new.length = hi - lo` (condition of `copy_from_slice`)
            if lo == "0":
                return f"{par(new)} ++ {par(cur.lean)}.drop {par(hi)}", ex, pre
            return f"{par(cur.lean)}.take {par(lo)} ++ {par(new)} ++ {par(cur.lean)}.drop {par(hi)}", ex, pre
        self.err("internal: path element")

    def place_sv(self, root, path, env):
        """current value of a place"""
        v = SV(env[root].lean, env[root].ty)
        for h in path:
            ty = self.res(v.ty)
            if h[0] == "field":
                v = self.x_field(("field", ("lit_", v), h[1]), env, None)
            elif h[0] == "tup":
                v = self.x_tupidx(("tupidx", ("lit_", v), h[1]), env, None)
            elif h[0] == "index":
                v = self.x_index(("index", ("lit_", v), h[1]), env, None)
            elif h[0] == "slice":
                v = self.x_index(("index", ("lit_", v), h[1]), env, None)
        return v

    def x_lit_(self, e, env, want):
        return e[1]

    def payload_ty(self, ret, muts):
        parts = ([self.lty(ret)] if ret != "unit" else []) + [self.lty(t) for _, t in muts]
        if not parts:
            return "Unit"
        return " × ".join(par(p) for p in parts) if len(parts) > 1 else parts[0]

    def lookup_fn(self, owner, name):
        """translated function `name` of `owner` (inherent first, then any trait impl)"""
        if (owner, name) in self.fns:
            return self.fns[(owner, name)]
        return None

    def apply_fn(self, fi, cvals, dict_args, args, env, root, what, want=None):
        """call of the translated function `fi`: `args` = Rust argument expressions matching fi.all_params
        -> SV (value of the call; rebinding of the `&mut` places is in `pre`)"""
        if len(args) != len(fi.all_params):
            self.err(f"{what}: {len(args)} arguments for {len(fi.all_params)} parameters")
        pre, ex = [], None
        largs = []
        places = []
        tmap = {}
        # type parameters from the arguments
        avals = []
        for (pn, pty, mode), a in zip(fi.all_params, args):
            if pty == "str":
                v = self.tx(a, env, "str")
                if self.res(v.ty) != "str":
                    self.err(f"{what}: argument `{pn}` is not a string")
                pre, ex = pre + v.pre, land(ex, v.ex)
                avals.append(None)
                continue
            if isinstance(pty, tuple) and pty[0] == "fn":
                avals.append(("fnarg", a))
                continue
            if mode == "mutref":
                if not root:
                    self.err(f"{what}: a call that modifies its argument `{pn}` inside a larger expression")
                r, path = self.place(a, env)
                self.check_mutable(r, env)
                v = self.place_sv(r, path, env)
                places.append((r, path, v))
            else:
                v = self.tx(a, env, pty if not self.has_gen(pty) else None)
                if v.ty is None and not self.has_gen(pty):
                    v = self.coerce(v, pty)
            if v.ty is not None:
                self.unify_gen(pty, v.ty, tmap)
            avals.append(v)
        if want is not None and self.has_gen(fi.ret):
            self.unify_gen(fi.ret, want, tmap)
        for (pn, pty, mode), v in zip(fi.all_params, avals):
            if v is None:
                continue
            pt = self.subst(pty, tmap)
            if isinstance(v, tuple) and v[0] == "fnarg":
                if self.has_gen(pt):
                    self.err(f"{what}: cannot determine the type of the function argument `{pn}` ({pt!r})")
                largs.append(self.fn_arg(v[1], pt, env, f"{what}: argument `{pn}`"))
                continue
            if isinstance(v.ty, IntVar) or (v.ty is None):
                if self.has_gen(pt):
                    self.err(f"{what}: untyped literal for the generic parameter `{pn}`")
                v = self.coerce(v, pt)
            if not self.same(v.ty, pt):
                self.err(f"{what}: argument `{pn}` of type {v.ty!r}, expected {pt!r}")
            pre, ex = pre + v.pre, land(ex, v.ex)
            largs.append(par(v.lean))
        head = [fi.lean] + [par(c) for c in cvals]
        for (ln, lt) in fi.extra:
            if (ln, lt) not in self.cur.extra:
                self.cur.extra.append((ln, lt))
            head.append(ln)
        head += dict_args(tmap)
        app = " ".join(head + largs)
        ret = self.subst(fi.ret, tmap)
        items = pre + ([("req", ex)] if ex is not None else [])
        if not fi.muts:
            if fi.total:
                return SV(f"({app})" if (largs or len(head) > 1) else app, ret, None, items)
            if ret == "unit":
                return SV("()", ret, None, items + [("bind", "()", app)])
            v = self.fresh()
            return SV(v, ret, None, items + [("bind", v, app)])
        # `&mut` arguments: the callee returns their final values
        names, lets = [], []
        for r, path, v in places:
            if not path:
                names.append(env[r].lean)
            else:
                tmpn = self.fresh("m")
                names.append(tmpn)
                cur = SV(env[r].lean, env[r].ty)
                new, uex, upre = self.upd(cur, path, tmpn, env)
                if uex is not None or upre:
                    # the place was readable before the call (its value was passed): the same conditions held then
                    pass
                lets.append(("let", env[r].lean, new))
        rv = None
        if ret != "unit":
            rv = self.fresh()
            names = [rv] + names
        pat = names[0] if len(names) == 1 else "(" + ", ".join(names) + ")"
        items.append(("let" if fi.total else "bind", pat, app))
        items += lets
        return SV(rv if rv is not None else "()", ret, None, items)

    # paths usable as function values: path -> (kind, arity); "method" = `a0.name(a1..)`, "call" = `path(a0, ..)`
    PATH_FNS = {
        ("i32", "unsigned_abs"): ("method", 1), ("i32", "abs"): ("method", 1),
        ("std", "cmp", "max"): ("call", 2), ("std", "cmp", "min"): ("call", 2),
        ("SimdOrd", "simd_max"): ("method", 2), ("SimdOrd", "simd_min"): ("method", 2),
        ("SimdUint", "reduce_max"): ("method", 1), ("SimdUint", "reduce_min"): ("method", 1),
    }

    def fn_arg(self, a, fty, env, what):
        """a closure / a path to a function passed where `fty` = ("fn", args, ret) is expected -> Lean `fun .. => <Option ret>`"""
        x = a
        while x[0] == "paren":
            x = x[1]
        if x[0] in ("var", "path"):
            segs = tuple([x[1]] if x[0] == "var" else x[1])
            if len(segs) == 1 and segs[0] in env and isinstance(self.res(env[segs[0]].ty), tuple) and self.res(env[segs[0]].ty)[0] == "fn":
                if self.res(env[segs[0]].ty) != fty:
                    self.err(f"{what}: function value of type {env[segs[0]].ty!r}")
                return env[segs[0]].lean
            if segs not in self.PATH_FNS:
                self.err(f"{what}: `{'::'.join(segs)}` as a function value")
            kind, ar = self.PATH_FNS[segs]
            if ar != len(fty[1]):
                self.err(f"{what}: `{'::'.join(segs)}` takes {ar} arguments, {len(fty[1])} expected")
            names = [f"a{j}" for j in range(ar)]
            if kind == "method":
                body = ("mcall", ("var", names[0]), segs[-1], [("var", n) for n in names[1:]], None)
            else:
                body = ("call", ("path", list(segs)), [("var", n) for n in names])
            x = ("closure", [(n, None) for n in names], body)
        if x[0] != "closure" or len(x[1]) != len(fty[1]):
            self.err(f"{what}: expected a closure with {len(fty[1])} parameter(s)")
        env2 = dict(env)
        binders = []
        for (pn, pt), aty in zip(x[1], fty[1]):
            if pn in ("()", "_"):
                binders.append("_")
                continue
            if pt is not None and not self.same(self.ty(pt, dict(self.cur.tparams))[0], aty):
                self.err(f"{what}: closure parameter `{pn}` annotated with another type")
            ln = mangle(pn) if not re.fullmatch(r"a\d", pn) else pn + "'"
            env2[pn] = Var(ln, aty)
            binders.append(ln)
        if self.has_return(x[2]):
            self.err(f"{what}: `return` / `?` inside a closure")
        b = self.tx(x[2], env2, fty[2])
        if b.ty is None or isinstance(b.ty, IntVar):
            b = self.coerce(b, fty[2])
        if not self.same(b.ty, fty[2]):
            self.err(f"{what}: the closure returns {b.ty!r}, {fty[2]!r} expected")
        save, self.total = self.total, False
        try:
            closed = self.close_val(b)
        finally:
            self.total = save
        if "\n" in closed:
            return f"(fun {' '.join(binders)} =>\n{ind(closed, 4)})"
        return f"(fun {' '.join(binders)} => {closed})"

    def call_fn_value(self, name, args, env, want):
        v = env[name]
        fty = self.res(v.ty)
        if len(args) != len(fty[1]):
            self.err(f"`{name}(..)`: {len(args)} arguments for a function of {len(fty[1])}")
        pre, ex, largs = [], None, []
        for a, aty in zip(args, fty[1]):
            x = self.tx(a, env, aty)
            if x.ty is None or isinstance(x.ty, IntVar):
                x = self.coerce(x, aty)
            if not self.same(x.ty, aty):
                self.err(f"`{name}(..)`: argument of type {x.ty!r}, {aty!r} expected")
            pre, ex = pre + x.pre, land(ex, x.ex)
            largs.append(par(x.lean))
        r = self.fresh()
        items = pre + ([("req", ex)] if ex is not None else []) + [("bind", r, " ".join([v.lean] + largs))]
        return SV(r, fty[2], None, items)

    def has_gen(self, ty):
        if isinstance(ty, tuple):
            if ty[0] == "gen":
                return True
            if ty[0] == "tuple":
                return any(self.has_gen(x) for x in ty[1])
            if ty[0] in ("list", "array", "option", "result", "simd"):
                return self.has_gen(ty[1])
            if ty[0] == "fn":
                return any(self.has_gen(x) for x in ty[1]) or self.has_gen(ty[2])
        return False

    def dict_args_for(self, fi, what):
        def f(tmap):
            out = []
            for (ln, lt, (tp, trait, meth)) in fi.dicts:
                aty = tmap.get(tp)
                if aty is None:
                    self.err(f"{what}: cannot determine the type argument `{tp}`")
                if isinstance(aty, tuple) and aty[0] == "gen":
                    out.append(self.dict_param(aty[1], trait, meth))
                elif isinstance(aty, tuple) and aty[0] == "struct":
                    inst = self.fns.get((aty[1], meth))
                    if inst is None or inst.trait != trait:
                        self.err(f"{what}: `impl {trait} for {aty[1]}`::{meth} is not translated")
                    if inst.total:
                        ps = " ".join(f"a{j}" for j in range(len(inst.params)))
                        out.append(f"(fun {ps} => some ({inst.lean} {ps}))")
                    else:
                        out.append(inst.lean)
                else:
                    self.err(f"{what}: instance of {trait} for {aty!r}")
            return out
        return f

    def trait_sig(self, trait, meth, tp):
        """signature of a trait method for the receiver type parameter `tp` -> FnInfo-like record"""
        if trait not in self.traits or meth not in self.traits[trait][0]:
            self.err(f"trait {trait} has no method `{meth}`")
        recs, fname = self.traits[trait]
        rec = recs[meth]
        save = (self.self_ty, self.where)
        self.self_ty = ("gen", tp)
        try:
            fi = self.signature(fname, trait, None, rec, f"{tp}_{meth}")
        finally:
            self.self_ty = save[0]
        return fi

    def dict_param(self, tp, trait, meth):
        """Lean name of the dictionary parameter standing for `<tp as trait>::meth` in the current function"""
        ln = f"{tp}_{meth}"
        for d in self.cur.dicts:
            if d[0] == ln:
                return ln
        sig = self.trait_sig(trait, meth, tp)
        if sig.tparams or sig.consts:
            self.err(f"generic trait method {trait}::{meth}")
        lt = " → ".join([self.lty(t) for _, t, _ in sig.params] + [f"Option {par(self.payload_ty(sig.ret, sig.muts))}"])
        self.cur.dicts.append((ln, lt, (tp, trait, meth)))
        return ln

    def const_args(self, fi, gen_toks, env, what):
        """turbofish `::<..>` -> Lean values of the const generic parameters the callee keeps"""
        if not fi.all_consts:
            return []
        kept = [n for n, _ in fi.consts]
        if gen_toks is None:
            if kept and kept == [fi.lanes] and self.cur.lanes is not None:
                # the lane count is not written: rustc resolves `LaneCount<?N>: SupportedLaneCount` with the caller's own
                # where-clause, i.e. the caller's lane count
                return [self.lanes()]
            if kept:
                self.err(f"{what}: the const generic argument(s) {kept} are not written at the call (inference is not modelled)")
            return []
        parts = T.wr_split_top(gen_toks)
        # type arguments come first, const arguments last: match from the end
        if len(parts) < len(fi.all_consts):
            self.err(f"{what}: turbofish with {len(parts)} arguments")
        cparts = parts[len(parts) - len(fi.all_consts):]
        out = []
        for (n, ty), p in zip(fi.all_consts, cparts):
            if n not in kept:
                continue
            if len(p) == 1 and re.fullmatch(r"\d+", p[0]):
                self.fits(int(p[0]), ty, "const generic argument")
                out.append(p[0])
            elif len(p) == 1 and any(p[0] == m for m, _ in self.cur.all_consts):
                out.append(self.x_var(("var", p[0]), env, None).lean)
            else:
                self.err(f"{what}: const generic argument `{tok_text(p)}`")
        return out

    def split_generic(self, seg):
        m = re.fullmatch(r"([A-Za-z_][A-Za-z0-9_]*)<(.*)>", seg)
        if not m:
            return seg, None
        return m.group(1), T.hdr_lex(m.group(2), self.where)

    def err_ctor(self, segs, args, env):
        if len(args) != SRC_ERR_CTORS[(segs[-2], segs[-1])]:
            self.err(f"{'::'.join(segs)}: argument count")
        pre, ex = [], None
        for a in args:
            v = self.tx(a, env, None)
            if self.res(v.ty) not in ("str", "err"):
                self.err(f"{'::'.join(segs)}: argument of type {v.ty!r}")
            pre, ex = pre + v.pre, land(ex, v.ex)
        return SV("()", "err", ex, pre)

    def x_call(self, e, env, want, root=False):
        f, args = e[1], e[2]
        if f[0] == "var":
            segs = [f[1]]
        elif f[0] == "path":
            segs = list(f[1])
        else:
            self.err("call of a computed function")
        what = "::".join(segs)
        if len(segs) == 1 and segs[0] in env and env[segs[0]] is not None:
            vt = self.res(env[segs[0]].ty)
            if isinstance(vt, tuple) and vt[0] == "fn":
                return self.call_fn_value(segs[0], args, env, want)
        name, gen = self.split_generic(segs[-1])
        segs = segs[:-1] + [name]
        if segs[0] in ("crate", "super", "self") and len(segs) > 1:
            # module path of a free function: `crate::error::verify_macro_impl`
            if (None, name) in self.fns:
                segs = [name]
        # ---- std
        if segs in (["Ok"], ["Some"]):
            if len(args) != 1:
                self.err(f"{what}: arguments")
            w = self.res(want)
            inner = w[1] if isinstance(w, tuple) and w[0] in ("result", "option") else None
            v = self.tx(args[0], env, inner)
            if v.ty is None:
                if inner is None:
                    self.err(f"{what} of an untyped literal")
                v = self.coerce(v, inner)
            return SV(f"some {par(v.lean)}", ("result" if name == "Ok" else "option", v.ty), v.ex, v.pre)
        if segs == ["Err"]:
            if len(args) != 1:
                self.err("Err: arguments")
            v = self.tx(args[0], env, None)
            if self.res(v.ty) != "err":
                self.err("Err(..) of something that is not a known error constructor")
            w = self.res(want)
            return SV("none", ("result", w[1] if isinstance(w, tuple) and w[0] == "result" else None), v.ex, v.pre)
        if len(segs) >= 2 and (segs[-2], segs[-1]) in SRC_ERR_CTORS:
            return self.err_ctor(segs, args, env)
        if segs in (["std", "cmp", "min"], ["std", "cmp", "max"], ["cmp", "min"], ["cmp", "max"]):
            # std: Ord::min / Ord::max of two integers
            if len(args) != 2:
                self.err(f"{what}: arguments")
            l, r = self.int_pair(("bin", name, args[0], args[1]), env, want)
            if l.ty is None:
                self.err(f"{what} of untyped literals")
            if not is_int(l.ty) or l.ty != r.ty:
                self.err(f"{what} on {l.ty!r} / {r.ty!r}")
            return SV(f"{name} {par(l.lean)} {par(r.lean)}", l.ty, land(l.ex, r.ex), l.pre + r.pre)
        if len(segs) == 2 and segs[0] in SBITS and segs[1] == "from_le_bytes":
            # std: iN::from_le_bytes([u8; N/8])
            n = SBITS[segs[0]] // 8
            v = self.tx(args[0], env, ("array", "u8", n))
            if not (is_list(self.res(v.ty)) and self.res(v.ty)[1] == "u8"):
                self.err(f"{what}: argument of type {v.ty!r}")
            return SV(f"Int.bmod (leNat {par(v.lean)} : Int) {2 ** SBITS[segs[0]]}", segs[0], v.ex, v.pre)
        if segs in (["std", "array", "from_fn"], ["array", "from_fn"]):
            # std: array::from_fn(|i| e) = [e(0), .., e(N-1)], N from the expected type
            w = self.res(want)
            if not (isinstance(w, tuple) and w[0] == "array" and isinstance(w[2], int)):
                self.err("array::from_fn where the array length is not known from the context")
            clo = args[0]
            if len(args) != 1 or clo[0] != "closure" or len(clo[1]) != 1:
                self.err("array::from_fn: expected one closure `|i| ..`")
            iv = clo[1][0][0]
            env2 = dict(env)
            env2[iv] = Var(mangle(iv), "usize")
            b = self.coerce(self.tx(clo[2], env2, w[1]), w[1])
            if b.pre:
                self.err("array::from_fn: fallible call inside the closure")
            if not self.same(b.ty, w[1]):
                self.err(f"array::from_fn: element of type {b.ty!r}, expected {w[1]!r}")
            ex = f"(List.range {w[2]}).all (fun {mangle(iv)} => {b.ex})" if b.ex is not None else None
            return SV(f"(List.range {w[2]}).map (fun {mangle(iv)} => {b.lean})", w, ex)
        if len(segs) == 2 and (segs[0] in UBITS or segs[0] in SBITS) and segs[1] == "from":
            # std: lossless integer conversion `T::from(x)`
            v = self.tx(args[0], env, None)
            fr = self.res(v.ty)
            if not is_int(fr):
                self.err(f"{what}: argument of type {fr!r}")
            to = segs[0]
            lossless = (is_u(fr) and is_u(to) and UBITS[to] >= UBITS[fr]) or (is_u(fr) and is_s(to) and SBITS[to] > UBITS[fr]) \
                or (is_s(fr) and is_s(to) and SBITS[to] >= SBITS[fr])
            if not lossless:
                self.err(f"{what}: no `From<{fr}> for {to}`")
            return self.cast(v, to)
        if segs in (["md5", "Md5", "new"], ["Md5", "new"]):
            # md-5: a fresh hasher has hashed nothing
            if args:
                self.err("Md5::new: arguments")
            return SV("([] : List Nat)", ("ext", "md5"))
        if segs in (["simd", "Simd", "splat"], ["Simd", "splat"]):
            return self.simd_op("splat", None, args, env, want)
        # ---- translated functions
        owner = None
        if len(segs) == 1:
            key = (None, name)
        elif len(segs) == 2:
            owner = segs[0]
            if owner == "Self":
                if self.self_ty is None or self.self_ty[0] != "struct":
                    self.err("`Self::` outside an impl of a struct")
                owner = self.self_ty[1]
            key = (owner, name)
        else:
            self.err(f"call of `{what}`")
        fi = self.fns.get(key)
        if fi is None:
            self.err(f"call of `{what}`, which is not (yet) translated")
        cvals = self.const_args(fi, gen, env, what)
        return self.apply_fn(fi, cvals, self.dict_args_for(fi, what), args, env, root, what, want)

    def simd_check(self, name):
        """the fakesimd body the reading of `name` was written for"""
        info = SRC_SIMD[name]
        if name in self.used_simd:
            return
        it = self.files["fakesimd.rs"]
        found = None
        for (tr, ow), (g, fns) in self.impls["fakesimd.rs"].items():
            if name in fns and ow.startswith("Simd<") and tr == info["trait"]:
                found = fns[name]
        if found is None or found["body"] is None:
            self.err(f"fakesimd.rs: `{name}` of Simd<T, N> not found")
        lo, hi = found["body"]
        got = tok_text(it.toks[lo + 1:hi - 1])
        if got != tok_text(T.hdr_lex(info["body"], "SRC_SIMD")):
            self.err(f"fakesimd.rs: body of `{name}` is `{got}`, the reading was written for `{info['body']}`")
        self.used_simd.add(name)

    def lanes(self):
        if self.cur.lanes is None:
            self.err("SIMD value in a function without a `simd::LaneCount<N>: simd::SupportedLaneCount` bound")
        n = self.cur.lanes
        for c in self.cur.all_consts:
            if c[0] == n and c not in self.cur.consts:
                self.cur.consts.append(c)
        return mangle(n)

    def simd_op(self, name, recv, args, env, want=None):
        self.simd_check(name)
        if name == "splat":
            if len(args) != 1:
                self.err("Simd::splat: arguments")
            v = self.tx(args[0], env, want[1] if isinstance(want, tuple) and want[0] == "simd" else None)
            vt = self.res(v.ty)
            if not (is_int(vt) or (isinstance(vt, tuple) and vt[0] == "gen")):
                self.err(f"Simd::splat of {v.ty!r}")
            return SV(f"List.replicate {self.lanes()} {par(v.lean)}", ("simd", v.ty), v.ex, v.pre)
        ty = self.res(recv.ty)
        if not is_int(ty[1]):
            self.err(f"`{name}` on lanes of type {ty[1]!r}")
        if name in ("simd_max", "simd_min"):
            if len(args) != 1:
                self.err(f"{name}: arguments")
            o = self.tx(args[0], env, ty)
            if self.res(o.ty) != ty:
                self.err(f"{name}: argument of type {o.ty!r}")
            f = "max" if name == "simd_max" else "min"
            # lane-wise; both operands have N lanes
            return SV(f"List.zipWith {f} {par(recv.lean)} {par(o.lean)}", ty, land(recv.ex, o.ex), recv.pre + o.pre)
        if name == "abs":
            if args or not is_s(ty[1]):
                self.err("Simd::abs: arguments / lane type")
            mn = -(2 ** (SBITS[ty[1]] - 1))
            a = par(recv.lean)
            # lane-wise `num_traits::sign::abs` = `-x` for a negative lane: overflows (panics) on MIN
            return SV(f"{a}.map (fun x' => (x'.natAbs : Int))", ty, land(recv.ex, f"{a}.all (fun x' => decide (x' ≠ ({mn} : Int)))"), recv.pre)
        if name == "cast":
            w = self.res(want)
            if args or not (isinstance(w, tuple) and w[0] == "simd" and is_int(self.res(w[1]))):
                self.err("Simd::cast where the target lane type is not known from the context")
            to = self.res(w[1])
            a = par(recv.lean)
            x = SV("x'", ty[1])
            # lane-wise `U::from(x).unwrap()` (num_traits::NumCast): `None` (panic) unless the value is representable
            conv = self.cast(x, to).lean
            if is_s(ty[1]) and is_u(to):
                rng = f"decide ((0 : Int) ≤ x' ∧ x' < ({2 ** UBITS[to]} : Int))"
            elif is_u(ty[1]) and is_u(to):
                rng = f"decide (x' < {2 ** UBITS[to]})"
            else:
                self.err(f"Simd::cast from {ty[1]} to {to}")
            return SV(f"{a}.map (fun x' => {conv})", ("simd", to), land(recv.ex, f"{a}.all (fun x' => {rng})"), recv.pre)
        if name in ("reduce_max", "reduce_min"):
            if args:
                self.err(f"{name}: arguments")
            f = "max" if name == "reduce_max" else "min"
            a = par(recv.lean)
            # `.into_iter().max()` is `None` for zero lanes: `.expect(..)` panics
            return SV(f"{a}.foldl {f} ({a}.headD 0)", ty[1], land(recv.ex, f"!{a}.isEmpty"), recv.pre)
        self.err(f"SIMD operation `{name}`")

    def x_mcall(self, e, env, want, root=False):
        recv_e, name, args, gen = e[1], e[2], e[3], e[4] if len(e) > 4 else None
        what = f".{name}()"
        # `(a..=b).contains(&x)`
        r0 = recv_e
        while r0[0] == "paren":
            r0 = r0[1]
        if r0[0] == "rangeexpr":
            if name != "contains" or len(args) != 1 or r0[1] is None or r0[2] is None:
                self.err(f"method `{name}` on a range")
            x = self.tx(args[0], env, None)
            lo = self.tx(r0[1], env, x.ty)
            hi = self.tx(r0[2], env, x.ty)
            if x.ty is None:
                self.err("range.contains of an untyped literal")
            lo, hi = self.coerce(lo, x.ty), self.coerce(hi, x.ty)
            xt = self.res(x.ty)
            if not is_int(xt) or self.res(lo.ty) != xt or self.res(hi.ty) != xt:
                self.err(f"range.contains on {lo.ty!r} / {hi.ty!r} / {x.ty!r}")
            hop = "≤" if r0[3] else "<"
            p = f"({par(lo.lean)} ≤ {par(x.lean)} ∧ {par(x.lean)} {hop} {par(hi.lean)})"
            return SV(f"decide {p}", "bool", land(lo.ex, hi.ex, x.ex), lo.pre + hi.pre + x.pre, p)
        # user methods that modify the receiver are handled on the place
        rs = self.strip_ref(recv_e)
        recv = self.tx(recv_e, env, None)
        ty = self.res(recv.ty)
        if isinstance(ty, IntVar):
            self.err(f"method `{name}` on a local whose integer type is not known yet")
        if isinstance(ty, tuple) and ty[0] in ("struct", "gen", "tuple"):
            return self.user_method(recv_e, recv, ty, name, args, gen, env, root)
        if is_list(ty) and ty[0] == "simd" and name in SRC_SIMD:
            return self.simd_op(name, recv, args, env, want)
        if is_list(ty):
            if name == "len" and not args:
                ln, n = self.length_of(recv)
                return SV(ln, "usize", recv.ex, recv.pre, lit=n)        # std
            if name == "is_empty" and not args:
                return SV(f"{par(recv.lean)}.isEmpty", "bool", recv.ex, recv.pre)      # std
            if name in ("to_owned", "to_vec", "clone", "iter", "as_slice", "into_iter") and not args:
                return SV(recv.lean, ("list", ty[1]) if name != "iter" else ty, recv.ex, recv.pre)     # std: same elements
        if is_int(ty):
            if name == "to_le_bytes" and not args:
                n = bits(ty) // 8
                u = recv.lean if is_u(ty) else f"({par(recv.lean)} % ({2 ** bits(ty)} : Int)).toNat"
                # std: the N/8 little-endian bytes of the two's-complement representation
                return SV(f"(List.range {n}).map (fun i' => ({u} >>> (8 * i')) % 256)", ("array", "u8", n), recv.ex, recv.pre)
            if name == "unsigned_abs" and not args and is_s(ty):
                uty = "u" + ty[1:]
                return SV(f"{par(recv.lean)}.natAbs", uty if uty in UBITS else "usize", recv.ex, recv.pre)     # std
            if name == "abs" and not args and is_s(ty):
                mn = -(2 ** (SBITS[ty] - 1))
                return SV(f"({par(recv.lean)}.natAbs : Int)", ty, land(recv.ex, f"decide ({par(recv.lean)} ≠ ({mn} : Int))"), recv.pre)
            if name in ("min", "max") and len(args) == 1:
                o = self.coerce(self.tx(args[0], env, ty), ty)
                if self.res(o.ty) != ty:
                    self.err(f".{name}: argument of type {o.ty!r}")
                return SV(f"{name} {par(recv.lean)} {par(o.lean)}", ty, land(recv.ex, o.ex), recv.pre + o.pre)
        if ty == "bool" and name == "then" and len(args) == 1 and args[0][0] == "closure" and not args[0][1]:
            # std: bool::then(f) = if self { Some(f()) } else { None }
            b = self.tx(args[0][2], env, None)
            if b.ty is None:
                self.err("bool::then of an untyped literal")
            if b.pre:
                self.err("bool::then: fallible call inside the closure")
            ct = self.cond_text(recv)
            ex = f"(if {ct} then {b.ex} else true)" if b.ex is not None else None
            return SV(f"(if {ct} then some {par(b.lean)} else none)", ("option", b.ty), land(recv.ex, ex), recv.pre)
        if isinstance(ty, tuple) and ty[0] == "result":
            if name == "and_then" and len(args) == 1 and args[0][0] == "closure" and len(args[0][1]) == 1 and args[0][1][0][0] == "()":
                # std: Result::and_then(|()| e): `e` is evaluated only after an `Ok(())`
                if ty[1] != "unit":
                    self.err("and_then(|()| ..) on a Result whose value is not `()`")
                b = self.tx(args[0][2], env, want)
                bt = self.res(b.ty)
                if not (isinstance(bt, tuple) and bt[0] == "result"):
                    self.err(f"and_then: the closure returns {bt!r}")
                if b.ex is None and all(it[0] == "let" for it in b.pre):
                    inner = self.close(b.pre, b.lean)
                    if "\n" in inner:
                        return SV(f"(match {recv.lean} with\n | none => none\n | some _ =>\n{ind(inner, 3)})", bt, recv.ex, recv.pre)
                    return SV(f"(match {recv.lean} with | none => none | some _ => {inner})", bt, recv.ex, recv.pre)
                v = self.fresh()
                term = f"match {recv.lean} with\n| none => {self.some('none')}\n| some _ =>\n{ind(self.close_val(b))}"
                return SV(v, bt, None, self.items_of(recv) + [("bind", v, term)])
            if name in ("is_ok", "is_err") and not args:
                return SV(f"{par(recv.lean)}.{'isSome' if name == 'is_ok' else 'isNone'}", "bool", recv.ex, recv.pre)
        if isinstance(ty, tuple) and ty[0] == "option":
            if name in ("is_some", "is_none") and not args:
                return SV(f"{par(recv.lean)}.{'isSome' if name == 'is_some' else 'isNone'}", "bool", recv.ex, recv.pre)
        if isinstance(ty, tuple) and ty[0] == "ext" and ty[1] == "md5":
            if name == "clone" and not args:
                return SV(recv.lean, ty, recv.ex, recv.pre)
            if name == "finalize" and not args:
                # md-5: the digest of the bytes hashed so far; NOT interpreted: a parameter of the generated function
                ex_ = ("md5_finalize", "List Nat → List Nat")
                if ex_ not in self.cur.extra:
                    self.cur.extra.append(ex_)
                return SV(f"md5_finalize {par(recv.lean)}", ("digest",), recv.ex, recv.pre)
        if ty == ("digest",) and name == "into" and not args:
            # GenericArray<u8, U16> -> [u8; 16]: the same bytes
            return SV(recv.lean, ("array", "u8", 16), recv.ex, recv.pre)
        self.err(f"method `{name}` on a value of type {ty!r}")

    def user_method(self, recv_e, recv, ty, name, args, gen, env, root):
        what = f".{name}()"
        if ty[0] == "struct":
            view = self.view_of(ty[1])
            if view is not None and name in view["methods"]:
                self.err(f"{what}: a method read through SRC_VIEW used as a value")
            fi = self.lookup_fn(ty[1], name)
            if fi is None:
                self.err(f"method `{ty[1]}::{name}` is not (yet) translated")
            cvals = self.const_args(fi, gen, env, what)
            return self.apply_fn(fi, cvals, self.dict_args_for(fi, what), [recv_e] + list(args), env, root, f"{ty[1]}::{name}")
        if ty[0] == "gen":
            bounds = dict(self.cur.tparams).get(ty[1], [])
            for tr in bounds:
                if tr in self.traits and name in self.traits[tr][0]:
                    sig = self.trait_sig(tr, name, ty[1])
                    sig.lean = self.dict_param(ty[1], tr, name)
                    sig.total = False
                    return self.apply_fn(sig, [], lambda m: [], [recv_e] + list(args), env, root, f"<{ty[1]} as {tr}>::{name}")
            self.err(f"method `{name}` on the type parameter {ty[1]} (bounds {bounds})")
        self.err(f"method `{name}` on a value of type {ty!r}")

    def view_of(self, sname):
        for (fn, s), v in SRC_VIEW.items():
            if s == sname:
                return v
        return None

    # ---------------------------------------------------------------- statements
    def tx_root(self, e, env, want=None):
        """expression at the root of a statement: a call here may modify its `&mut` arguments"""
        x = e
        while x[0] in ("paren", "mexp"):
            x = x[1] if x[0] == "paren" else x[2]
        if x[0] == "call":
            return self.x_call(x, env, want, root=True)
        if x[0] == "mcall":
            return self.x_mcall(x, env, want, root=True)
        if x[0] == "try":
            y = x[1]
            while y[0] in ("paren", "mexp"):
                y = y[1] if y[0] == "paren" else y[2]
            if y[0] in ("call", "mcall"):
                v = (self.x_call if y[0] == "call" else self.x_mcall)(y, env, ("result", want) if want is not None else None, root=True)
                return self.x_try(("try", ("lit_", v)), env, want)
        return self.tx(e, env, want)

    def state_text(self, names, env):
        ls = [env[n].lean for n in names]
        if not ls:
            return "()"
        return ls[0] if len(ls) == 1 else "(" + ", ".join(ls) + ")"

    def payload(self, env, vlean):
        parts = ([vlean] if self.cur.ret != "unit" else []) + [env[n].lean for n, _ in self.cur.muts]
        if not parts:
            return "()"
        return parts[0] if len(parts) == 1 else "(" + ", ".join(parts) + ")"

    def k_ret(self, Kc, env, vlean, _=None):
        if self.cur.ret != "unit" and vlean is None:
            self.err("`return;` in a function that returns a value")
        p = self.payload(env, vlean)
        if Kc.kind == "fn":
            return self.some(p)
        if Kc.kind == "loopF":
            self.fallible()
            return f"some (Flow.ret {par(p)})"
        self.err("`return` / `?` in a position this part does not read (closure body or branch that also falls through)")

    def k_fall(self, Kc, env):
        if Kc.kind == "fn":
            if self.cur.ret != "unit":
                self.err("the function body ends without a value")
            return self.some(self.payload(env, None))
        if Kc.kind == "loopO" or Kc.kind == "join":
            return self.some(self.state_text(Kc.state, env))
        if Kc.kind == "loopF":
            self.fallible()
            return f"some (Flow.next {par(self.state_text(Kc.state, env))})"
        self.err("internal: k_fall")

    def k_wrap_ret(self, Kc, r):
        if Kc.kind == "fn":
            return f"some {r}"
        if Kc.kind == "loopF":
            return f"some (Flow.ret {r})"
        self.err("internal: early return out of a loop in a position that cannot return")

    def finish(self, tail, env, Kc):
        if tail is None:
            return self.k_fall(Kc, env)
        x = tail
        while x[0] in ("paren", "mexp"):
            x = x[1] if x[0] == "paren" else x[2]
        if x[0] == "if":
            return self.st_if(x, env, Kc, None, True)
        if x[0] == "block":
            return self.walk(x[1], 0, env, Kc, lambda env2: self.finish(x[2], env2, Kc), scoped=set())
        if x[0] == "panic":
            self.fallible()
            return "none"
        if x[0] == "return":
            return self.st_return(x, env, Kc)
        if x[0] in ("for", "while", "repeat", "assign", "assert"):
            return self.walk([x], 0, env, Kc, lambda env2: self.k_fall(Kc, env2))
        if Kc.kind != "fn":
            v = self.tx_root(tail, env, "unit")
            if self.res(v.ty) != "unit":
                self.err("a loop body / branch that ends with a value")
            return self.close(self.items_of(v), self.k_fall(Kc, env), Kc, env)
        v = self.tx_root(tail, env, self.cur.ret)
        v = self.ret_value(v)
        return self.close(self.items_of(v), self.k_ret(Kc, env, v.lean if self.cur.ret != "unit" else None), Kc, env)

    def ret_value(self, v):
        rt = self.cur.ret
        if v.ty is None or isinstance(v.ty, IntVar):
            v = self.coerce(v, rt)
        vt = self.res(v.ty)
        if isinstance(vt, tuple) and vt[0] in ("result", "option") and vt[1] is None and isinstance(rt, tuple) and rt[0] == vt[0]:
            return SV(f"(none : {self.lty(rt)})" if v.lean == "none" else v.lean, rt, v.ex, v.pre)
        if isinstance(vt, tuple) and vt[0] == "list" and vt[1] is None and is_list(rt):
            return SV(f"([] : {self.lty(rt)})", rt, v.ex, v.pre)
        if not self.same(vt, rt):
            self.err(f"returned value of type {vt!r}, the function returns {rt!r}")
        return v

    def st_return(self, st, env, Kc):
        if st[1] is None:
            return self.k_ret(Kc, env, None)
        v = self.ret_value(self.tx_root(st[1], env, self.cur.ret))
        return self.close(self.items_of(v), self.k_ret(Kc, env, v.lean if self.cur.ret != "unit" else None), Kc, env)

    def walk(self, stmts, i, env, Kc, end, scoped=None):
        if i == len(stmts):
            return end(env)
        st = stmts[i]
        while st[0] in ("paren", "mexp"):
            st = st[1] if st[0] == "paren" else st[2]
        k = st[0]

        def rest(env2):
            return self.walk(stmts, i + 1, env2, Kc, end, scoped)
        last = (i == len(stmts) - 1)
        if k == "let":
            return self.st_let(st, env, Kc, rest, scoped)
        if k == "assign":
            return self.st_assign(st, env, Kc, rest)
        if k == "if":
            return self.st_if(st, env, Kc, rest, False)
        if k == "for":
            return self.st_for(st, env, Kc, rest)
        if k == "while":
            return self.st_while(st, env, Kc, rest)
        if k == "repeat":
            return self.st_repeat(st, env, Kc, rest)
        if k == "return":
            if not last:
                self.err("statements after `return`")
            return self.st_return(st, env, Kc)
        if k == "panic":
            self.fallible()
            return "none"
        if k == "assert":
            c = self.tx(st[1], env, "bool")
            if self.res(c.ty) != "bool":
                self.err("assert! of a non-boolean")
            return self.close(self.items_of(c) + [("req", c.lean)], rest(env), Kc, env)
        if k == "block":
            inner_scope = set()
            return self.walk(st[1], 0, env, Kc, lambda env2: self.block_end(st, env, env2, rest, inner_scope), scoped=inner_scope)
        if k == "mcall":
            r = self.st_mut_method(st, env, Kc, rest)
            if r is not None:
                return r
        v = self.tx_root(st, env, None)
        vt = self.res(v.ty)
        if isinstance(vt, tuple) and vt[0] == "result":
            self.err("a `Result` value is dropped")
        return self.close(self.items_of(v), rest(env), Kc, env)

    def block_end(self, st, env_outer, env_inner, rest, inner_scope):
        if st[2] is not None:
            self.err("nested block with a value used as a statement")
        env2 = dict(env_inner)
        for n in inner_scope:
            if n in env_outer:
                self.err(f"`let {n}` inside a nested block shadows an outer variable")
            env2.pop(n, None)
        return rest(env2)

    def st_let(self, st, env, Kc, rest, scoped):
        pat, tytoks, init = st[1], st[2], st[3]
        want = self.ty(tytoks, dict(self.cur.tparams))[0] if tytoks is not None else None
        env2 = dict(env)
        bound = [pat[1]] if pat[0] == "bind" else [n for n, _ in pat[1]]
        for n in bound:
            # the values handed on at the end of the enclosing loop body / branch / function are read through these names
            if n in Kc.state:
                self.err(f"`let {n}` shadows a variable the enclosing loop or branch modifies")
            if any(n == m for m, _ in self.cur.muts):
                self.err(f"`let {n}` shadows a `&mut` parameter")
        if pat[0] == "bind":
            name, mut = pat[1], pat[2]
            x = init
            while x[0] == "paren":
                x = x[1]
            if x[0] == "int" and x[2] is None and want is None:
                iv = IntVar(name)
                self.ivars.append(iv)
                env2[name] = Var(mangle(name), iv, mut, "val", x[1])
                if scoped is not None:
                    scoped.add(name)
                return f"let {mangle(name)} : ⟦ivt{iv.id}⟧ := ⟦ivv{iv.id}:{x[1]}⟧\n{rest(env2)}"
            v = self.tx_root(init, env, want)
            if v.ty is None:
                self.err(f"`let {name}`: cannot type the initialiser")
            if want is not None:
                v = self.coerce(v, want)
                if not self.same(v.ty, want):
                    self.err(f"`let {name}: ..` of type {want!r} initialised with {v.ty!r}")
            vt = self.res(v.ty)
            if name == "_":
                return self.close(self.items_of(v), rest(env2), Kc, env)
            if isinstance(vt, tuple) and vt[0] in ("result", "option", "list") and vt[1] is None:
                self.err(f"`let {name}`: cannot type the initialiser")
            env2[name] = Var(mangle(name), want if want is not None else v.ty, mut)
            if scoped is not None:
                scoped.add(name)
            return self.close(self.items_of(v) + [("let", mangle(name), v.lean)], rest(env2), Kc, env)
        if pat[0] == "tuplepat":
            v = self.tx_root(init, env, want)
            vt = self.res(v.ty)
            if not (isinstance(vt, tuple) and vt[0] == "tuple" and len(vt[1]) == len(pat[1])):
                self.err(f"tuple pattern for a value of type {vt!r}")
            names = []
            for (n, mut), t in zip(pat[1], vt[1]):
                if n == "_":
                    names.append("_")
                    continue
                names.append(mangle(n))
                env2[n] = Var(mangle(n), t, mut)
                if scoped is not None:
                    scoped.add(n)
            return self.close(self.items_of(v) + [("let", "(" + ", ".join(names) + ")", v.lean)], rest(env2), Kc, env)
        self.err("pattern of `let`")

    def st_assign(self, st, env, Kc, rest):
        op, lhs, rhs = st[1], st[2], st[3]
        root, path = self.place(lhs, env)
        self.check_mutable(root, env)
        cur = self.place_sv(root, path, env) if (op != "=" or path) else SV(env[root].lean, env[root].ty)
        if op == "=":
            v = self.tx_root(rhs, env, cur.ty if not isinstance(cur.ty, IntVar) or cur.ty.ty is not None else None)
            if isinstance(cur.ty, IntVar) and cur.ty.ty is None:
                if v.ty is not None and not isinstance(v.ty, IntVar):
                    cur = self.coerce(cur, v.ty)
                else:
                    self.err(f"assignment to `{root}` whose integer type is not known yet")
            v = self.coerce(v, cur.ty)
            if not self.same(v.ty, cur.ty):
                self.err(f"assignment of {v.ty!r} to a place of type {cur.ty!r}")
        else:
            r = self.tx(rhs, env, cur.ty if not isinstance(cur.ty, IntVar) else self.res(cur.ty))
            if isinstance(cur.ty, IntVar) and cur.ty.ty is None:
                if r.ty is None or isinstance(r.ty, IntVar):
                    self.err(f"`{root} {op} ..`: the integer type of `{root}` is not known yet")
                cur = self.coerce(cur, r.ty)
            cur.ty = self.res(cur.ty)
            bop = op[:-1]
            if bop in ("<<", ">>"):
                v = self.shift(bop, cur, r)
            else:
                r = self.coerce(r, cur.ty)
                if not is_int(cur.ty) or self.res(r.ty) != cur.ty:
                    self.err(f"`{op}` on {cur.ty!r} / {r.ty!r}")
                v = self.arith(bop, SV(cur.lean, cur.ty), r)
                v = SV(v.lean, v.ty, land(cur.ex, v.ex), cur.pre + v.pre)
        base = SV(env[root].lean, env[root].ty)
        new, uex, upre = self.upd(base, path, v.lean, env)
        items = self.items_of(v) + upre + ([("req", uex)] if uex is not None else []) + [("let", env[root].lean, new)]
        return self.close(items, rest(env), Kc, env)

    MUT_METHODS = ("resize", "clear", "extend_from_slice", "copy_from_slice", "update", "push", "fill", "truncate")

    def st_mut_method(self, st, env, Kc, rest):
        """statement `<place>.<method>(args);` for the std / md-5 methods that modify the receiver, and the methods read
        through SRC_VIEW"""
        recv_e, name, args = st[1], st[2], st[3]
        rs = self.strip_ref(recv_e)
        try_place = rs[0] in ("var", "field", "tupidx", "index")
        if not try_place:
            return None
        root, path = self.place(rs, env)
        cur = self.place_sv(root, path, env) if not (path and path[-1][0] == "slice") else None
        if cur is None:
            parent = self.place_sv(root, path[:-1], env)
            pty = self.res(parent.ty)
            if not is_list(pty):
                self.err("slice of a non-list")
            cty = ("list", pty[1])
        else:
            cty = self.res(cur.ty)
        items = []
        new = None
        if isinstance(cty, tuple) and cty[0] == "struct":
            view = self.view_of(cty[1])
            if view is not None and name in view["methods"]:
                body, reading = view["methods"][name]
                self.view_method_check(cty[1], name, body)
                if args:
                    self.err(f"{cty[1]}::{name}: arguments")
                new = reading.replace("self", par(cur.lean))
                self.check_mutable(root, env) if False else None
                base = SV(env[root].lean, env[root].ty)
                newroot, uex, upre = self.upd(base, path, new, env)
                return self.close(items + upre + [("let", env[root].lean, newroot)], rest(env), Kc, env)
            return None
        if name not in self.MUT_METHODS:
            return None
        self.check_mutable(root, env)
        if is_list(cty):
            et = cty[1]
            if name == "resize" and len(args) == 2:
                # std: Vec::resize(n, x): truncate or pad with x
                n = self.coerce(self.tx(args[0], env, "usize"), "usize")
                x = self.coerce(self.tx(args[1], env, et), et)
                if self.res(n.ty) != "usize" or not self.same(x.ty, et):
                    self.err(f"resize({n.ty!r}, {x.ty!r}) on a vector of {et!r}")
                items = self.items_of(n) + self.items_of(x)
                new = f"vecResize {par(cur.lean)} {par(n.lean)} {par(x.lean)}"
            elif name == "clear" and not args:
                new = "[]"       # std
            elif name == "extend_from_slice" and len(args) == 1:
                x = self.tx(args[0], env, cty)
                if not self.same(x.ty, cty):
                    self.err(f"extend_from_slice({x.ty!r}) on a vector of {et!r}")
                items = self.items_of(x)
                new = f"{par(cur.lean)} ++ {par(x.lean)}"      # std
            elif name == "push" and len(args) == 1:
                x = self.coerce(self.tx(args[0], env, et), et)
                if not self.same(x.ty, et):
                    self.err(f"push({x.ty!r}) on a vector of {et!r}")
                items = self.items_of(x)
                new = f"{par(cur.lean)} ++ [{x.lean}]"          # std
            elif name == "copy_from_slice" and len(args) == 1:
                # std: panics unless the two slices have the same length
                x = self.tx(args[0], env, cty)
                if not is_list(self.res(x.ty)) or not self.same(self.res(x.ty)[1], et):
                    self.err(f"copy_from_slice({x.ty!r}) into a slice of {et!r}")
                items = self.items_of(x)
                if path and path[-1][0] == "slice":
                    val, sex, lo, hi, spre = self.slice_of(parent, path[-1][1], env)
                    items += spre + ([("req", sex)] if sex is not None else [])
                    items.append(("req", f"decide ({par(x.lean)}.length = {par(hi)} - {par(lo)})" if lo != "0" else f"decide ({par(x.lean)}.length = {par(hi)})"))
                else:
                    items.append(("req", f"decide ({par(x.lean)}.length = {par(cur.lean)}.length)"))
                new = x.lean
            else:
                return None
        elif isinstance(cty, tuple) and cty[0] == "ext" and cty[1] == "md5" and name == "update" and len(args) == 1:
            # md-5: Digest::update(bytes) hashes `bytes` after everything hashed so far
            x = self.tx(args[0], env, ("list", "u8"))
            xt = self.res(x.ty)
            if not (is_list(xt) and self.res(xt[1]) == "u8"):
                self.err(f"Md5::update of {xt!r}")
            items = self.items_of(x)
            new = f"{par(cur.lean)} ++ {par(x.lean)}"
        else:
            return None
        base = SV(env[root].lean, env[root].ty)
        newroot, uex, upre = self.upd(base, path, new, env)
        if path and path[-1][0] == "slice":
            uex = None      # already required above
            upre = []
        items = items + upre + ([("req", uex)] if uex is not None else []) + [("let", env[root].lean, newroot)]
        return self.close(items, rest(env), Kc, env)

    def view_method_check(self, sname, name, body):
        if (sname, name) in self.used_view:
            return
        for (fn, s), v in SRC_VIEW.items():
            if s == sname:
                recs = None
                for (tr, ow), (g, fns) in self.impls[fn].items():
                    if tr is None and ow == sname and name in fns:
                        recs = fns[name]
                if recs is None or recs["body"] is None:
                    self.err(f"{fn}: `{sname}::{name}` not found")
                lo, hi = recs["body"]
                got = tok_text(self.files[fn].toks[lo + 1:hi - 1])
                if got != tok_text(T.hdr_lex(body, "SRC_VIEW")):
                    self.err(f"{fn}: body of `{sname}::{name}` is `{got}`, the reading was written for `{body}`")
                ps = [p for p in recs["params"]]
                if ps != [["&", "self"]]:
                    self.err(f"{fn}: `{sname}::{name}` parameters")
        self.used_view.add((sname, name))

    # ---- analysis: which outer variables does a statement list modify; does it return
    def mutated(self, node, env, local):
        out = []

        def add(n):
            if n not in local_stack[-1] and n not in out and n in env and env[n] is not None:
                out.append(n)
        local_stack = [set(local)]

        def root_of(e):
            e = self.strip_ref(e)
            while e[0] in ("field", "tupidx", "index"):
                e = self.strip_ref(e[1])
            return e[1] if e[0] == "var" else None

        def visit(e):
            if isinstance(e, list):
                for x in e:
                    visit(x)
                return
            if not isinstance(e, tuple) or not e:
                return
            k = e[0]
            if k == "block":
                local_stack.append(set(local_stack[-1]))
                for s in e[1]:
                    visit(s)
                if e[2] is not None:
                    visit(e[2])
                local_stack.pop()
                return
            if k == "let":
                visit(e[3])
                pat = e[1]
                if pat[0] == "bind":
                    local_stack[-1].add(pat[1])
                else:
                    for n, _ in pat[1]:
                        local_stack[-1].add(n)
                return
            if k == "assign":
                r = root_of(e[2])
                if r is None:
                    self.err("assignment to something that is not a place")
                add(r)
                visit(e[2])
                visit(e[3])
                return
            if k == "for":
                visit(e[2])
                local_stack.append(set(local_stack[-1]) | set(self.pat_names(e[1])))
                visit(e[3])
                local_stack.pop()
                return
            if k == "closure":
                ps = {(p[0] if isinstance(p, tuple) else p) for p in e[1]}
                local_stack.append(set(local_stack[-1]) | ps)
                visit(e[2])
                local_stack.pop()
                return
            if k == "repeat":
                visit(e[2])
                local_stack.append(set(local_stack[-1]) | {e[1]})
                if e[3] is not None:
                    visit(e[3])
                visit(e[4])
                local_stack.pop()
                return
            if k == "mcall":
                r = root_of(e[1])
                if r is not None:
                    if e[2] in self.MUT_METHODS or self.method_may_mutate(e[2]):
                        add(r)
                visit(e[1])
                for a in e[3]:
                    arg(a)
                return
            if k == "call":
                for a in e[2]:
                    arg(a)
                return
            if k == "mexp":
                visit(e[2])
                return
            if k == "match":
                visit(e[1])
                for alts, guard, body in e[2]:
                    visit(guard)
                    visit(body)
                return
            for x in e[1:]:
                if isinstance(x, (tuple, list)):
                    visit(x)

        def arg(a):
            b = a
            while b[0] == "paren":
                b = b[1]
            r = root_of(b)
            if r is not None and r in env and env[r] is not None:
                # conservative: a `&mut` parameter / local passed on (re-borrowed) may be modified by the callee
                if b[0] == "un" and b[1] == "&mut":
                    add(r)
                elif b[0] == "var" and env[r].mode == "mutref":
                    add(r)
            visit(a)
        visit(node)
        return out

    def is_mut_borrow(self, a):
        # the parser drops `mut` after `&`; a `&place` argument is treated as a possible `&mut` when the place is mutable
        return True

    def method_may_mutate(self, name):
        for fn, imp in self.impls.items():
            for (tr, ow), (g, fns) in imp.items():
                if name in fns and fns[name]["params"] and fns[name]["params"][0] == ["&", "mut", "self"]:
                    return True
        for view in SRC_VIEW.values():
            if name in view["methods"]:
                return True
        return False

    def pat_names(self, p):
        if isinstance(p, str):
            return [p]
        if isinstance(p, tuple) and p[0] == "tup":
            out = []
            for q in p[1]:
                out += self.pat_names(q)
            return out
        return []

    def has_return(self, node):
        if isinstance(node, list):
            return any(self.has_return(x) for x in node)
        if not isinstance(node, tuple) or not node:
            return False
        if node[0] in ("return", "try"):
            return True
        if node[0] == "closure":
            return False
        return any(self.has_return(x) for x in node[1:] if isinstance(x, (tuple, list)))

    def always_returns(self, blk):
        """every path through the block ends in `return` / `panic!`"""
        if blk[0] == "if":
            return blk[3] is not None and self.always_returns(blk[2]) and self.always_returns(blk[3])
        if blk[0] != "block":
            return False
        last = blk[2] if blk[2] is not None else (blk[1][-1] if blk[1] else None)
        if last is None:
            return False
        while last[0] in ("paren", "mexp"):
            last = last[1] if last[0] == "paren" else last[2]
        if last[0] in ("return", "panic"):
            return True
        if last[0] == "if":
            return self.always_returns(last)
        if last[0] == "block":
            return self.always_returns(last)
        return False

    # ---- if
    def branch(self, blk, env, Kc, end):
        """a `{ .. }` branch (or an `else if`) under the continuation `end`"""
        if blk[0] == "if":
            return self.st_if(blk, env, Kc, end, end is None)
        scope = set()
        if end is None:
            return self.walk(blk[1], 0, env, Kc, lambda env2: self.finish(blk[2], env2, Kc), scoped=scope)

        def fin(env2):
            if blk[2] is not None:
                return self.finish_stmt_tail(blk[2], env2, Kc, end, env, scope)
            return end(self.unscope(env2, env, scope))
        return self.walk(blk[1], 0, env, Kc, fin, scoped=scope)

    def unscope(self, env_inner, env_outer, scope):
        env2 = dict(env_inner)
        for n in scope:
            if n in env_outer:
                self.err(f"`let {n}` inside a branch shadows an outer variable")
            env2.pop(n, None)
        return env2

    def finish_stmt_tail(self, tail, env2, Kc, end, env_outer, scope):
        # a branch `{ ..; e }` of an `if` STATEMENT: `e` is a unit expression evaluated for its effect
        return self.walk([tail], 0, env2, Kc, lambda env3: end(self.unscope(env3, env_outer, scope)), scoped=scope)

    def st_if(self, st, env, Kc, rest, tailpos):
        c = self.tx(st[1], env, "bool")
        if self.res(c.ty) != "bool":
            self.err("`if` condition is not a boolean")
        ct = self.cond_text(c)
        then, els = st[2], st[3]
        citems = self.items_of(c)
        if tailpos:
            a = self.branch(then, env, Kc, None)
            b = self.branch(els, env, Kc, None) if els is not None else self.k_fall(Kc, env)
            return self.close(citems, f"if {ct} then\n{ind(a)}\nelse\n{ind(b)}", Kc, env)
        tr = self.always_returns(then)
        er = els is not None and self.always_returns(els)
        if tr and els is None:
            a = self.branch(then, env, Kc, None)
            return self.close(citems, f"if {ct} then\n{ind(a)}\nelse\n{rest(env)}", Kc, env)
        if tr and er:
            self.err("statements after an `if` whose branches both return")
        if tr or er:
            a = self.branch(then, env, Kc, None if tr else rest)
            b = self.branch(els, env, Kc, None if er else rest)
            return self.close(citems, f"if {ct} then\n{ind(a)}\nelse\n{ind(b)}", Kc, env)
        if self.has_return(then) or (els is not None and self.has_return(els)):
            self.err("`if` statement with a `return` / `?` on some paths only")
        M = self.mutated(("block", [then] + ([els] if els is not None else []), None), env, set())
        for n in M:
            self.check_mutable(n, env)
        Kj = K("join", M)
        a = self.branch(then, env, Kj, lambda env2: self.k_fall(Kj, env2))
        b = self.branch(els, env, Kj, lambda env2: self.k_fall(Kj, env2)) if els is not None else self.k_fall(Kj, env)
        stt = self.state_text(M, env)
        if self.total:
            return self.close(citems, f"let {stt} :=\n  if {ct} then\n{ind(a, 4)}\n  else\n{ind(b, 4)}\n{rest(env)}", Kc, env)
        self.fallible()
        return self.close(citems, f"bindO (if {ct} then\n{ind(a, 4)}\n  else\n{ind(b, 4)}) fun {stt} =>\n{rest(env)}", Kc, env)

    # ---- loops
    def st_for(self, st, env, Kc, rest):
        var, it, body = st[1], st[2], st[3]
        if not isinstance(var, str):
            self.err("tuple pattern of `for`")
        x = it
        while x[0] == "paren":
            x = x[1]
        items = []
        if x[0] == "rangeexpr":
            if x[1] is None or x[2] is None:
                self.err("`for` over an open range")
            lo = self.tx(x[1], env, None)
            hi = self.tx(x[2], env, lo.ty)
            if lo.ty is None and hi.ty is not None:
                lo = self.coerce(lo, hi.ty)
            if hi.ty is None and lo.ty is not None:
                hi = self.coerce(hi, lo.ty)
            if lo.ty is None:
                self.err("`for` over a range of untyped literals")
            ety = self.res(lo.ty)
            if isinstance(ety, IntVar) or not is_u(ety) or self.res(hi.ty) != ety:
                self.err(f"`for` over a range of {lo.ty!r} .. {hi.ty!r}")
            items = self.items_of(lo) + self.items_of(hi)
            h = par(hi.lean)
            if x[3]:
                # `a..=b`: b + 1 values when a <= b; (the iterator itself does not overflow)
                if lo.lit == 0:
                    vals = f"List.range ({h} + 1)"
                else:
                    vals = f"List.range' {par(lo.lean)} ({h} + 1 - {par(lo.lean)})"
            elif lo.lit == 0:
                vals = f"List.range {h}"
            else:
                vals = f"List.range' {par(lo.lean)} ({h} - {par(lo.lean)})"
        else:
            v = self.tx(it, env, None)
            vt = self.res(v.ty)
            if not is_list(vt):
                self.err(f"`for` over a value of type {vt!r}")
            items = self.items_of(v)
            vals, ety = v.lean, vt[1]
        return self.loop(var, ety, vals, body, env, Kc, rest, items, None)

    def loop(self, var, ety, vals, body, env, Kc, rest, items, poison):
        M = self.mutated(body, env, {var})
        for n in M:
            self.check_mutable(n, env)
        has_ret = self.has_return(body)
        env_b = dict(env)
        env_b[var] = Var(mangle(var), ety)
        Kb = K("loopF" if has_ret else "loopO", M)
        scope = set()
        b = self.walk(body[1], 0, env_b, Kb, lambda env2: self.finish(body[2], env2, Kb), scoped=scope)
        stt = self.state_text(M, env)
        self.fallible()
        env_r = dict(env)
        for n in scope:
            if n in M:
                self.err(f"`let {n}` inside a loop body shadows a variable the loop modifies")
        if poison is not None:
            env_r[poison] = None
        lam = f"fun {mangle(var)} {stt} =>\n{ind(b, 2)}"
        r_ = rest(env_r)
        if has_ret:
            out = f"bindF (forF {par(vals)} {stt} ({lam})) (fun r' => {self.k_wrap_ret(Kc, chr(114) + chr(39))}) fun {stt} =>\n{r_}"
        else:
            out = self.bind_id(f"forO {par(vals)} {stt} ({lam})", stt, r_)
        return self.close(items, out, Kc, env)

    def st_while(self, st, env, Kc, rest):
        cond, body = st[1], st[2]
        c = cond
        while c[0] == "paren":
            c = c[1]
        if not (c[0] == "bin" and c[1] == "<" and self.strip_ref(c[2])[0] == "var"):
            self.err("`while` whose condition is not `<counter> < <bound>`")
        v = self.strip_ref(c[2])[1]
        if v not in env or env[v] is None or not env[v].mut:
            self.err(f"`while {v} < ..`: `{v}` is not a `let mut` local")
        if body[2] is not None or not body[1]:
            self.err("`while` body")
        lastst = body[1][-1]
        if not (lastst[0] == "assign" and lastst[1] == "+=" and self.strip_ref(lastst[2]) == ("var", v)):
            self.err(f"`while {v} < ..` whose body does not end with `{v} += <step>;`")
        inner = ("block", body[1][:-1], None)
        asg = self.mutated(inner, env, set())
        if v in asg:
            self.err(f"`while {v} < ..`: the counter is modified inside the body")
        bound = self.tx(c[3], env, env[v].ty if not isinstance(env[v].ty, IntVar) else None)
        cnt = SV(env[v].lean, env[v].ty)
        if bound.ty is None:
            self.err("`while`: untyped bound")
        cnt = self.coerce(cnt, bound.ty)
        ty = self.res(cnt.ty)
        bound = self.coerce(bound, ty)
        if not is_u(ty) or self.res(bound.ty) != ty:
            self.err(f"counting loop over {ty!r}")
        step = self.coerce(self.tx(lastst[3], env, ty), ty)
        if self.res(step.ty) != ty:
            self.err("counting loop: type of the step")
        if bound.pre or step.pre:
            self.err("counting loop: fallible call in the bound or the step")
        words = T.wr_words(bound.lean) | T.wr_words(step.lean)
        for n in asg:
            if env[n].lean in words:
                self.err(f"counting loop whose bound or step depends on `{n}`, which the body modifies")
        if env[v].lean in T.wr_words(bound.lean) | T.wr_words(step.lean):
            self.err("counting loop whose bound or step depends on the counter")
        a, b, s = par(cnt.lean), par(bound.lean), par(step.lean)
        items = self.items_of(bound) + self.items_of(step)
        if step.lit is None:
            # a zero step never terminates (reported as `none`, like a panic)
            items.append(("req", f"decide (0 < {s})"))
        elif step.lit <= 0:
            self.err("counting loop whose step is not positive")
        if step.lit == 1:
            # `c += 1` ends at the bound exactly (or is never executed): no overflow; the values are those of `for c in a..b`
            if env[v].lit == 0:
                vals = f"List.range {b}"
            else:
                vals = f"List.range' {a} ({b} - {a})"
        else:
            # the last `counter += step` must not overflow
            items.append(("req", f"decide ({b} ≤ {a} ∨ {a} + (({b} - {a} + ({s} - 1)) / {s}) * {s} < {2 ** UBITS[ty]})"))
            vals = f"countUp {a} {b} {s}"
        return self.loop(v, ty, vals, inner, env, Kc, rest, items, v)

    def st_repeat(self, st, env, Kc, rest):
        ctr, upto, cond, body = st[1], st[2], st[3], st[4]
        n = self.tx(upto, env, "usize")
        if n.lit is None or self.res(n.ty) not in (None, "usize"):
            self.err("repeat!: the repeat count is not a `usize` literal")
        if not 1 <= n.lit <= 32:
            self.err(f"repeat!: `Count<{n.lit}>` does not implement `Repeat` (1..=32)")
        if self.has_return(body) or (cond is not None and self.has_return(cond)):
            self.err("repeat!: `return` / `?` inside the closure body")
        M = self.mutated(body, env, {ctr})
        for m_ in M:
            self.check_mutable(m_, env)
        env_b = dict(env)
        env_b[ctr] = Var(mangle(ctr), "usize")
        Kb = K("loopO", M)
        scope = set()
        b = self.walk(body[1], 0, env_b, Kb, lambda env2: self.finish(body[2], env2, Kb), scoped=scope)
        stt = self.state_text(M, env)
        self.fallible()
        lam = f"fun {mangle(ctr)} {stt} =>\n{ind(b, 2)}"
        if cond is None:
            return self.bind_id(f"forO (List.range {n.lit}) {stt} ({lam})", stt, rest(env))
        c = self.tx(cond, env_b, "bool")
        if self.res(c.ty) != "bool":
            self.err("repeat!: condition")
        cw = T.wr_words(c.lean) | (T.wr_words(c.ex) if c.ex else set())
        for m_ in M:
            if env[m_].lean in cw:
                self.err(f"repeat!: the condition reads `{m_}`, which the body modifies")
        cl = self.close_val(SV(c.lean, "bool", c.ex, c.pre))
        term = f"repeatWhileO\n  (fun {mangle(ctr)} =>\n{ind(cl, 4)})\n  ({ind(lam, 2).lstrip()})\n  (List.range {n.lit}) {stt}"
        return self.bind_id(term, stt, rest(env))

    def bind_id(self, term, pat, rest_text):
        if rest_text in (f"some {pat}", f"some ({pat})"):
            return term
        return f"bindO {par(term)} fun {pat} =>\n{rest_text}"

    # ---------------------------------------------------------------- items
    def index_file(self, fname):
        path = os.path.join(T.REPO, "src", fname)
        if not os.path.exists(path):
            fail(f"{fname}: file not found")
        toks = expand_seq(T.hdr_lex(open(path).read(), fname), fname)
        it = T.HdrItems(fname, toks)
        self.files[fname] = it
        imp = {}
        t = toks
        i, depth = 0, 0
        pending_cfg = True
        while i < len(t):
            x = t[i]
            if x == "#" and t[i + 1:i + 2] == ["["]:
                j = it.group_end(i + 1)
                if t[i + 2] == "cfg":
                    pending_cfg = pending_cfg and self.cfg.eval(t[i + 4:j - 2], f"{fname}: item attribute")
                i = j
                continue
            if x == "#" and t[i + 1:i + 3] == ["!", "["]:
                i = it.group_end(i + 2)
                continue
            if x in ("impl", "trait") and (i == 0 or t[i - 1] in ("pub", ")", "]", "}", ";", "unsafe")):
                j = i + 1
                gen = []
                if x == "impl" and t[j] == "<":
                    d = 0
                    while True:
                        if t[j] == "<":
                            d += 1
                        elif t[j] == ">":
                            d -= 1
                        elif t[j] == ">>":
                            d -= 2
                        gen.append(t[j])
                        j += 1
                        if d <= 0:
                            break
                head = []
                while t[j] not in ("{", "where", ";"):
                    if t[j] in ("(", "["):
                        k2 = it.group_end(j)
                        head += t[j:k2]
                        j = k2
                    else:
                        head.append(t[j])
                        j += 1
                wh = []
                while t[j] not in ("{", ";"):
                    wh.append(t[j])
                    j += 1
                if t[j] == ";":
                    i = j + 1
                    pending_cfg = True
                    continue
                end = it.group_end(j)
                if pending_cfg:
                    fns = {}
                    it.scan_fns(j + 1, end - 1, fns, f"{x} {tok_text(head)}")
                    if x == "trait":
                        name = head[0]
                        self.traits[name] = (fns, fname)
                    else:
                        if "for" in head:
                            k2 = head.index("for")
                            key = (tok_text(head[:k2]), tok_text(head[k2 + 1:]))
                        else:
                            key = (None, tok_text(head))
                        if key in imp:
                            for n_, r_ in fns.items():
                                if n_ in imp[key][1]:
                                    fail(f"{fname}: impl {key}: duplicate fn {n_}")
                                imp[key][1][n_] = r_
                        else:
                            imp[key] = (gen + wh, fns)
                i = end
                pending_cfg = True
                continue
            if x == "{":
                # bodies of other items (fn, mod, struct, macro): skipped
                i = it.group_end(i)
                pending_cfg = True
                continue
            if x == ";":
                pending_cfg = True
            i += 1
        self.impls[fname] = imp

    def fn_header(self, fname, rec):
        """tokens of the function header (`fn name<..>(..) -> .. where ..`)"""
        it = self.files[fname]
        lo = rec["body"][0] if rec["body"] is not None else None
        if lo is None:
            return []
        i = lo
        while i > 0 and not (it.toks[i] == "fn" and it.toks[i + 1] == rec["name"]):
            i -= 1
        return it.toks[i:lo]

    def parse_generics(self, toks, where):
        """`<'a, T: A + B, const N: usize>` (+ where clauses) -> (type params [(name, [bounds])], const params [(name, ty)])"""
        tps, cps = [], []
        t = list(toks)
        wh = []
        if "where" in t:
            k = t.index("where")
            t, wh = t[:k], t[k + 1:]
        if t:
            if t[0] != "<" or t[-1] not in (">",):
                self.err(f"{where}: generic parameter list `{tok_text(t)}`")
            for p in T.wr_split_top(t[1:-1]):
                if not p or p[0].startswith("'"):
                    continue
                if p[0] == "const":
                    if len(p) != 4 or p[2] != ":" or p[3] not in UBITS:
                        self.err(f"{where}: const generic `{tok_text(p)}`")
                    cps.append((p[1], p[3]))
                else:
                    bounds = []
                    if len(p) > 1:
                        if p[1] != ":":
                            self.err(f"{where}: generic parameter `{tok_text(p)}`")
                        for b in T.wr_split_top(p[2:], "+"):
                            bounds.append(tok_text(b))
                    tps.append((p[0], bounds))
        for cl in T.wr_split_top(wh):
            if not cl:
                continue
            if ":" not in cl:
                self.err(f"{where}: where clause `{tok_text(cl)}`")
            k = cl.index(":")
            lhs = tok_text(cl[:k])
            for j, (n, bs) in enumerate(tps):
                if n == lhs:
                    tps[j] = (n, bs + [tok_text(b) for b in T.wr_split_top(cl[k + 1:], "+")])
        return tps, cps

    def signature(self, fname, trait, owner, rec, lean, impl_gen=None):
        fi = FnInfo()
        fi.lean, fi.owner, fi.name, fi.trait = lean, owner, rec["name"], trait
        where = self.where
        header = self.fn_header(fname, rec)
        gt = list(rec["generics"])
        if "where" in header:
            gt = gt + header[header.index("where"):]
        tps, cps = self.parse_generics(gt, where)
        if impl_gen:
            itps, icps = self.parse_generics(impl_gen, where)
            tps, cps = itps + tps, icps + cps
        fi.tparams, fi.all_consts = tps, cps
        # lane count: `simd::LaneCount<N>: simd::SupportedLaneCount`
        for i in range(len(header) - 3):
            if header[i] == "LaneCount" and header[i + 1] == "<" and header[i + 3] == ">" and any(header[i + 2] == n for n, _ in cps):
                if fi.lanes is not None and fi.lanes != header[i + 2]:
                    self.err("two lane-count parameters")
                fi.lanes = header[i + 2]
        tpm = dict(tps)
        for p in rec["params"]:
            if p in (["self"], ["mut", "self"]):
                fi.all_params.append(("self", self.self_ty, "val"))
            elif p == ["&", "self"]:
                fi.all_params.append(("self", self.self_ty, "ref"))
            elif p == ["&", "mut", "self"]:
                fi.all_params.append(("self", self.self_ty, "mutref"))
            else:
                q = list(p)
                bm = False
                if q[0] == "mut":
                    bm = True
                    q = q[1:]
                if len(q) < 3 or q[1] != ":" or not re.fullmatch(r"[a-z_][a-z0-9_]*", q[0]):
                    self.err(f"parameter `{tok_text(p)}`")
                ty, mode = self.ty(q[2:], tpm)
                fi.all_params.append((q[0], ty, mode if not bm else "valmut"))
            if fi.all_params[-1][1] is None:
                self.err("method outside an impl")
        fi.params = [p for p in fi.all_params if p[1] != "str"]
        fi.muts = [(n, ty) for n, ty, mode in fi.params if mode == "mutref"]
        fi.ret = self.ty(rec["ret"], tpm)[0] if rec["ret"] else "unit"
        return fi

    OWNER_LEAN = {"(T,U)": "FillPair"}

    def find_rec(self, fname, trait, owner, name):
        if owner is None:
            rec = self.files[fname].fns.get(name)
            gen = None
        else:
            ent = self.impls[fname].get((trait, owner))
            if ent is None:
                fail(f"{fname}: `impl {(trait + ' for ') if trait else ''}{owner}` not found")
            gen, fns = ent
            rec = fns.get(name)
        if rec is None or rec["body"] is None:
            fail(f"{fname}: fn {(owner + '::') if owner else ''}{name} not found")
        for a in rec["attrs"]:
            if a.startswith("#[cfg("):
                toks = T.hdr_lex(a, fname)
                if not self.cfg.eval(toks[4:-2], f"{fname}: fn {name}"):
                    fail(f"{fname}: fn {name} is disabled by {a} in the verified build")
        return rec, gen

    def translate_fn(self, fname, trait, owner, name):
        self.fname = fname
        self.where = f"{fname}: fn {(owner + '::') if owner else ''}{name}"
        rec, impl_gen = self.find_rec(fname, trait, owner, name)
        itps = []
        if owner is None:
            self.self_ty = None
        elif owner in self.structs:
            self.self_ty = ("struct", owner)
        else:
            # generic owner such as `(T, U)`
            itps, _ = self.parse_generics([x for x in impl_gen], self.where)
            save = self.self_ty = None
            self.self_ty = self.ty(T.hdr_lex(owner, fname), dict(itps))[0]
        lean_owner = self.OWNER_LEAN.get(owner, owner)
        lean = name if owner is None else f"{lean_owner}.{name}"
        if owner in self.structs and any(f == name for f, _ in self.structs[owner]):
            lean += "_fn"        # `Owner.name` is the projection of the field `name`
        fi = self.signature(fname, trait, owner, rec, lean, impl_gen if owner is not None and owner not in self.structs else None)
        it = self.files[fname]
        lo, hi = rec["body"]
        out = None
        for total in (True, False):
            self.total = total
            self.cur = fi
            fi.consts, fi.dicts, fi.extra = [], [], []
            self.ivars = []
            self.uses_default = False
            self.tmp = 0
            self.macros.counter = 0
            ps = SrcParser(it.toks, lo, hi, self.where, self.macros)
            body = ps.block()
            if ps.p != hi:
                self.err("trailing tokens after the function body")
            env = {}
            for n, ty, mode in fi.all_params:
                if ty == "str":
                    env[n] = Var("()", "str")
                else:
                    env[n] = Var(mangle(n), ty, mode == "valmut", "val" if mode == "valmut" else mode)
            try:
                Kf = K("fn")
                txt = self.walk(body[1], 0, env, Kf, lambda env2: self.finish(body[2], env2, Kf), scoped=set())
                out = txt
                break
            except NotTotal:
                continue
        fi.total = self.total
        # literal-initialised locals
        for iv in self.ivars:
            if iv.ty is None:
                if f"ivt{iv.id}⟧" in out:
                    self.err(f"the integer type of `{iv.name}` (initialised with a literal) cannot be determined from its uses")
            else:
                out = out.replace(f"⟦ivt{iv.id}⟧", self.lty(iv.ty))
                out = re.sub(r"⟦ivv%d:(-?\d+)⟧" % iv.id, lambda m: self.lit_lean(int(m.group(1)), iv.ty), out)
        if "⟦" in out:
            self.err("internal: unresolved placeholder")
        # header
        hs = []
        for n, bounds in fi.tparams:
            if any(re.match(r"(Fn|FnMut|FnOnce)\(", b.replace(" ", "")) for b in bounds):
                continue        # the type of a closure parameter: replaced by the function type
            inst = ""
            if any(b.split("<")[0].split("::")[-1] in ("PartialEq", "Eq") for b in bounds):
                inst += f" [BEq {n}]"
            if re.search(r"\bdefault\b", out):
                inst += f" [Inhabited {n}]"
            hs.append(f"{{{n} : Type}}{inst}")
        fi.consts = [c for c in fi.all_consts if c in fi.consts]
        for n, ty in fi.consts:
            hs.append(f"({mangle(n)} : {self.lty(ty)})")
        for ln, lt in fi.extra:
            hs.append(f"({ln} : {lt})")
        for ln, lt, _ in fi.dicts:
            hs.append(f"({ln} : {lt})")
        for n, ty, mode in fi.params:
            hs.append(f"({mangle(n)} : {self.lty(ty)})")
        pt = self.payload_ty(fi.ret, fi.muts)
        rt = pt if fi.total else f"Option {par(pt)}"
        tr = f"{trait} for " if trait else ""
        doc = f"/-- `{tr}{(owner + '::') if owner else ''}{name}` ({fname})"
        if fi.muts:
            doc += "; returns " + ("(value, " if fi.ret != "unit" else "(") + ", ".join(f"final `{n}`" for n, _ in fi.muts) + ")"
        doc += " -/"
        self.fns[(owner, name)] = fi
        return [doc, f"def {lean} " + " ".join(hs) + f" : {rt} :=", ind(out), ""]

    def load_structs(self, fname, names):
        it = self.files[fname]
        defs = T.wr_scan_types(it, set(names))
        for n in names:
            if n not in defs or defs[n][0] != "struct":
                fail(f"{fname}: struct {n} not found")
        # two passes: field types may mention the other structs
        for n in names:
            self.structs[n] = []
            self.struct_file[n] = fname
        for n in names:
            self.where = f"{fname}: struct {n}"
            self.self_ty = ("struct", n)
            view = SRC_VIEW.get((fname, n))
            fields = []
            for f, tt in defs[n][1]:
                if view is not None:
                    want = dict(view["fields"]).get(f)
                    if want is None:
                        continue
                    if tok_text(tt) != tok_text(T.hdr_lex(want, fname)):
                        fail(f"{fname}: struct {n}: field {f} has type `{tok_text(tt)}`, the view was written for `{want}`")
                fields.append((f, self.ty(tt)[0]))
            if view is not None:
                missing = set(dict(view["fields"])) - {f for f, _ in fields}
                if missing:
                    fail(f"{fname}: struct {n}: fields {sorted(missing)} of the view not found")
                for g, lt in view["ghost"]:
                    fields.append((g, ("lean", lt)))
                self.ghost[n] = view["ghost"]
            self.structs[n] = fields


_lty0 = SrcTx.lty


def _lty(self, ty):
    if isinstance(ty, tuple) and ty and ty[0] == "lean":
        return ty[1]
    if ty == ("digest",):
        return "List Nat"
    return _lty0(self, ty)


SrcTx.lty = _lty


SRC_PRELUDE = '''/-- a step that panics unless `c` holds (overflow of `+ - *`, `b ≤ a` for an unsigned `a - b`, division by zero, a shift
amount not below the width, an index or slice bound outside the slice, `assert!`, `.expect()`, `copy_from_slice` lengths) -/
def req {β : Type} (c : Bool) (rest : Option β) : Option β := if c then rest else none

/-- `let v = a; k v` where evaluating `a` may panic -/
def bindO {α β : Type} (a : Option α) (k : α → Option β) : Option β := match a with | none => none | some v => k v

/-- `let v = a?; k v`: `onErr` is the enclosing function returning `Err(_)` at this point -/
def tryO {α β : Type} (a : Option α) (onErr : β) (k : α → β) : β := match a with | none => onErr | some v => k v

/-- `for x in xs { body }` where the body assigns the outer variables `s` -/
def forO {α σ : Type} : List α → σ → (α → σ → Option σ) → Option σ
  | [], s, _ => some s
  | x :: xs, s, f => match f x s with | none => none | some s' => forO xs s' f

/-- outcome of one iteration of a loop whose body contains `return` / `?` -/
inductive Flow (ρ σ : Type) where
  | ret (r : ρ)
  | next (s : σ)

/-- `for x in xs { body }` where the body may `return r` from the enclosing function -/
def forF {α ρ σ : Type} : List α → σ → (α → σ → Option (Flow ρ σ)) → Option (Flow ρ σ)
  | [], s, _ => some (Flow.next s)
  | x :: xs, s, f => match f x s with | none => none | some (Flow.ret r) => some (Flow.ret r) | some (Flow.next s') => forF xs s' f

/-- the statements after such a loop -/
def bindF {ρ σ β : Type} (a : Option (Flow ρ σ)) (onRet : ρ → Option β) (k : σ → Option β) : Option β :=
  match a with | none => none | some (Flow.ret r) => onRet r | some (Flow.next s) => k s

/-- values of the counter of `while c < b { ..; c += k; }` started at `a` (`k > 0`) -/
def countUp (a b k : Nat) : List Nat := (List.range ((b - a + (k - 1)) / k)).map (fun j => a + j * k)

/-- `repeat!(c to n ; while cond => body)` (src/repeat.rs): for c = 0, 1, .. stop at the first c with `!cond` -/
def repeatWhileO {σ : Type} (c : Nat → Option Bool) (f : Nat → σ → Option σ) : List Nat → σ → Option σ
  | [], s => some s
  | t :: ts, s =>
    match c t with
    | none => none
    | some false => some s
    | some true => (match f t s with | none => none | some s' => repeatWhileO c f ts s')

/-- `Vec::resize(n, x)` -/
def vecResize {α : Type} (v : List α) (n : Nat) (x : α) : List α := v.take n ++ List.replicate (n - v.length) x

/-- the unsigned integer whose little-endian bytes are `bs` (`uN::from_le_bytes`; `iN::from_le_bytes` is its `Int.bmod 2^N`) -/
def leNat (bs : List Nat) : Nat := bs.foldr (fun b acc => b + 256 * acc) 0
'''


def emit_source(cinfo=None):
    """-> text of Gen/Source.lean"""
    if cinfo is None:
        cinfo = T.parse_constants()
    cfg = CfgEval(read_features())
    SrcParser.cfg = cfg
    macros = T.VfMacros()
    tx = SrcTx({}, cfg, cinfo, macros)
    for fn in ("arrayutils.rs", "source.rs", "error.rs", "par.rs", "fakesimd.rs", "repeat.rs"):
        tx.index_file(fn)
    macros.load("error.rs", tx.files["error.rs"].toks)
    # built-in reading of `repeat!`: the whole of repeat.rs must be the text it was written for
    got = fingerprint(T.hdr_lex(open(os.path.join(T.REPO, "src", "repeat.rs")).read(), "repeat.rs"))
    if got != SRC_REPEAT_FP:
        fail(f"repeat.rs: the file changed (fingerprint {got}; the reading of `repeat!` was written for {SRC_REPEAT_FP})")
    tx.self_ty = None
    tx.load_structs("source.rs", ["FrameBuf", "Context", "MemSource"])
    tx.load_structs("par.rs", ["ParContext"])
    # every function of the impls this part covers is either translated or listed as skipped
    spec = {}
    for fname, trait, owner, name in SRC_SPEC:
        if owner is not None:
            spec.setdefault((fname, trait, owner), set()).add(name)
    for (fname, trait, owner), names in spec.items():
        ent = tx.impls[fname].get((trait, owner))
        if ent is None:
            fail(f"{fname}: `impl {(trait + ' for ') if trait else ''}{owner}` not found")
        have = set()
        for n, r in ent[1].items():
            off = False
            for a in r["attrs"]:
                if a.startswith("#[cfg("):
                    tk = T.hdr_lex(a, fname)
                    off = off or not cfg.eval(tk[4:-2], f"{fname}: fn {n}")
            if not off:
                have.add(n)
        skip = SRC_SKIP.get((fname, trait, owner), set())
        if have != names | (skip & have):
            fail(f"{fname}: `impl {(trait + ' for ') if trait else ''}{owner}` defines {sorted(have)}, this part was written for "
                 f"{sorted(names | skip)}")
    LEAN_RESERVED.update(n for _, _, o, n in SRC_SPEC if o is None)
    body = []
    for fname, trait, owner, name in SRC_SPEC:
        body += tx.translate_fn(fname, trait, owner, name)
    L = ["-- GENERATED by tools/translate.py (part `source`, tools/translate_source.py) from src/arrayutils.rs, src/source.rs, "
         "src/error.rs, src/par.rs — do not edit",
         "/-",
         "Statement-by-statement mirror of the sample-delivery path: `deinterleave*`, `le_bytes_to_i32s*`, `i32s_to_le_bytes`,",
         "`is_constant`, `find_min_and_max`, `find_max_abs` (arrayutils.rs), `FrameBuf`, `Context`, `MemSource` and their `Fill` /",
         "`Source` / `Seekable` impls (source.rs), the `Fill` impl of `ParContext` (par.rs).",
         "",
         "A Rust function `f(a: A, b: &mut B) -> R` becomes `f (a : A) (b : B) : Option (R × B)`: `none` = the function PANICS in",
         "the dev profile before it returns (or a counting loop with a zero step never ends), otherwise the returned value",
         "together with the final values of the `&mut` parameters (`&mut self` included), in parameter order.  A function whose",
         "mirror contains no panic site, no loop and no fallible call is emitted without the `Option`.  `Result<T, E>` and",
         "`Option<T>` are both `Option T` (error values are dropped).  Statements are mirrored in program order: `req c` = a step",
         "that panics unless `c`; `let x = f(..)` of a fallible `f` = `bindO`; `e?` = `tryO`; `for` / counting `while` /",
         "`repeat!` = `forO` / `forF` (body with `return`) / `repeatWhileO` over the same values, the state being the outer",
         "variables the body assigns; `a[i] = v` = `List.set`; `self.f = v` = a structure update.",
         "",
         "Integers are modelled on `Nat` / `Int`; slices, arrays, `Vec`s and fakesimd vectors on `List`; `usize` is taken as",
         f"{UBITS['usize']} bits.  The domains of the inputs (u8 < 256, i32 range, lengths < 2^{UBITS['usize']}) are NOT built in: theorems carry them",
         "as hypotheses.  Constants of constant.rs are referred to by name (`FlacVerif.Gen.Const.*`).",
         "",
         "The build that is mirrored is the default one: `#[cfg(..)]` attributes are evaluated with the default features of",
         f"Cargo.toml ({', '.join(sorted(cfg.features))}), not a test build, dev profile; `seq!` is expanded token-wise.",
         "-/",
         "import FlacVerif.Gen.Constants",
         "set_option linter.unusedVariables false",
         "namespace FlacVerif.Gen.Source", "", SRC_PRELUDE]
    for n in ("FrameBuf", "Context", "MemSource", "ParContext"):
        fn = tx.struct_file[n]
        view = " (view: only the fields the translated functions use; `sent` = buffers sent to the hashing thread)" if n in tx.ghost else ""
        L.append(f"/-- `struct {n}` ({fn}){view} -/")
        L.append(f"structure {n} where")
        for f, ty in tx.structs[n]:
            L.append(f"  {mangle(f)} : {tx.lty(ty)}")
        L.append("  deriving Repr, DecidableEq, Inhabited")
        L.append("")
    L += body
    L.append("/- NOT translated:")
    for fn, what, why in SRC_UNTRANSLATED:
        L.append(f"   {fn}: {what} — {why}")
    L.append("")
    L.append("   Trusted readings (tools/translate_source.py):")
    L.append("   std: len, is_empty, to_owned/to_vec/clone/iter (same elements), resize, clear, extend_from_slice, push, copy_from_slice,")
    L.append("        slice ranges, std::cmp::{min,max}, iN::from_le_bytes, iN::to_le_bytes, array::from_fn, T::from, unsigned_abs, abs,")
    L.append("        bool::then, Result::and_then(|()| ..), RangeInclusive::contains, vec![x; n], assert!, panic!, format! (value dropped)")
    L.append("   md-5: Md5::new() = nothing hashed, update(bytes) = append, finalize = the parameter `md5_finalize`")
    L.append("   seq-macro: seq!(N in A..=B { .. }) expanded token-wise;  repeat.rs: repeat!(c to N [; while cond] => body), file fingerprint "
             + SRC_REPEAT_FP)
    L.append("   error constructors (value dropped, no panic): " + ", ".join(f"{a}::{b}" for (a, b) in SRC_ERR_CTORS))
    for name in sorted(tx.used_simd):
        L.append(f"   fakesimd Simd<T, N>::{name}  [{SRC_SIMD[name]['body']}]  (N lanes = the `LaneCount<N>` parameter of the caller)")
    for (sname, name) in sorted(tx.used_view):
        v = tx.view_of(sname)
        L.append(f"   {sname}::{name}()  [{v['methods'][name][0]}]  ->  {v['methods'][name][1]}")
    L.append("-/")
    L += ["", "end FlacVerif.Gen.Source", ""]
    return "\n".join(L)


# functions of the covered impls that are deliberately skipped (see SRC_UNTRANSLATED)
SRC_SKIP = {
    ("source.rs", None, "FrameBuf"): {"fill_stereo_with_iter", "raw_slice"},
    ("source.rs", "Seekable", "MemSource"): set(),
    ("par.rs", "Fill", "ParContext"): set(),
}


if __name__ == "__main__":
    print(emit_source())
