#!/usr/bin/env python3
"""Inserts the per-part design notes (notes/<part>_design.md, written with the part) into DESIGN.md between the markers
<!-- PARTS-BEGIN --> / <!-- PARTS-END -->, renumbering their headings 10.13, 10.14, ... in the order below, and appends each
part's mutation table (notes/<part>_mutations.md) as a sub-section."""
import os, re
ROOT = os.path.dirname(os.path.dirname(os.path.abspath(__file__)))
ORDER = ["sink", "utf8", "driver", "par", "lpc", "rice", "parser"]
out = []
n = 13
for part in ORDER:
    p = os.path.join(ROOT, "notes", f"{part}_design.md")
    if not os.path.exists(p):
        continue
    text = open(p).read().strip()
    text = re.sub(r"^#+\s*10\.\d+\s*", f"### 10.{n} ", text, count=1, flags=re.M)
    if not text.startswith("### 10."):
        text = f"### 10.{n} Translator part `{part}`\n\n" + text
    # demote further headings inside the note below the section level
    lines = text.split("\n")
    for i in range(1, len(lines)):
        if re.match(r"^#{1,3}\s", lines[i]):
            lines[i] = "#### " + lines[i].lstrip("#").strip()
    out.append("\n".join(lines))
    m = os.path.join(ROOT, "notes", f"{part}_mutations.md")
    if os.path.exists(m):
        mt = open(m).read().strip()
        mt = re.sub(r"^#{1,4}\s", "##### ", mt, flags=re.M)
        out.append(f"#### 10.{n}.M Source mutations tried against part `{part}`\n\n" + mt)
    n += 1
d = open(os.path.join(ROOT, "DESIGN.md")).read()
b, e = "<!-- PARTS-BEGIN -->", "<!-- PARTS-END -->"
block = b + "\n" + "\n\n".join(out) + "\n" + e
if b in d:
    d = d[:d.index(b)] + block + d[d.index(e) + len(e):]
else:
    d = d.rstrip() + "\n\n" + block + "\n"
open(os.path.join(ROOT, "DESIGN.md"), "w").write(d)
print("assembled", n - 13, "parts")
