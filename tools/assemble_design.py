#!/usr/bin/env python3
"""Inserts the per-part design notes (notes/<part>_design.md, written with the part) into DESIGN.md between the markers
<!-- PARTS-BEGIN --> / <!-- PARTS-END -->, renumbering their headings 10.13, 10.14, ... in the order below, and appends each
part's mutation table (notes/<part>_mutations.md) as a sub-section."""
import os, re
ROOT = os.path.dirname(os.path.dirname(os.path.abspath(__file__)))
ORDER = ["sink", "utf8", "readout", "driver", "par", "lpc", "floatskel", "rice", "parser"]
out = []
n = 13
for part in ORDER:
    p = os.path.join(ROOT, "notes", f"{part}_design.md")
    if not os.path.exists(p):
        continue
    text = open(p).read().strip()
    text = re.sub(r"^#+\s*10\.(\d+|x)\s*", f"### 10.{n} ", text, count=1, flags=re.M)
    if not text.startswith("### 10."):
        text = f"### 10.{n} Translator part `{part}`\n\n" + text
    # demote further headings inside the note below the section level
    lines = text.split("\n")
    for i in range(1, len(lines)):
        if re.match(r"^#{1,3}\s", lines[i]):
            lines[i] = "#### " + lines[i].lstrip("#").strip()
    out.append("\n".join(lines))
    m = os.path.join(ROOT, "notes", f"{part}_mutations.md")
    if os.path.exists(m):
        mt = open(m).read().strip()
        mt = re.sub(r"^#{1,4}\s", "##### ", mt, flags=re.M)
        out.append(f"#### 10.{n}.M Source mutations tried against part `{part}`\n\n" + mt)
    n += 1
d = open(os.path.join(ROOT, "DESIGN.md")).read()
b, e = "<!-- PARTS-BEGIN -->", "<!-- PARTS-END -->"
block = b + "\n" + "\n\n".join(out) + "\n" + e
if b in d:
    d = d[:d.index(b)] + block + d[d.index(e) + len(e):]
else:
    d = d.rstrip() + "\n\n" + block + "\n"
d = re.sub(r"### 10\.\d+ Fourth build session", f"### 10.{n} Fourth build session", d)
d = re.sub(r"Sections 10\.13-10\.\d+, each written together with its part", f"Sections 10.13-10.{n - 1}, each written together with its part", d)
open(os.path.join(ROOT, "DESIGN.md"), "w").write(d)
print("assembled", n - 13, "parts")
