"""Part `lpc` of tools/translate.py: the integer prediction kernels.

  src/component/datatype.rs  `struct QuantizedParameters`, `from_parts`, `order`, `precision`, `shift`, `coefs`
  src/arrayutils.rs          `slice_as_simd_mut`, `unaligned_map_and_update`, `struct SimdVec` + `new`, `len`, `simd_len`,
                             `reset_from_slice`, `resize`, `as_ref`, `as_ref_simd`, `as_mut_simd`, `pack_into_simd_vec`
  src/lpc.rs                 `compute_error_impl`, `compute_error`
  src/coding.rs              `reset_fixed_lpc_errors` (+ the alias `FixedLpcErrors`)
  src/verif_hooks.rs         `compute_error_fits` (cfg(flacenc_verif) accessor: shown to forward only)
  -> lean/FlacVerif/Gen/Lpc.lean (namespace FlacVerif.Gen.Lpc); theorems: Theorems/C01Gen.lean

Float code (`quantize_parameters`, `find_shift`, windows, Levinson ..) is an oracle of the framework and is never translated.
Function bodies are PARSED (lexer / item index / expression + statement parser of translate.py and translate_source.py,
extended here by attributes in front of call arguments) and mirrored statement by statement in the `Option` monad, with the
dev / release convention of Gen/Decode.lean: a function that can panic is `f (dbg : Bool) .. : Option R`, every
profile-dependent operation is a prelude function taking `dbg`.  Operators, operand order, widths (from the declared Rust
types), literals, index expressions, loop ranges, guards and statement order all come from the source text.

TRUSTED BASE of this part (everything that is not read from the source), all in the tables below:
  LP_SIMD      readings of the fakesimd stand-ins (stable build), each with the exact Rust body it was written for
               (compared with src/fakesimd.rs on every run; `def_binop!` bodies through the macro invocation text)
  LP_ALIAS     `slice_as_simd_mut`: the three returned slices are a partition VIEW of the argument (write-back
               `head ++ body.flatten ++ foot`); fingerprint of the function
  LP_UNSAFE    `transmute_and_flatten_simd(_mut)`: raw-pointer casts, read as `List.flatten`; exact body text
  LP_REPEAT_FP fingerprint of src/repeat.rs (`repeat!(c to N => body)` = `for c in 0..N`)
  LP_STD       readings of std items, each marked "std:" where implemented and listed at the end of the generated file
  the generic-bound readings: `T: PrimInt + From<i8> + From<i16>` = a signed integer type of `T` bits (the width is an
  explicit parameter), `T: SimdElement + Default` = a type with a default value, `F: FnMut(&mut A, B)` = `A → B → Option A`.
Anything else raises `fail("<file>.rs: ...")`.
"""
import hashlib
import os
import re

T = None   # tools/translate.py (given by emit_lpc)
S = None   # tools/translate_source.py

LP_REPEAT_FP = "94696835de82e524"

# (file, owner | None, fn) in emission order (callees first)
LP_SPEC = [
    ("datatype.rs", "QuantizedParameters", "from_parts"),
    ("datatype.rs", "QuantizedParameters", "order"),
    ("datatype.rs", "QuantizedParameters", "precision"),
    ("datatype.rs", "QuantizedParameters", "shift"),
    ("datatype.rs", "QuantizedParameters", "coefs"),
    ("arrayutils.rs", None, "slice_as_simd_mut"),
    ("arrayutils.rs", None, "unaligned_map_and_update"),
    ("lpc.rs", None, "compute_error_impl"),
    ("lpc.rs", None, "compute_error"),
    ("verif_hooks.rs", None, "compute_error_fits"),
    ("arrayutils.rs", None, "pack_into_simd_vec"),
    ("arrayutils.rs", "SimdVec", "new"),
    ("arrayutils.rs", "SimdVec", "len"),
    ("arrayutils.rs", "SimdVec", "simd_len"),
    ("arrayutils.rs", "SimdVec", "reset_from_slice"),
    ("arrayutils.rs", "SimdVec", "resize"),
    ("arrayutils.rs", "SimdVec", "as_ref"),
    ("arrayutils.rs", "SimdVec", "as_ref_simd"),
    ("arrayutils.rs", "SimdVec", "as_mut_simd"),
    ("coding.rs", None, "reset_fixed_lpc_errors"),
]

# structs mirrored field by field: name -> file
LP_STRUCTS = {"QuantizedParameters": "datatype.rs", "SimdVec": "arrayutils.rs"}

# functions of other parts that are referred to, not re-translated: name -> (part, Lean name, const generics, param types, ret, fallible)
LP_EXTERN = {"find_max_abs": ("source", "FlacVerif.Gen.Source.find_max_abs", ["N"], [("list", "i32")], "u32", True)}

# fakesimd stand-ins: name -> exact Rust body (token text, whitespace-free)
LP_SIMD = {
    "splat": "Self([v;N])",
    "default": "Self::splat(T::default())",
    "from_array": "Self(array)",
    "from_slice": "Self::from_array(std::array::from_fn(|d|slice[d]))",
    "as_array": "&self.0",
    "as_mut_array": "&mutself.0",
    "rotate_elements_right": "Self(array::from_fn(|i|self.0[(i+N-OFFSET)%N]))",
    "abs": "Self(array::from_fn(|i|num_traits::sign::abs(self.0[i])))",
    "index": "&self.as_array()[index]",
    "index_mut": "&mutself.as_mut_array()[index]",
}
# `def_binop!(Trait, fn, x, y, { body })` / `def_binop_assign!` invocations the operator readings were written for
LP_SIMD_OPS = {
    "Add": "def_binop!(Add,add,x,y,{x.simd_element_add(y)});",
    "Sub": "def_binop!(Sub,sub,x,y,{x.simd_element_sub(y)});",
    "Mul": "def_binop!(Mul,mul,x,y,{x*y});",
    "Shr": "def_binop!(Shr,shr,x,y,{x>>y});",
    "AddAssign": "def_binop_assign!(AddAssign,Add,add_assign,x,y,{x+y});",
}
LP_SIMD_MACROS_FP = {"def_binop": "", "def_binop_assign": ""}   # filled on first run: see check_fakesimd (fingerprints below)
LP_SIMD_ELEMENT = "fnsimd_element_add(self,rhs:Self)->Self{self.wrapping_add(rhs)}fnsimd_element_sub(self,rhs:Self)->Self{self.wrapping_sub(rhs)}"

LP_ALIAS = {"slice_as_simd_mut": dict(
    body='{#[cfg(feature="simd-nightly")]{data.as_simd_mut()}#[cfg(not(feature="simd-nightly"))]{(data,&mut[],&mut[])}}',
    doc="the returned (head, body, foot) are a partition view of `data`: after the last use `data = head ++ body.flatten ++ foot`")}

LP_UNSAFE = {
    "transmute_and_flatten_simd": "{letnewlen=simds.len()*N;unsafe{std::slice::from_raw_parts(simds.as_ptr().cast(),newlen)}}",
    "transmute_and_flatten_simd_mut": "{letnewlen=simds.len()*N;unsafe{std::slice::from_raw_parts_mut(simds.as_mut_ptr().cast(),newlen)}}",
}

LP_UNTRANSLATED = [
    ("lpc.rs", "find_shift, quantize_parameter, quantize_parameters, window / auto-correlation / Levinson / LpcEstimator",
     "floating point: oracle of the framework (announced through `verif_hooks::oracle_push`, checked by part `coding`)"),
    ("datatype.rs", "QuantizedParameters::new / verify", "translated by part `verify` (Gen/Verify.lean)"),
    ("datatype.rs", "QuantizedParameters::coefficient, dequantized, dequantize_parameter", "public accessor not used by the encoder / f32"),
    ("arrayutils.rs", "find_max_abs, simd_map_and_reduce, slice_as_simd", "translated by part `source` (Gen/Source.lean): referred to"),
    ("arrayutils.rs", "SimdVec::from_slice, iter_simd, reset_from_iter_simd, unpack_simds", "used by the float code only"),
    ("coding.rs", "verif_fixed_lpc_errors; verif_hooks::compute_error, fixed_lpc_errors", "cfg(flacenc_verif) forwarders through `reuse!`"),
]

LP_STD = [
    "len() = length; & / &mut / * / iter() / into_iter() / clone() transparent on values; `xs[i]` panics iff i >= len; `xs[a..b]`, `xs[a..]` "
    "panic unless a <= b <= len (sliceR); `&mut xs[a..b]` passed to a callee is written back in place (splice)",
    "slice::fill(v) = every cell v; `xs[a..b].fill(v)` (sliceFill); `xs[a..b].copy_from_slice(src)` panics unless the lengths agree (sliceCopy)",
    "Vec::resize(n, v) keeps the prefix (vecResize); Vec::clear() = []; Vec::new() = []; vec![x; n] = replicate",
    "`for p in xs` over a `&mut [T]` visits the cells in order, `*p = ..` writes the cell (forMutM); "
    "`for (v, p) in a.into_iter().zip(b.iter_mut())` visits the first min(len a, len b) pairs (zipMutM)",
    "`for i in a..b`, `(a..b).map(f).collect()` = the values a, a+1, .., b-1 in order; `iter().map(f).collect()` = List.map",
    "T::from(x) / x.into() between integer types: the lossless widening (the target type is read from the declaration / parameter)",
    "i32::unsigned_abs = natAbs; iN::MAX = 2^(N-1) - 1; T::zero() = 0; T::default() = default",
    "`e as T`: never panics; signed -> unsigned is the residue mod 2^W (castU), narrowing signed keeps the low bits (wrapS)",
    "assert!(c): panics unless c (both profiles); debug_assert!(c): dev profile only",
    "`a op= b` on integers = `a = a op b` with the overflow behaviour of `op`; `b &= c` on bool",
    "`(a, b) = (c, d)`: the right side is evaluated first, then both places are written",
]

LP_PRELUDE = '''/-- `assert!(c)` -/
def req (c : Bool) : Option Unit := if c then some () else none

/-- `xs[i] = v` (panics iff `i >= len`) -/
def setAt {α : Type} (xs : List α) (i : Nat) (v : α) : Option (List α) := if i < xs.length then some (xs.set i v) else none

/-- `&xs[a..b]` (panics unless `a <= b <= len`) -/
def sliceR {α : Type} (xs : List α) (a b : Nat) : Option (List α) :=
  if a ≤ b ∧ b ≤ xs.length then some ((xs.take b).drop a) else none

/-- the cells `a..b` of `xs` replaced by `new` (write-back of a `&mut xs[a..b]` handed to a callee) -/
def splice {α : Type} (xs : List α) (a b : Nat) (new : List α) : List α := xs.take a ++ new ++ xs.drop b

/-- `xs[a..b].fill(v)` -/
def sliceFill {α : Type} (xs : List α) (a b : Nat) (v : α) : Option (List α) :=
  if a ≤ b ∧ b ≤ xs.length then some (xs.take a ++ List.replicate (b - a) v ++ xs.drop b) else none

/-- `xs[a..b].copy_from_slice(src)` (additionally panics unless `src.len() == b - a`) -/
def sliceCopy {α : Type} (xs : List α) (a b : Nat) (src : List α) : Option (List α) :=
  if a ≤ b ∧ b ≤ xs.length ∧ src.length = b - a then some (xs.take a ++ src ++ xs.drop b) else none

/-- `Vec::resize(n, x)` -/
def vecResize {α : Type} (v : List α) (n : Nat) (x : α) : List α := v.take n ++ List.replicate (n - v.length) x

/-- `for x in xs { body }` with the mutated outer variables `s` threaded through the iterations -/
def loopM {α σ : Type} : List α → σ → (α → σ → Option σ) → Option σ
  | [], s, _ => some s
  | x :: xs, s, f => (f x s).bind fun s' => loopM xs s' f

/-- `for p in xs { body }` over a `&mut [T]`: the body returns the new value of the cell and the new state -/
def forMutM {α σ : Type} : List α → σ → (α → σ → Option (α × σ)) → Option (List α × σ)
  | [], s, _ => some ([], s)
  | x :: xs, s, f => (f x s).bind fun r => (forMutM xs r.2 f).bind fun q => some (r.1 :: q.1, q.2)

/-- `for (v, p) in as.into_iter().zip(bs.iter_mut()) { body }`: the first min(len, len) pairs; the other cells of `bs` stay -/
def zipMutM {α β σ : Type} : List α → List β → σ → (α → β → σ → Option (β × σ)) → Option (List β × σ)
  | a :: as, b :: bs, s, f => (f a b s).bind fun r => (zipMutM as bs r.2 f).bind fun q => some (r.1 :: q.1, q.2)
  | _, bs, s, _ => some (bs, s)

/-- the values of `a..b` -/
def rangeL (a b : Nat) : List Nat := List.range' a (b - a)

/-- reinterpretation of the low `w` bits as a two's complement value -/
def wrapS (w : Nat) (v : Int) : Int :=
  let m := v % (2 ^ w : Int)
  if m < (2 ^ (w - 1) : Int) then m else m - (2 ^ w : Int)

/-- `e as uW` of a signed value -/
def castU (w : Nat) (v : Int) : Nat := (v % (2 ^ w : Int)).toNat

/-- result `v` of a `+ - *` or `abs` on `iW`: the dev profile panics when it is out of range, release wraps -/
def arithS (dbg : Bool) (w : Nat) (v : Int) : Option Int :=
  if -(2 ^ (w - 1) : Int) ≤ v ∧ v < (2 ^ (w - 1) : Int) then some v else if dbg then none else some (wrapS w v)

/-- `a + b` on `uW` -/
def addU (dbg : Bool) (w a b : Nat) : Option Nat :=
  if a + b < 2 ^ w then some (a + b) else if dbg then none else some ((a + b) % 2 ^ w)

/-- `a - b` on `uW` -/
def subU (dbg : Bool) (w a b : Nat) : Option Nat :=
  if b ≤ a then some (a - b) else if dbg then none else some ((2 ^ w + a % 2 ^ w - b % 2 ^ w) % 2 ^ w)

/-- `a * b` on `uW` -/
def mulU (dbg : Bool) (w a b : Nat) : Option Nat :=
  if a * b < 2 ^ w then some (a * b) else if dbg then none else some ((a * b) % 2 ^ w)

/-- `a / b` on unsigned values -/
def divU (a b : Nat) : Option Nat := if b = 0 then none else some (a / b)

/-- shift amount (unsigned) of `>>` on a `W`-bit value: the dev profile panics iff `k >= W`, release masks it -/
def shAmt (dbg : Bool) (w k : Nat) : Option Nat := if k < w then some k else if dbg then none else some (k % w)

/-- shift amount given as a signed lane value -/
def shAmtI (dbg : Bool) (w : Nat) (k : Int) : Option Nat :=
  if 0 ≤ k ∧ k < (w : Int) then some k.toNat else if dbg then none else some (k % (w : Int)).toNat

/-- arithmetic shift -/
def shrS (a : Int) (k : Nat) : Int := a / (2 ^ k : Int)

/-- lane-wise map that may panic -/
def zipWithM {α β γ : Type} (f : α → β → Option γ) : List α → List β → Option (List γ)
  | a :: as, b :: bs => (f a b).bind fun c => (zipWithM f as bs).bind fun cs => some (c :: cs)
  | _, _ => some []

/-- fakesimd `Simd * Simd` on `iW` lanes (`x * y`: overflow-checked in dev, wrapping in release) -/
def simdMul (dbg : Bool) (w : Nat) (a b : List Int) : Option (List Int) := zipWithM (fun x y => arithS dbg w (x * y)) a b
/-- fakesimd `Simd + Simd` / `+=` (`simd_element_add` = `wrapping_add`, both profiles) -/
def simdAddW (w : Nat) (a b : List Int) : List Int := List.zipWith (fun x y => wrapS w (x + y)) a b
/-- fakesimd `Simd - Simd` (`simd_element_sub` = `wrapping_sub`, both profiles) -/
def simdSubW (w : Nat) (a b : List Int) : List Int := List.zipWith (fun x y => wrapS w (x - y)) a b
/-- fakesimd `Simd >> Simd` (`x >> y` lane by lane) -/
def simdShr (dbg : Bool) (w : Nat) (a b : List Int) : Option (List Int) :=
  zipWithM (fun x y => (shAmtI dbg w y).bind fun k => some (shrS x k)) a b
/-- fakesimd `Simd::abs` (`num_traits::sign::abs` lane by lane: `iW::MIN` overflows) -/
def simdAbs (dbg : Bool) (w : Nat) (a : List Int) : Option (List Int) := a.mapM (fun x => arithS dbg w (Int.ofNat x.natAbs))
/-- fakesimd `Simd::from_slice` (`from_fn(|d| slice[d])`: panics iff the slice is shorter than `N`) -/
def simdFromSlice {α : Type} (n : Nat) (xs : List α) : Option (List α) := if n ≤ xs.length then some (xs.take n) else none
/-- fakesimd `rotate_elements_right::<OFFSET>` (`from_fn(|i| self.0[(i + N - OFFSET) % N])`; the translator checks 1 <= OFFSET <= N) -/
def simdRotR {α : Type} [Inhabited α] (n off : Nat) (xs : List α) : List α :=
  (List.range n).map fun i => xs.getD ((i + n - off) % n) default

/-- the scalar cells `xs` seen as `n` vectors of `lanes` lanes (write-back through `transmute_and_flatten_simd_mut`) -/
def chunkN {α : Type} (lanes : Nat) : Nat → List α → List (List α)
  | 0, _ => []
  | n + 1, xs => xs.take lanes :: chunkN lanes n (xs.drop lanes)
'''


# ---------------------------------------------------------------------------------------------- helpers

def fail(msg):
    T.fail(msg)


def par(s):
    return T.wr_par(s)


def ttext(toks):
    return "".join(toks)


def fingerprint(toks):
    return hashlib.sha256(" ".join(toks).encode()).hexdigest()[:16]


UB = {"u8": 8, "u16": 16, "u32": 32, "u64": 64, "usize": 64}
SB = {"i8": 8, "i16": 16, "i32": 32, "i64": 64}
LEAN_RESERVED = {"end", "at", "from", "fun", "do", "then", "else", "if", "match", "with", "in", "let", "have", "show", "open",
                 "default", "max", "min", "req", "setAt", "sliceR", "splice", "sliceFill", "sliceCopy", "vecResize", "loopM",
                 "forMutM", "zipMutM", "rangeL", "wrapS", "castU", "arithS", "addU", "subU", "mulU", "divU", "shAmt", "shAmtI",
                 "shrS", "zipWithM", "simdMul", "simdAddW", "simdSubW", "simdShr", "simdAbs", "simdFromSlice", "simdRotR",
                 "chunkN", "dbg", "some", "none", "id"}


def mangle(n):
    return n + "_" if n in LEAN_RESERVED else n


def split_top(toks, sep=","):
    out, cur, d = [], [], 0
    for z in toks:
        if z in ("(", "[", "{", "<"):
            d += 1
        elif z in (")", "]", "}", ">"):
            d -= 1
        elif z == ">>":
            d -= 2
        if z == sep and d == 0:
            out.append(cur)
            cur = []
        else:
            cur.append(z)
    if cur:
        out.append(cur)
    return out


class Pending:
    """type of a value that Rust infers from a later use: an unsuffixed integer literal or the result of `.into()`"""

    def __init__(self, src):
        self.src = src      # None (literal) or the source integer type of `.into()`
        self.ty = None


class Var:
    def __init__(self, lean, ty, mut=False):
        self.lean, self.ty, self.mut = lean, ty, mut


class FnInfo:
    pass


def make_parser():
    class LpcParser(S.SrcParser):
        """SrcParser + `#[inline]` / `#[inline(always)]` in front of a call argument"""

        def sub(self, toks):
            ps = LpcParser(toks, 0, len(toks), self.where, self.macros)
            ps.scan_only = self.scan_only
            ps.depth = self.depth + 1
            return ps

        def args(self):
            self.eat("(")
            save, self.struct_ok = self.struct_ok, True
            out = []
            while self.peek() != ")":
                while self.peek() == "#" and self.peek(1) == "[":
                    if self.peek(2) != "inline":
                        self.err(f"attribute #[{self.peek(2)}..] on a call argument")
                    self.skip_attrs()
                out.append(self.expr())
                if self.peek() == ",":
                    self.p += 1
                elif self.peek() != ")":
                    self.err("argument list")
            self.p += 1
            self.struct_ok = save
            return out

    return LpcParser


class LpcTx:
    def __init__(self, status):
        self.status = status
        self.files = {}       # file -> HdrItems
        self.impls = {}       # (file, owner) -> dict(generics, where, fns)
        self.structs = {}     # name -> dict(fields=[(name, tytoks)], generics=[..])
        self.fns = {}         # (owner | None, name) -> FnInfo
        self.out = []
        self.aliases = {}     # simd type aliases of fakesimd.rs: name -> (elem, lanes)
        self.consts = {}      # per file: alias -> Lean constant
        self.where = ""
        self.counter = 0
        self.steps = None
        self.gen = {}         # generics of the function being translated: name -> kind
        self.owner = None
        self.owner_args = None
        self.used_simd = set()
        self.Parser = make_parser()
        self.finalizers = []
        self.fname = None

    def err(self, msg):
        fail(f"{self.where}: {msg}")

    # ------------------------------------------------------------------ files
    def load(self, fname):
        if fname in self.files:
            return self.files[fname]
        sub = "component" if fname in ("datatype.rs",) else ""
        path = os.path.join(T.REPO, "src", sub, fname)
        if not os.path.exists(path):
            fail(f"{fname}: file not found")
        toks = T.hdr_lex(open(path).read(), fname)
        it = T.HdrItems(fname, toks)
        self.files[fname] = it
        # `use super::constant::<mod>::<NAME> as ALIAS;` / `use super::constant::<mod>::NAME;`
        cs = {}
        for i in range(len(toks) - 8):
            if toks[i] == "use" and toks[i + 1:i + 5] == ["super", "::", "constant", "::"]:
                j = i + 5
                seg = []
                while toks[j] != ";" and toks[j] != "as" and toks[j] != "{":
                    if toks[j] != "::":
                        seg.append(toks[j])
                    j += 1
                if toks[j] == "{" or not seg:
                    continue
                alias = toks[j + 1] if toks[j] == "as" else seg[-1]
                cs[alias] = "FlacVerif.Gen.Const." + "_".join(seg)
        self.consts[fname] = cs
        return it

    def impl_of(self, fname, owner):
        key = (fname, owner)
        if key in self.impls:
            return self.impls[key]
        it = self.load(fname)
        t = it.toks
        found = None
        i = 0
        while i < len(t):
            if t[i] == "impl":
                j = i + 1
                gen = []
                if t[j] == "<":
                    d = 0
                    while True:
                        d += {"<": 1, ">": -1, ">>": -2}.get(t[j], 0)
                        gen.append(t[j])
                        j += 1
                        if d <= 0:
                            break
                k = j
                while t[k] != "{":
                    if t[k] == ";":
                        break
                    k = it.group_end(k) if t[k] in ("(", "[") else k + 1
                head = t[j:k]
                if t[k] == "{" and head and head[0] == owner and "for" not in head and (len(head) == 1 or head[1] in ("<", "where")):
                    wi = head.index("where") if "where" in head else len(head)
                    if found is not None:
                        fail(f"{fname}: several inherent impl blocks for {owner}")
                    end = it.group_end(k)
                    fns = {}
                    it.scan_fns(k + 1, end - 1, fns, f"impl {owner}")
                    found = dict(generics=gen, targs=head[1:wi], where=head[wi + 1:], fns=fns)
                    i = end
                    continue
            i += 1
        if found is None:
            fail(f"{fname}: no inherent impl block for {owner}")
        self.impls[key] = found
        return found

    def load_struct(self, name, fname):
        it = self.load(fname)
        t = it.toks
        for i in range(len(t) - 2):
            if t[i] == "struct" and t[i + 1] == name:
                j = i + 2
                gen = []
                if t[j] == "<":
                    d = 0
                    while True:
                        d += {"<": 1, ">": -1, ">>": -2}.get(t[j], 0)
                        gen.append(t[j])
                        j += 1
                        if d <= 0:
                            break
                while t[j] != "{":
                    if t[j] == ";" or t[j] == "(":
                        fail(f"{fname}: struct {name}: not a struct with named fields")
                    j += 1
                end = it.group_end(j)
                fields = []
                for part in split_top(t[j + 1:end - 1]):
                    # strip attributes and visibility
                    p = list(part)
                    while p and p[0] == "#":
                        q = S.group_end(p, 1, fname)
                        p = p[q:]
                    if p and p[0] == "pub":
                        p = p[1:]
                        if p and p[0] == "(":
                            p = p[S.group_end(p, 0, fname):]
                    if not p:
                        continue
                    if len(p) < 3 or p[1] != ":":
                        fail(f"{fname}: struct {name}: field `{ttext(p)}`")
                    fields.append((p[0], p[2:]))
                self.structs[name] = dict(fields=fields, generics=gen, file=fname)
                return
        fail(f"{fname}: struct {name} not found")

    def where_toks(self, it, rec):
        t = it.toks
        j = rec["body"][0]
        for p in range(len(t) - 1):
            if t[p] == "fn" and t[p + 1] == rec["name"]:
                r2, _ = it.parse_fn(p, [], "")
                if r2["body"] == rec["body"]:
                    k = p + 2
                    if t[k] == "<":
                        d = 0
                        while True:
                            d += {"<": 1, ">": -1, ">>": -2}.get(t[k], 0)
                            k += 1
                            if d <= 0:
                                break
                    k = it.group_end(k)
                    while k < j:
                        if t[k] == "where":
                            return t[k + 1:j]
                        k = it.group_end(k) if t[k] in ("(", "[") else k + 1
                    return []
        fail(f"{it.fname}: fn {rec['name']}: cannot locate its header")

    # ------------------------------------------------------------------ generics
    def parse_generics(self, gtoks, wtoks, what):
        """-> ordered list of (name, kind, info); kinds: const, tint, tdef, tvar, fn"""
        out = []
        bounds = {}
        inner = gtoks[1:-1] if gtoks else []
        names = []
        for part in split_top(inner):
            if not part:
                continue
            if part[0].startswith("'"):
                continue
            if part[0] == "const":
                if len(part) != 4 or part[2] != ":" or part[3] != "usize":
                    fail(f"{what}: const generic `{ttext(part)}`")
                names.append((part[1], "const"))
            else:
                names.append((part[0], "type"))
                if len(part) > 1:
                    if part[1] != ":":
                        fail(f"{what}: generic parameter `{ttext(part)}`")
                    bounds.setdefault(part[0], []).append(part[2:])
        for part in split_top(wtoks):
            if not part:
                continue
            if ":" not in part:
                fail(f"{what}: where clause `{ttext(part)}`")
            c = part.index(":")
            lhs = part[:c]
            if len(lhs) == 1:
                bounds.setdefault(lhs[0], []).append(part[c + 1:])
            else:
                # bounds on composite types: operator availability / lane counts only
                txt = ttext(lhs)
                if not (txt.startswith("simd::LaneCount<") or txt.startswith("simd::Simd<") or txt.startswith("repeat::Count<")):
                    fail(f"{what}: where clause on `{txt}`")
        for n, k in names:
            if k == "const":
                out.append((n, "const", None))
                continue
            bt = "+".join(ttext(b) for b in bounds.get(n, []))
            if "FnMut(" in bt or "Fn(" in bt:
                b = bounds[n][0]
                if len(bounds[n]) != 1 or b[0] not in ("FnMut", "Fn") or b[1] != "(" or b[-1] != ")":
                    fail(f"{what}: closure bound `{bt}`")
                out.append((n, "fn", split_top(b[2:-1])))
            elif "PrimInt" in bt:
                if "From<i8>" not in bt or "From<i16>" not in bt:
                    fail(f"{what}: integer bound `{bt}` (the reading `signed integer type` needs PrimInt + From<i8> + From<i16>)")
                out.append((n, "tint", None))
            elif "Default" in bt:
                out.append((n, "tdef", None))
            else:
                for piece in bt.split("+"):
                    if piece not in ("", "simd::SimdElement"):
                        fail(f"{what}: bound `{piece}` on type parameter {n}")
                out.append((n, "tvar", None))
        return out

    # ------------------------------------------------------------------ types
    def ty(self, toks):
        t = []
        for x in toks:
            if x.startswith("'"):
                continue
            if x == ">>":
                t += [">", ">"]
            else:
                t.append(x)
        while t and t[0] in ("&", "mut"):
            t = t[1:]
        if not t or t == ["(", ")"]:
            return "unit"
        if len(t) == 1:
            x = t[0]
            if x in UB or x in SB or x == "bool":
                return x
            if x in self.gen:
                k = self.gen[x]
                if k == "const":
                    return ("c", x)
                if k in ("tint", "tdef", "tvar"):
                    return (k, x)
                self.err(f"type parameter {x} used as a type")
            if x == "Self":
                return ("st", self.owner, tuple(self.owner_args or ()))
            if x == "QuantizedParameters":
                return ("st", x, ())
            if x in self.type_alias:
                return self.ty(self.type_alias[x])
            if re.fullmatch(r"\d+", x):
                return int(x)
        if t[0] == "[" and t[-1] == "]":
            inner = t[1:-1]
            parts = split_top(inner, ";")
            return ("list", self.ty(parts[0]))
        if t[0] == "Vec" and t[1] == "<" and t[-1] == ">":
            return ("list", self.ty(t[2:-1]))
        if t[0] == "(" and t[-1] == ")":
            return ("tuple", tuple(self.ty(p) for p in split_top(t[1:-1])))
        if t[:2] == ["simd", "::"]:
            t = t[2:]
            if t[0] == "Simd" and t[1] == "<" and t[-1] == ">":
                a = split_top(t[2:-1])
                if len(a) != 2:
                    self.err(f"type `{ttext(toks)}`")
                return ("simd", self.ty(a[0]), self.cval(a[1]))
            if len(t) == 1 and t[0] in self.aliases:
                e, n = self.aliases[t[0]]
                return ("simd", e, n)
        if t[0] == "SimdVec" and t[1] == "<" and t[-1] == ">":
            a = split_top(t[2:-1])
            if len(a) != 2:
                self.err(f"type `{ttext(toks)}`")
            return ("st", "SimdVec", (self.ty(a[0]), self.cval(a[1])))
        self.err(f"type `{ttext(toks)}`")

    def cval(self, toks):
        if len(toks) == 1 and re.fullmatch(r"\d+", toks[0]):
            return int(toks[0])
        if len(toks) == 1 and self.gen.get(toks[0]) == "const":
            return ("c", toks[0])
        self.err(f"const generic argument `{ttext(toks)}`")

    def clean(self, c):
        return c[1] if isinstance(c, tuple) else str(c)

    def lty(self, ty):
        if isinstance(ty, Pending):
            if ty.ty is None:
                self.err("a value whose integer type is never determined")
            return self.lty(ty.ty)
        if ty in UB:
            return "Nat"
        if ty in SB:
            return "Int"
        if ty == "bool":
            return "Bool"
        if ty == "unit":
            return "Unit"
        k = ty[0]
        if k == "tint":
            return "Int"
        if k in ("tdef", "tvar"):
            return ty[1]
        if k in ("list",):
            return "List " + par(self.lty(ty[1]))
        if k == "simd":
            return "List " + par(self.lty(ty[1]))
        if k == "tuple":
            return "(" + " × ".join(self.lty(x) for x in ty[1]) + ")"
        if k == "st":
            if ty[1] == "SimdVec":
                return "SimdVec " + par(self.lty(ty[2][0]))
            return ty[1]
        if k == "fn":
            a = ty[1]
            return " → ".join(par(self.lty(x)) for x in a) + " → Option " + par(self.lty(a[0]))
        self.err(f"no Lean type for {ty!r}")

    def is_u(self, ty):
        return ty in UB

    def is_s(self, ty):
        return ty in SB or (isinstance(ty, tuple) and ty[0] == "tint")

    def width(self, ty):
        if ty in UB:
            return str(UB[ty])
        if ty in SB:
            return str(SB[ty])
        if isinstance(ty, tuple) and ty[0] == "tint":
            return ty[1]
        self.err(f"width of {ty!r}")

    def subst(self, ty, m):
        if isinstance(ty, tuple):
            if ty[0] in ("tint", "tdef", "tvar") and ty[1] in m:
                return m[ty[1]]
            if ty[0] == "c":
                return m.get(ty[1], ty)
            if ty[0] == "list":
                return ("list", self.subst(ty[1], m))
            if ty[0] == "simd":
                return ("simd", self.subst(ty[1], m), self.subst(ty[2], m) if isinstance(ty[2], tuple) else ty[2])
            if ty[0] == "tuple":
                return ("tuple", tuple(self.subst(x, m) for x in ty[1]))
            if ty[0] == "st":
                return ("st", ty[1], tuple(self.subst(x, m) if isinstance(x, tuple) or isinstance(x, str) else x for x in ty[2]))
            if ty[0] == "fn":
                return ("fn", tuple(self.subst(x, m) for x in ty[1]))
        return ty

    def unify(self, formal, actual, m, what):
        if isinstance(actual, Pending):
            return
        if isinstance(formal, tuple) and formal[0] in ("tint", "tdef", "tvar", "c") and formal[1] in self.callee_gen:
            n = formal[1]
            if n in m and m[n] != actual:
                self.err(f"{what}: generic parameter {n} is both {m[n]!r} and {actual!r}")
            m[n] = actual
            return
        if isinstance(formal, tuple) and isinstance(actual, tuple) and formal[0] == actual[0]:
            if formal[0] in ("list",):
                return self.unify(formal[1], actual[1], m, what)
            if formal[0] == "simd":
                self.unify(formal[1], actual[1], m, what)
                return self.unify(formal[2], actual[2], m, what)
            if formal[0] == "tuple" and len(formal[1]) == len(actual[1]):
                for a, b in zip(formal[1], actual[1]):
                    self.unify(a, b, m, what)
                return
            if formal[0] == "st" and formal[1] == actual[1] and len(formal[2]) == len(actual[2]):
                for a, b in zip(formal[2], actual[2]):
                    self.unify(a, b, m, what)
                return
            if formal[0] == "fn":
                return
        if isinstance(formal, tuple) and formal[0] == "list" and isinstance(actual, tuple) and actual[0] == "simd":
            self.err(f"{what}: a Simd value where a slice is expected")
        if formal != actual:
            self.err(f"{what}: type mismatch, expected {formal!r}, found {actual!r}")

    # ------------------------------------------------------------------ steps
    def fresh(self):
        self.counter += 1
        return f"v{self.counter}"

    def bind(self, term, name=None):
        self.fallible = True
        n = name or self.fresh()
        self.steps.append(f"({term}).bind fun {n} =>")
        return n

    def let(self, name, term, ty=None):
        ann = ""
        if ty is not None and not (isinstance(ty, Pending) and ty.ty is None):
            ann = " : " + self.lty(ty)
        self.steps.append(f"let {name}{ann} := {term}")

    def sub_block(self, f):
        """translate a nested body: -> text (steps + final expression given by f())"""
        saved = self.steps
        self.steps = []
        try:
            fin = f()
            return "\n".join(self.steps + [fin])
        finally:
            self.steps = saved

    def ind(self, s, k=4):
        return "\n".join((" " * k + l) if l else l for l in s.split("\n"))

    def res(self, ty):
        return ty.ty if isinstance(ty, Pending) and ty.ty is not None else ty

    def widen_ok(self, src, dst):
        if src in SB:
            return (dst in SB and SB[dst] >= SB[src]) or (isinstance(dst, tuple) and dst[0] == "tint" and src in ("i8", "i16"))
        if src in UB:
            return (dst in UB and UB[dst] >= UB[src]) or (dst in SB and SB[dst] > UB[src])
        return False

    def fix(self, lean, ty, want):
        """resolve a pending type against the expected type"""
        if isinstance(ty, Pending):
            if ty.ty is None:
                if want is None or isinstance(want, Pending):
                    return lean, ty
                if ty.src is None:
                    if not (want in UB or self.is_s(want)):
                        self.err(f"integer literal where {want!r} is expected")
                else:
                    if not self.widen_ok(ty.src, want):
                        self.err(f"`.into()` from {ty.src} to {want!r} is not a lossless widening")
                ty.ty = want
            return lean, ty.ty
        return lean, ty

    def lit(self, v, ty):
        if self.is_s(ty):
            return f"({v} : Int)"
        return str(v)

    # ------------------------------------------------------------------ expressions
    def tx(self, e, env, want=None):
        k = e[0]
        f = getattr(self, "x_" + k, None)
        if f is None:
            self.err(f"expression `{k}`")
        lean, ty = f(e, env, want)
        return self.fix(lean, ty, want)

    def x_paren(self, e, env, want):
        return self.tx(e[1], env, want)

    def x_int(self, e, env, want):
        v, suf = e[1], e[2]
        if suf is not None:
            lim = 2 ** UB[suf] if suf in UB else 2 ** (SB[suf] - 1)
            if v >= lim:
                self.err(f"literal {v}{suf} out of range")
            return self.lit(v, suf), suf
        if want is not None and not isinstance(want, Pending):
            if want in UB or self.is_s(want):
                return self.lit(v, want), want
            self.err(f"integer literal where {want!r} is expected")
        p = Pending(None)
        p.litval = v
        return str(v), p

    def x_boollit(self, e, env, want):
        return ("true" if e[1] else "false"), "bool"

    def x_var(self, e, env, want):
        n = e[1]
        if n in env:
            v = env[n]
            if isinstance(v.ty, Pending) and v.ty.ty is None and v.ty.src is None and self.is_s(want) and want is not None:
                # literal typed later as signed: its Lean text was emitted as a Nat numeral
                self.err(f"`{n}`: an unsuffixed literal used at a signed type")
            return v.lean, v.ty
        cs = self.consts.get(self.fname, {})
        if n in cs:
            return cs[n], "usize"
        if self.gen.get(n) == "const":
            return n, "usize"
        self.err(f"unknown name `{n}`")

    def x_path(self, e, env, want):
        segs = e[1]
        if len(segs) == 2 and segs[0] in SB and segs[1] == "MAX":
            return self.lit(2 ** (SB[segs[0]] - 1) - 1, segs[0]), segs[0]
        self.err(f"path `{'::'.join(segs)}`")

    def x_un(self, e, env, want):
        op = e[1]
        if op in ("*", "&", "&mut"):
            return self.tx(e[2], env, want)
        self.err(f"unary `{op}`")

    def x_cast(self, e, env, want):
        to = e[2]
        inner = e[1]
        while inner[0] == "paren":
            inner = inner[1]
        if inner[0] == "path" and len(inner[1]) == 2 and inner[1][1] == "MAX" and inner[1][0] in SB and to in UB and UB[to] >= SB[inner[1][0]]:
            return str(2 ** (SB[inner[1][0]] - 1) - 1), to
        a, ty = self.tx(e[1], env)
        ty = self.res(ty)
        if isinstance(ty, Pending):
            self.err("cast of a value whose type is not determined")
        if ty == to:
            return a, to
        if ty in UB and to in UB:
            return (a if UB[to] >= UB[ty] else f"({a} % {2 ** UB[to]})"), to
        if ty in SB and to in UB:
            return f"(castU {UB[to]} {par(a)})", to
        if ty in SB and to in SB:
            return (a if SB[to] >= SB[ty] else f"(wrapS {SB[to]} {par(a)})"), to
        self.err(f"cast from {ty!r} to {to}")

    CMP = {"<": "<", "<=": "≤", ">": ">", ">=": "≥", "==": "=", "!=": "≠"}

    def operands(self, e, env, want):
        lits = [x[0] == "int" and x[2] is None for x in (e[2], e[3])]
        if lits[0] and not lits[1]:
            r, rt = self.tx(e[3], env, want)
            l, lt = self.tx(e[2], env, self.res(rt))
        else:
            l, lt = self.tx(e[2], env, want)
            r, rt = self.tx(e[3], env, self.res(lt))
            l, lt = self.fix(l, lt, self.res(rt))
        lt, rt = self.res(lt), self.res(rt)
        if isinstance(lt, Pending) or isinstance(rt, Pending):
            self.err(f"operands of `{e[1]}`: integer type not determined")
        return l, lt, r, rt

    def x_bin(self, e, env, want):
        op = e[1]
        if op in self.CMP:
            l, lt, r, rt = self.operands(e, env, None)
            if lt != rt or not (lt in UB or self.is_s(lt)):
                self.err(f"comparison `{op}` of {lt!r} and {rt!r}")
            return f"decide ({l} {self.CMP[op]} {r})", "bool"
        if op == ">>":
            l, lt = self.tx(e[2], env, want)
            lt = self.res(lt)
            r, rt = self.tx(e[3], env, lt if (isinstance(lt, tuple) and lt[0] == "simd") else "usize")
            rt = self.res(rt)
            if isinstance(lt, tuple) and lt[0] == "simd":
                if rt != lt or not self.is_s(lt[1]):
                    self.err(f"`>>` of {lt!r} by {rt!r}")
                self.simd_op("Shr")
                return self.bind(f"simdShr dbg {self.width(lt[1])} {par(l)} {par(r)}"), lt
            if not self.is_s(lt) or rt not in UB:
                self.err(f"`>>` of {lt!r} by {rt!r}")
            k = self.bind(f"shAmt dbg {self.width(lt)} {par(r)}")
            return f"(shrS {par(l)} {k})", lt
        if op in ("+", "-", "*", "/"):
            l, lt, r, rt = self.operands(e, env, want)
            if lt != rt:
                self.err(f"`{op}` of {lt!r} and {rt!r}")
            if isinstance(lt, tuple) and lt[0] == "simd":
                if not self.is_s(lt[1]):
                    self.err(f"`{op}` on {lt!r}")
                w = self.width(lt[1])
                if op == "*":
                    self.simd_op("Mul")
                    return self.bind(f"simdMul dbg {w} {par(l)} {par(r)}"), lt
                if op == "-":
                    self.simd_op("Sub")
                    return f"(simdSubW {w} {par(l)} {par(r)})", lt
                if op == "+":
                    self.simd_op("Add")
                    return f"(simdAddW {w} {par(l)} {par(r)})", lt
                self.err(f"`{op}` on Simd values")
            if lt in UB:
                if op == "/":
                    if e[3][0] == "int" and e[3][1] != 0:
                        return f"({l} / {r})", lt
                    return self.bind(f"divU {par(l)} {par(r)}"), lt
                fn = {"+": "addU", "-": "subU", "*": "mulU"}[op]
                return self.bind(f"{fn} dbg {UB[lt]} {par(l)} {par(r)}"), lt
            if self.is_s(lt):
                if op == "/":
                    self.err("signed division")
                return self.bind(f"arithS dbg {self.width(lt)} ({l} {op} {r})"), lt
            self.err(f"`{op}` on {lt!r}")
        self.err(f"operator `{op}`")

    def simd_op(self, name):
        self.used_simd.add("op:" + name)

    def x_field(self, e, env, want):
        a, ty = self.tx(e[1], env)
        if not (isinstance(ty, tuple) and ty[0] == "st"):
            self.err(f"field `.{e[2]}` of {ty!r}")
        return f"{a}.{mangle(e[2])}", self.field_ty(ty, e[2])

    def field_ty(self, sty, f):
        sd = self.structs[sty[1]]
        saved = (self.gen, self.owner, self.owner_args)
        try:
            gl = self.parse_generics(sd["generics"], [], f"struct {sty[1]}") if sd["generics"] else []
            self.gen = {n: k for n, k, _ in gl}
            m = {n: a for (n, _, _), a in zip(gl, sty[2])}
            for fn_, ft in sd["fields"]:
                if fn_ == f:
                    return self.subst(self.ty(ft), m)
        finally:
            self.gen, self.owner, self.owner_args = saved
        self.err(f"struct {sty[1]} has no field `{f}`")

    def rng(self, r, base_len, env):
        lo = "0" if r[1] is None else self.tx(r[1], env, "usize")[0]
        if r[2] is None:
            hi = base_len
        else:
            hi = self.tx(r[2], env, "usize")[0]
            if r[3]:
                self.err("inclusive range")
        return lo, hi

    def x_index(self, e, env, want):
        b, bt = self.tx(e[1], env)
        bt = self.res(bt)
        if not (isinstance(bt, tuple) and bt[0] in ("list", "simd")):
            self.err(f"index into {bt!r}")
        if bt[0] == "simd":
            self.used_simd.add("index")
        idx = e[2]
        if idx[0] == "rangeexpr":
            lo, hi = self.rng(idx, f"{par(b)}.length", env)
            return self.bind(f"sliceR {par(b)} {par(lo)} {par(hi)}"), ("list", bt[1])
        i, it = self.tx(idx, env, "usize")
        if self.res(it) != "usize":
            self.err(f"index of type {it!r}")
        return self.bind(f"{par(b)}[{i}]?"), bt[1]

    def x_tuple(self, e, env, want):
        ws = want[1] if isinstance(want, tuple) and want[0] == "tuple" and len(want[1]) == len(e[1]) else [None] * len(e[1])
        vs = [self.tx(x, env, w) for x, w in zip(e[1], ws)]
        vs = [(v, self.res(t)) for v, t in vs]
        return "(" + ", ".join(v for v, _ in vs) + ")", ("tuple", tuple(t for _, t in vs))

    def x_array(self, e, env, want):
        if e[1]:
            self.err("array literal")
        if isinstance(want, tuple) and want[0] == "list":
            return "[]", want
        self.err("empty array / vec![] whose type is not given")

    def x_arrayrep(self, e, env, want):
        v, vt = self.tx(e[1], env, want[1] if isinstance(want, tuple) and want[0] == "list" else None)
        n, nt = self.tx(e[2], env, "usize")
        if isinstance(self.res(vt), Pending):
            self.err("vec![x; n]: element type not determined")
        return f"(List.replicate {par(n)} {v})", ("list", self.res(vt))

    def x_structlit(self, e, env, want):
        segs = e[1]
        name = self.owner if segs == ["Self"] else segs[-1]
        if name not in self.structs or len(segs) != 1:
            self.err(f"struct literal `{'::'.join(segs)}`")
        sty = ("st", name, tuple(self.owner_args or ())) if segs == ["Self"] else ("st", name, ())
        sd = self.structs[name]
        if [f for f, _ in e[2]] != [f for f, _ in sd["fields"]] and sorted(f for f, _ in e[2]) != sorted(f for f, _ in sd["fields"]):
            self.err(f"struct literal of {name}: fields")
        parts = []
        for f, fe in e[2]:
            v, _ = self.tx(fe, env, self.field_ty(sty, f))
            parts.append(f"{mangle(f)} := {v}")
        return f"({{ {', '.join(parts)} }} : {self.lty(sty)})", sty

    def x_block(self, e, env, want):
        # `{ let ..; stmts; tail }` as a value: its statements are mirrored in place (its locals must not shadow outer names)
        if e[2] is None:
            self.err("block without a value")
        for st in e[1]:
            if st[0] == "let":
                for n in self.pat_names(st[1]):
                    if n in env:
                        self.err(f"block-local `{n}` shadows an outer variable")
        self.walk(e[1], env)
        return self.tx(e[2], env, want)

    def x_closure(self, e, env, want):
        self.err("closure outside a call argument")

    def x_assert(self, e, env, want):
        c, ct = self.tx(e[1], env)
        if ct != "bool":
            self.err("assert! of a non-boolean")
        self.bind(f"req (!dbg || {c})" if e[2] else f"req ({c})", "_")
        return "()", "unit"

    # ------------------------------------------------------------------ places
    PROJ_STD = {"as_mut_array": "simd", "as_array": "simd"}

    def root_of(self, e):
        while True:
            k = e[0]
            if k == "var":
                return e[1]
            if k in ("paren",):
                e = e[1]
            elif k == "un" and e[1] in ("*", "&", "&mut"):
                e = e[2]
            elif k in ("index", "field"):
                e = e[1]
            elif k == "mcall" and (e[2] in self.PROJ_STD or e[2] in self.proj_names()):
                e = e[1]
            elif k == "call" and e[1][0] == "var" and e[1][1] in LP_UNSAFE and len(e[2]) == 1:
                e = e[2][0]
            else:
                return None

    def proj_names(self):
        return {fi.name for fi in self.fns.values() if getattr(fi, "proj", None)}

    def place(self, e, env):
        """-> (root, path, type); index expressions are evaluated (steps emitted) in source order"""
        k = e[0]
        if k == "var":
            if e[1] not in env:
                self.err(f"unknown name `{e[1]}`")
            return e[1], [], self.res(env[e[1]].ty)
        if k == "paren":
            return self.place(e[1], env)
        if k == "un" and e[1] in ("*", "&", "&mut"):
            return self.place(e[2], env)
        if k == "field":
            r, p, ty = self.place(e[1], env)
            if not (isinstance(ty, tuple) and ty[0] == "st"):
                self.err(f"field `.{e[2]}` of {ty!r}")
            return r, p + [("field", mangle(e[2]))], self.field_ty(ty, e[2])
        if k == "index":
            r, p, ty = self.place(e[1], env)
            if not (isinstance(ty, tuple) and ty[0] in ("list", "simd")):
                self.err(f"index into {ty!r}")
            if ty[0] == "simd":
                self.used_simd.add("index_mut")
            if e[2][0] == "rangeexpr":
                cur = self.read(r, p, env)
                lo, hi = self.rng(e[2], f"{par(cur)}.length", env)
                return r, p + [("slice", lo, hi)], ("list", ty[1])
            i, it = self.tx(e[2], env, "usize")
            return r, p + [("idx", i)], ty[1]
        if k == "mcall":
            if e[2] in self.PROJ_STD:
                r, p, ty = self.place(e[1], env)
                if not (isinstance(ty, tuple) and ty[0] == "simd"):
                    self.err(f".{e[2]}() of {ty!r}")
                self.used_simd.add(e[2])
                return r, p, ty
            r, p, ty = self.place(e[1], env)
            if isinstance(ty, tuple) and ty[0] == "st":
                fi = self.method(ty, e[2])
                if getattr(fi, "proj", None) and not e[3]:
                    return r, p + [("field", mangle(fi.proj))], self.field_ty(ty, fi.proj)
            self.err(f"`.{e[2]}()` is not a place")
        if k == "call" and e[1][0] == "var" and e[1][1] in LP_UNSAFE and len(e[2]) == 1:
            r, p, ty = self.place(e[2][0], env)
            if not (isinstance(ty, tuple) and ty[0] == "list" and isinstance(ty[1], tuple) and ty[1][0] == "simd"):
                self.err(f"{e[1][1]} of {ty!r}")
            self.check_unsafe(e[1][1])
            return r, p + [("flat", self.clean(ty[1][2]))], ("list", ty[1][1])
        self.err(f"expression `{k}` is not a place")

    def read(self, root, path, env):
        cur = env[root].lean
        for h in path:
            if h[0] == "idx":
                cur = self.bind(f"{par(cur)}[{h[1]}]?")
            elif h[0] == "field":
                cur = f"{cur}.{h[1]}"
            elif h[0] == "slice":
                cur = self.bind(f"sliceR {par(cur)} {par(h[1])} {par(h[2])}")
            elif h[0] == "flat":
                cur = f"{par(cur)}.flatten"
        return cur

    def write(self, root, path, new, env):
        if not env[root].mut:
            self.err(f"`{root}` is not mutable")

        def go(cur, path):
            if not path:
                return new
            h = path[0]
            if h[0] == "idx":
                if len(path) == 1:
                    return self.bind(f"setAt {par(cur)} {par(h[1])} {par(new)}")
                v = self.bind(f"{par(cur)}[{h[1]}]?")
                inner = go(v, path[1:])
                return self.bind(f"setAt {par(cur)} {par(h[1])} {par(inner)}")
            if h[0] == "field":
                inner = go(f"{cur}.{h[1]}", path[1:])
                return f"{{ {cur} with {h[1]} := {inner} }}"
            if h[0] == "slice":
                if len(path) != 1:
                    self.err("write through a sub-slice of a sub-slice")
                return f"splice {par(cur)} {par(h[1])} {par(h[2])} {par(new)}"
            if h[0] == "flat":
                inner = go(f"{par(cur)}.flatten", path[1:])
                return f"chunkN {h[1]} {par(cur)}.length {par(inner)}"
            self.err("place")

        val = go(env[root].lean, path)
        self.let(env[root].lean, val)

    # ------------------------------------------------------------------ calls
    def check_unsafe(self, name):
        it = self.load("arrayutils.rs")
        rec = it.fns.get(name)
        if rec is None or rec["body"] is None:
            fail(f"arrayutils.rs: fn {name} not found")
        got = ttext(it.toks[rec["body"][0]:rec["body"][1]])
        if got != LP_UNSAFE[name]:
            fail(f"arrayutils.rs: fn {name}: body `{got}` is not the text its reading (flatten) was written for")
        self.used_simd.add("unsafe:" + name)

    def method(self, sty, name):
        key = (sty[1], name)
        if key not in self.fns:
            self.err(f"method `{sty[1]}::{name}` is not translated (order of LP_SPEC)")
        return self.fns[key]

    def split_seg(self, seg):
        m = re.fullmatch(r"([A-Za-z_][A-Za-z0-9_]*)(?:<(.*)>)?", seg)
        if not m or (m.group(2) and "<" in m.group(2)):
            self.err(f"path segment `{seg}`")
        return m.group(1), (m.group(2).split(",") if m.group(2) else None)

    def tf_val(self, x):
        """a turbofish argument"""
        if x == "_":
            return None
        if re.fullmatch(r"\d+", x):
            return int(x)
        return self.ty([x])

    def x_call(self, e, env, want):
        callee, args = e[1], e[2]
        if callee[0] == "var" and callee[1] in env and isinstance(env[callee[1]].ty, tuple) and env[callee[1]].ty[0] == "fn":
            return self.call_closure_var(callee[1], args, env)
        segs = [callee[1]] if callee[0] == "var" else (callee[1] if callee[0] == "path" else None)
        if segs is None:
            self.err("call of a computed function value")
        if segs[:2] == ["crate", "lpc"] and len(segs) == 3:
            segs = segs[2:]
        if segs[0] == "simd" and len(segs) == 3:
            tn, targs = self.split_seg(segs[1])
            fnn = segs[2]
            if tn in self.aliases:
                sty = ("simd",) + self.aliases[tn]
            elif tn == "Simd":
                if targs is not None:
                    sty = ("simd", self.tf_val(targs[0]), self.tf_val(targs[1]))
                elif isinstance(want, tuple) and want[0] == "simd":
                    sty = want
                else:
                    sty = None
            else:
                self.err(f"call `{'::'.join(segs)}`")
            self.check_simd(fnn)
            if fnn == "splat" and len(args) == 1:
                if sty is None:
                    self.err("Simd::splat: lane type not determined")
                v, vt = self.tx(args[0], env, sty[1])
                if self.res(vt) != sty[1]:
                    self.err(f"Simd::splat of {vt!r} into {sty!r}")
                return f"(List.replicate {self.clean(sty[2])} {v})", sty
            if fnn == "default" and not args:
                if sty is None:
                    self.err("Simd::default: type not determined")
                return f"(List.replicate {self.clean(sty[2])} {self.default_of(sty[1])})", sty
            if fnn == "from_slice" and len(args) == 1:
                v, vt = self.tx(args[0], env)
                vt = self.res(vt)
                if not (isinstance(vt, tuple) and vt[0] == "list"):
                    self.err(f"Simd::from_slice of {vt!r}")
                n = sty[2] if sty is not None else (want[2] if isinstance(want, tuple) and want[0] == "simd" else None)
                if n is None:
                    cands = {self.clean(c) for c, k in self.gen.items() if k == "const"}
                    if len(cands) != 1:
                        self.err("Simd::from_slice: lane count not determined")
                    n = ("c", cands.pop())
                return self.bind(f"simdFromSlice {self.clean(n)} {par(v)}"), ("simd", vt[1], n)
            self.err(f"call `{'::'.join(segs)}`")
        if len(segs) == 2:
            a, b = segs
            an, _ = self.split_seg(a)
            if b == "from" and (an in SB or an in UB) and len(args) == 1:
                v, vt = self.tx(args[0], env)
                vt = self.res(vt)
                if not self.widen_ok(vt, an):
                    self.err(f"{an}::from({vt!r}) is not a lossless widening")
                return v, an
            if b in ("zero", "default") and not args and (an in SB or an in UB or self.gen.get(an) in ("tint", "tdef")):
                t = an if (an in SB or an in UB) else (self.gen[an], an)
                if b == "zero" and not (an in SB or an in UB or self.gen.get(an) == "tint"):
                    self.err(f"{an}::zero()")
                return self.default_of(t), t
            if a == "Vec" and b == "new" and not args:
                if isinstance(want, tuple) and want[0] == "list":
                    return "[]", want
                self.err("Vec::new(): element type not determined")
            if an == "Self" or an in self.structs:
                owner = self.owner if an == "Self" else an
                key = (owner, b)
                if key in self.fns:
                    sty = ("st", owner, tuple(self.owner_args or ())) if an == "Self" else None
                    return self.call_fn(self.fns[key], None, args, env, None, sty, want)
            self.err(f"call `{a}::{b}`")
        if len(segs) == 1:
            name, targs = self.split_seg(segs[0])
            if name in LP_UNSAFE and len(args) == 1:
                r, p, ty = self.place(e, env)
                return self.read(r, p, env), ty
            if name in LP_EXTERN:
                part, lean, cg, ptys, ret, fal = LP_EXTERN[name]
                if self.status.get(part) != "ok":
                    self.err(f"`{name}` is generated by part `{part}`, which failed")
                if targs is None or len(targs) != len(cg) or len(args) != len(ptys):
                    self.err(f"call of `{name}`")
                vals = []
                for a_, pt in zip(args, ptys):
                    v, vt = self.tx(a_, env, pt)
                    if self.res(vt) != pt:
                        self.err(f"argument of `{name}`: {vt!r}")
                    vals.append(par(v))
                term = f"{lean} {' '.join(str(self.tf_val(x)) for x in targs)} {' '.join(vals)}"
                self.used_extern.add(name)
                return (self.bind(term) if fal else f"({term})"), ret
            if (None, name) in self.fns:
                return self.call_fn(self.fns[(None, name)], None, args, env, targs, None, want)
            self.err(f"call of `{name}`: not translated (order of LP_SPEC) and not in a table")
        self.err(f"call `{'::'.join(segs)}`")

    def default_of(self, t):
        if t in UB:
            return "0"
        if self.is_s(t):
            return "(0 : Int)"
        if isinstance(t, tuple) and t[0] == "tdef":
            return f"(default : {t[1]})"
        self.err(f"default value of {t!r}")

    def call_closure_var(self, name, args, env):
        fty = env[name].ty
        ptys = fty[1]
        if len(args) != len(ptys):
            self.err(f"call of `{name}`: {len(args)} arguments")
        r, p, ty0 = self.place(args[0], env)
        if ty0 != ptys[0]:
            self.err(f"call of `{name}`: first argument {ty0!r}, expected {ptys[0]!r}")
        vals = [self.read(r, p, env)]
        for a_, pt in zip(args[1:], ptys[1:]):
            v, vt = self.tx(a_, env, pt)
            if self.res(vt) != pt:
                self.err(f"call of `{name}`: argument {vt!r}, expected {pt!r}")
            vals.append(v)
        out = self.bind(f"{env[name].lean} {' '.join(par(v) for v in vals)}")
        self.write(r, p, out, env)
        return "()", "unit"

    def is_mut_arg(self, a):
        return a[0] == "un" and a[1] == "&mut"

    def call_fn(self, fi, recv, args, env, targs, self_ty, want):
        what = f"call of `{fi.name}`"
        self.callee_gen = {n for n, _, _ in fi.generics}
        m = {}
        formals = list(fi.params)
        actuals = list(args)
        places = {}
        if fi.self_mode is not None:
            if recv is None:
                self.err(f"{what}: no receiver")
            actuals = [recv] + actuals
        if len(actuals) != len(formals):
            self.err(f"{what}: {len(actuals)} arguments, expected {len(formals)}")
        if targs is not None:
            fg = [g for g in fi.generics if g[0] not in fi.impl_gen]
            if len(targs) != len(fg):
                self.err(f"{what}: {len(targs)} generic arguments, expected {len(fg)}")
            for (n, k, _), x in zip(fg, targs):
                v = self.tf_val(x)
                if v is not None:
                    if k == "fn":
                        self.err(f"{what}: explicit closure type")
                    m[n] = v
        vals = [None] * len(formals)
        # 1. every argument that is not a closure, in source order
        for i, ((pn, pt, mode), a) in enumerate(zip(formals, actuals)):
            if a[0] == "closure":
                continue
            if mode == "mut":
                r, p, ty = self.place(a, env)
                places[i] = (r, p)
                self.unify(pt, ty, m, what)
                vals[i] = self.read(r, p, env)
            else:
                v, vt = self.tx(a, env, None if self.has_gen(pt, m) else self.subst(pt, m))
                vt = self.res(vt)
                if isinstance(vt, Pending):
                    self.err(f"{what}: type of argument `{pn}` not determined")
                self.unify(pt, vt, m, what)
                vals[i] = v
        # 2. const generics Rust infers from the closure bodies: the lane count of the captured Simd values
        for n, k, _ in fi.generics:
            if n not in m and k == "const":
                cands = set()
                for a in actuals:
                    if a[0] == "closure":
                        self.simd_lanes_in(a[2], env, cands)
                if not cands and not any(a[0] == "closure" for a in actuals):
                    # inferred by Rust from a later use: the only const generic in scope (a wrong guess fails the type
                    # checks of the later uses, it cannot pass silently)
                    cands = {("c", c) for c, k2 in self.gen.items() if k2 == "const"}
                if len(cands) != 1:
                    self.err(f"{what}: const generic {n} not determined")
                m[n] = cands.pop()
        for n, k, info in fi.generics:
            if k != "fn" and n not in m:
                self.err(f"{what}: generic parameter {n} not determined")
        # 3. closures
        for i, ((pn, pt, mode), a) in enumerate(zip(formals, actuals)):
            if a[0] == "closure":
                if not (isinstance(pt, tuple) and pt[0] == "fn"):
                    self.err(f"{what}: closure passed for `{pn}`")
                vals[i] = self.closure(a, [self.subst(x, m) for x in pt[1]], env)
        ex = []
        for n, k, _ in fi.generics:
            if k == "const":
                ex.append(self.clean(m[n]))
            elif k == "tint":
                if not self.is_s(m[n]):
                    self.err(f"{what}: {n} = {m[n]!r} is not a signed integer type")
                ex.append(self.width(m[n]))
        term = " ".join([fi.lean] + (["dbg"] if fi.fallible else []) + ex + [par(v) for v in vals])
        muts = [i for i, (_, _, mode) in enumerate(formals) if mode == "mut"]
        ret = self.subst(fi.ret, m)
        comps = ([] if ret == "unit" else ["ret"]) + muts
        if not comps:
            if fi.fallible:
                self.bind(term, "_")
            return "()", "unit"
        out = self.bind(term) if fi.fallible else None
        if out is None:
            out = self.fresh()
            self.let(out, term)
        rv = "()"
        for j, c in enumerate(comps):
            if len(comps) == 1:
                proj = out
            elif j < len(comps) - 1:
                proj = out + ".2" * j + ".1"
            else:
                proj = out + ".2" * j
            if c == "ret":
                rv = proj
            else:
                r, p = places[c]
                self.write(r, p, proj, env)
        return rv, ret

    def has_gen(self, formal, m):
        """the formal type mentions a generic parameter of the callee that is not determined yet"""
        if isinstance(formal, tuple) and formal:
            if formal[0] in ("tint", "tdef", "tvar", "c"):
                return formal[1] not in m
            for x in formal[1:]:
                if isinstance(x, tuple) and self.has_gen(x, m):
                    return True
                if isinstance(x, (list, tuple)) and any(isinstance(y, tuple) and self.has_gen(y, m) for y in x):
                    return True
        return False

    def simd_lanes_in(self, node, env, out):
        if isinstance(node, tuple):
            if node and node[0] == "var" and len(node) == 2 and node[1] in env:
                t = self.res(env[node[1]].ty)
                if isinstance(t, tuple) and t[0] == "simd":
                    out.add(t[2])
            for x in node:
                self.simd_lanes_in(x, env, out)
        elif isinstance(node, list):
            for x in node:
                self.simd_lanes_in(x, env, out)

    def closure(self, c, ptys, env):
        """a closure `|p, x| { .. }` for a parameter `FnMut(&mut A, B)`: `fun p x => .. some p'`"""
        ps, body = c[1], self.norm(c[2])
        if len(ps) != len(ptys) or any(t is not None for _, t in ps):
            self.err("closure parameters")
        env2 = dict(env)
        names = []
        for i, ((n, _), t) in enumerate(zip(ps, ptys)):
            if n in env:
                self.err(f"closure parameter `{n}` shadows an outer variable")
            env2[n] = Var(mangle(n), t, mut=(i == 0))
            names.append(mangle(n))
        if body[0] != "block" or body[2] is not None:
            self.err("closure body must be a block without a value")
        for st in body[1]:
            for w in self.assigned([st]):
                if w != ps[0][0]:
                    self.err(f"closure assigns the captured variable `{w}`")

        def f():
            self.walk(body[1], env2)
            return f"some {names[0]}"
        saved = self.fallible
        txt = self.sub_block(f)
        self.fallible = True if True else saved
        return "fun " + " ".join(names) + " =>\n" + self.ind(txt, 6)

    # ------------------------------------------------------------------ method calls
    MUT_STD = {"fill", "copy_from_slice", "resize", "clear"}

    def x_mcall(self, e, env, want):
        recv, name, args = e[1], e[2], e[3]
        gen = e[4] if len(e) > 4 else None
        # iterator chains
        if name == "collect" and not args and recv[0] == "mcall" and recv[2] == "map" and len(recv[3]) == 1 and recv[3][0][0] == "closure":
            return self.map_collect(recv[1], recv[3][0], env, want)
        sp = self.struct_place_ty(recv, env)
        if sp is not None:
            return self.call_fn(self.method(sp, name), recv, args, env, None, sp, want)
        if name in self.MUT_STD:
            self.mut_std(e, env)
            return "()", "unit"
        if name in ("iter", "into_iter", "iter_mut", "clone", "to_owned", "to_vec") and not args:
            v, t = self.tx(recv, env, want)
            t = self.res(t)
            if not (isinstance(t, tuple) and t[0] == "list"):
                self.err(f".{name}() of {t!r}")
            return v, t
        if name == "into" and not args:
            v, t = self.tx(recv, env)
            t = self.res(t)
            if not (t in SB or t in UB):
                self.err(f".into() of {t!r}")
            if want is not None and not isinstance(want, Pending):
                if not self.widen_ok(t, want):
                    self.err(f"`.into()` from {t} to {want!r} is not a lossless widening")
                return v, want
            return v, Pending(t)
        v, t = self.tx(recv, env)
        t = self.res(t)
        if isinstance(t, Pending):
            self.err(f".{name}() of a value whose type is not determined")
        if name == "len" and not args and isinstance(t, tuple) and t[0] == "list":
            return f"{par(v)}.length", "usize"
        if name == "unsigned_abs" and not args and t in SB:
            return f"{par(v)}.natAbs", "u" + t[1:]
        if isinstance(t, tuple) and t[0] == "simd":
            self.check_simd(name)
            if name == "abs" and not args and t[1] in SB:
                return self.bind(f"simdAbs dbg {SB[t[1]]} {par(v)}"), t
            if name in ("as_array", "as_mut_array") and not args:
                return v, ("list", t[1])
            if name == "rotate_elements_right" and not args and gen is not None and len(gen) == 1 and re.fullmatch(r"\d+", gen[0]):
                off = int(gen[0])
                if not (isinstance(t[2], int) and 1 <= off <= t[2]):
                    self.err(f"rotate_elements_right::<{off}> on {t!r}: needs literal 1 <= OFFSET <= N")
                return f"(simdRotR {t[2]} {off} {par(v)})", t
            self.err(f"Simd method `.{name}`")
        if isinstance(t, tuple) and t[0] == "st":
            fi = self.method(t, name)
            if fi.self_mode == "mut":
                return self.call_fn(fi, recv, args, env, None, t, want)
            return self.call_fn(fi, recv, args, env, None, t, want)
        self.err(f"method `.{name}` of {t!r}")

    def peek_place_ty(self, e, env):
        """type of a place, nothing emitted (None when `e` is not a place)"""
        saved = (self.steps, self.counter, self.fallible, set(self.used_simd))
        self.steps = []
        try:
            return self.place(e, env)[2]
        except T.Unreadable:
            return None
        finally:
            self.steps, self.counter, self.fallible, self.used_simd = saved

    def struct_place_ty(self, recv, env):
        """the receiver is a place of struct type (nothing is emitted): its type, else None"""
        saved = (self.steps, self.counter, self.fallible, set(self.used_simd))
        self.steps = []
        try:
            r, p, ty = self.place(recv, env)
            return ty if isinstance(ty, tuple) and ty[0] == "st" else None
        except T.Unreadable:
            return None
        finally:
            self.steps, self.counter, self.fallible, self.used_simd = saved

    def map_collect(self, base, clo, env, want):
        # std: `<iter>.map(|x| e).collect()` with a pure or fallible `e`, items in order
        if base[0] == "paren" and base[1][0] == "rangeexpr":
            lo, hi = self.rng(base[1], None, env)
            src, ety = f"(rangeL {par(lo)} {par(hi)})", "usize"
        elif base[0] == "mcall" and base[2] in ("iter", "into_iter") and not base[3]:
            v, t = self.tx(base[1], env)
            t = self.res(t)
            if not (isinstance(t, tuple) and t[0] == "list"):
                self.err(f"map over {t!r}")
            src, ety = par(v), t[1]
        else:
            self.err("iterator chain")
        ps = clo[1]
        if len(ps) != 1 or ps[0][1] is not None or ps[0][0] in env:
            self.err("closure of `.map`")
        env2 = dict(env)
        env2[ps[0][0]] = Var(mangle(ps[0][0]), ety)
        wel = want[1] if isinstance(want, tuple) and want[0] == "list" else None
        box = {}

        def f():
            v, t = self.tx(clo[2], env2, wel)
            box["t"] = self.res(t)
            return v
        saved = self.steps
        self.steps = []
        try:
            val = f()
            inner = list(self.steps)
        finally:
            self.steps = saved
        if isinstance(box["t"], Pending):
            self.err("`.map(..).collect()`: element type not determined")
        n = mangle(ps[0][0])
        if inner:
            body = "\n".join(inner + [f"some {par(val)}"])
            return self.bind(f"{src}.mapM fun {n} =>\n{self.ind(body, 6)}"), ("list", box["t"])
        return f"({src}.map fun {n} => {val})", ("list", box["t"])

    def mut_std(self, e, env):
        recv, name, args = e[1], e[2], e[3]
        if recv[0] == "index" and recv[2][0] == "rangeexpr" and name in ("fill", "copy_from_slice") and len(args) == 1:
            r, p, ty = self.place(recv[1], env)
            if not (isinstance(ty, tuple) and ty[0] in ("list", "simd")):
                self.err(f".{name} on {ty!r}")
            if ty[0] == "simd":
                self.used_simd.add("index_mut")
            cur = self.read(r, p, env)
            lo, hi = self.rng(recv[2], f"{par(cur)}.length", env)
            if name == "fill":
                v, vt = self.tx(args[0], env, ty[1])
                out = self.bind(f"sliceFill {par(cur)} {par(lo)} {par(hi)} {par(v)}")
            else:
                v, vt = self.tx(args[0], env, ("list", ty[1]))
                if self.res(vt) != ("list", ty[1]):
                    self.err(f"copy_from_slice of {vt!r} into {ty!r}")
                out = self.bind(f"sliceCopy {par(cur)} {par(lo)} {par(hi)} {par(v)}")
            self.write(r, p, out, env)
            return
        r, p, ty = self.place(recv, env)
        if not (isinstance(ty, tuple) and ty[0] == "list"):
            self.err(f".{name} on {ty!r}")
        cur = self.read(r, p, env)
        if name == "fill" and len(args) == 1:
            v, vt = self.tx(args[0], env, ty[1])
            new = f"List.replicate {par(cur)}.length {par(v)}"
        elif name == "clear" and not args:
            new = "[]"
        elif name == "resize" and len(args) == 2:
            n, nt = self.tx(args[0], env, "usize")
            v, vt = self.tx(args[1], env, ty[1])
            if self.res(vt) != ty[1]:
                self.err(f"resize with {vt!r} on {ty!r}")
            new = f"vecResize {par(cur)} {par(n)} {par(v)}"
        elif name == "copy_from_slice" and len(args) == 1:
            v, vt = self.tx(args[0], env, ty)
            self.bind(f"req (decide ({par(v)}.length = {par(cur)}.length))", "_")
            new = v
        else:
            self.err(f".{name}({len(args)} arguments)")
        self.write(r, p, new, env)

    # ------------------------------------------------------------------ fakesimd checks
    def check_simd(self, name):
        if name not in LP_SIMD:
            self.err(f"fakesimd: no reading for `{name}`")
        self.used_simd.add(name)

    # ------------------------------------------------------------------ statements
    def pat_names(self, p):
        if p[0] == "bind":
            return [p[1]]
        if p[0] == "tuplepat":
            return [n for n, _ in p[1]]
        self.err("pattern")

    def assigned(self, node):
        """names of the variables a statement list may write (syntactic)"""
        out = []

        def add(e):
            r = self.root_of(e)
            if r is not None and r not in out:
                out.append(r)

        def visit(n):
            if isinstance(n, list):
                for x in n:
                    visit(x)
                return
            if not isinstance(n, tuple) or not n:
                return
            k = n[0]
            if k == "assign":
                if n[2][0] == "tuple":
                    for x in n[2][1]:
                        add(x)
                else:
                    add(n[2])
            elif k == "mcall":
                if n[2] in self.MUT_STD or any(fi.name == n[2] and fi.self_mode == "mut" for fi in self.fns.values()):
                    add(n[1])
            elif k == "call":
                c = n[1]
                if c[0] == "var":
                    nm = c[1].split("<")[0]
                    fi = self.fns.get((None, nm))
                    if fi is not None:
                        for (pn, pt, mode), a in zip(fi.params, n[2]):
                            if mode == "mut":
                                add(a)
                    elif n[2]:
                        add(n[2][0])      # a closure parameter `f(p, ..)`: `p` is its `&mut` argument
                for a in n[2]:
                    if a[0] == "un" and a[1] == "&mut":
                        add(a[2])
            for x in n[1:]:
                if isinstance(x, (tuple, list)):
                    visit(x)
        visit(node)
        return out

    def norm(self, blk):
        """a loop in tail position of a block is a statement"""
        if blk[0] == "block" and blk[2] is not None and blk[2][0] in ("for", "repeat"):
            return ("block", blk[1] + [blk[2]], None)
        return blk

    def walk(self, stmts, env):
        for st in stmts:
            self.stmt(st, env)

    def stmt(self, st, env):
        k = st[0]
        if k == "let":
            return self.st_let(st, env)
        if k == "assign":
            return self.st_assign(st, env)
        if k == "for":
            return self.st_for(st, env)
        if k == "repeat":
            if st[3] is not None:
                self.err("repeat! with a `while` condition")
            return self.st_for(("for", st[1], ("rangeexpr", ("int", 0, None), st[2], False), st[4]), env)
        if k in ("mcall", "call", "assert"):
            v, t = self.tx(st, env)
            if t != "unit":
                self.err("value of an expression statement is dropped")
            return
        self.err(f"statement `{k}`")

    def declare(self, env, name, lean_val, ty, mut):
        if name == "_":
            self.err("`_` binding")
        if re.fullmatch(r"v\d+", name):
            self.err(f"local `{name}` collides with the translator's temporaries")
        n = mangle(name)
        self.let(n, lean_val, ty)
        env[name] = Var(n, ty, mut)

    def st_let(self, st, env):
        pat, tytoks, e = st[1], st[2], st[3]
        want = self.ty(tytoks) if tytoks is not None else None
        # the alias table: `let (a, b, c) = slice_as_simd_mut(x)`
        ee = e
        if ee[0] == "call" and ee[1][0] == "var" and ee[1][1] in LP_ALIAS:
            if pat[0] != "tuplepat" or len(pat[1]) != 3 or len(ee[2]) != 1 or ee[2][0][0] != "var":
                self.err(f"use of `{ee[1][1]}`")
            src = ee[2][0][1]
            fi = self.fns[(None, ee[1][1])]
            v, t = self.call_fn(fi, None, ee[2], env, None, None, None)
            names = [mangle(n) for n, _ in pat[1]]
            self.steps.append(f"let ({', '.join(names)}) := {v}")
            for (n, _), ct in zip(pat[1], t[1]):
                env[n] = Var(mangle(n), ct, True)
            if not env[src].mut:
                self.err(f"`{src}` is not mutable")
            self.finalizers.append((src, [n for n, _ in pat[1]]))
            return
        v, t = self.tx(e, env, want)
        t = self.res(t)
        if want is not None and t != want:
            self.err(f"`let`: declared {want!r}, found {t!r}")
        if pat[0] == "bind":
            self.declare(env, pat[1], v, t, pat[2])
        else:
            self.err("tuple pattern in `let`")

    def st_assign(self, st, env):
        op, lhs, rhs = st[1], st[2], st[3]
        if op == "=" and lhs[0] == "tuple":
            if rhs[0] != "tuple" or len(rhs[1]) != len(lhs[1]):
                self.err("tuple assignment")
            vals = []
            for x, lx in zip(rhs[1], lhs[1]):
                v, t = self.tx(x, env, self.peek_place_ty(lx, env))
                tmp = self.fresh()
                self.let(tmp, v)
                vals.append((tmp, self.res(t)))
            for x, (v, t) in zip(lhs[1], vals):
                r, p, ty = self.place(x, env)
                if ty != t:
                    self.err(f"tuple assignment of {t!r} to {ty!r}")
                self.write(r, p, v, env)
            return
        r, p, ty = self.place(lhs, env)
        if op == "=":
            v, t = self.tx(rhs, env, ty)
            if self.res(t) != ty:
                self.err(f"assignment of {t!r} to {ty!r}")
            return self.write(r, p, v, env)
        cur = self.read(r, p, env)
        if op == "&=" and ty == "bool":
            v, t = self.tx(rhs, env, "bool")
            if t != "bool":
                self.err("`&=` with a non-boolean")
            return self.write(r, p, f"({cur} && {v})", env)
        if op in ("+=", "-=", "*=") and (ty in UB or self.is_s(ty)):
            tmp_env = dict(env)
            tmp_env["\0cur"] = Var(cur, ty)
            v, t = self.x_bin(("bin", op[0], ("var", "\0cur"), rhs), tmp_env, ty)
            return self.write(r, p, v, env)
        if op == "+=" and isinstance(ty, tuple) and ty[0] == "simd" and self.is_s(ty[1]):
            v, t = self.tx(rhs, env, ty)
            if self.res(t) != ty:
                self.err(f"`+=` of {t!r} to {ty!r}")
            self.simd_op("AddAssign")
            self.simd_op("Add")
            return self.write(r, p, f"(simdAddW {self.width(ty[1])} {par(cur)} {par(v)})", env)
        self.err(f"`{op}` on {ty!r}")

    def st_for(self, st, env):
        pat, it, body = st[1], st[2], self.norm(st[3])
        if body[0] != "block" or body[2] is not None:
            self.err("loop body")
        declared = set()
        for s_ in body[1]:
            if s_[0] == "let":
                declared |= set(self.pat_names(s_[1]))
        pnames = [pat] if isinstance(pat, str) else [x for x in pat[1]]
        state = [n for n in self.assigned(body[1]) if n in env and n not in declared and n not in pnames]
        spat = "()" if not state else (mangle(state[0]) if len(state) == 1 else "(" + ", ".join(mangle(n) for n in state) + ")")
        sval = "()" if not state else (env[state[0]].lean if len(state) == 1 else "(" + ", ".join(env[n].lean for n in state) + ")")
        for n in state:
            if not env[n].mut:
                self.err(f"loop assigns `{n}`, which is not mutable")
        env2 = dict(env)
        kind = None
        if it[0] == "rangeexpr":
            if not isinstance(pat, str):
                self.err("pattern of a range loop")
            lo, hi = self.rng(it, None, env)
            env2[pat] = Var(mangle(pat), "usize")
            head = f"loopM (rangeL {par(lo)} {par(hi)}) {sval} fun {mangle(pat)} {spat} =>"
            fin = f"some {spat}"
            kind = "range"
        elif it[0] == "var" and isinstance(pat, str) and it[1] in env and env[it[1]].mut and \
                isinstance(self.res(env[it[1]].ty), tuple) and self.res(env[it[1]].ty)[0] == "list":
            src = it[1]
            if src in state:
                self.err(f"loop over `{src}` also assigns it")
            env2[pat] = Var(mangle(pat), self.res(env[src].ty)[1], True)
            head = f"forMutM {env[src].lean} {sval} fun {mangle(pat)} {spat} =>"
            fin = f"some ({mangle(pat)}, {spat})"
            kind = "mut"
        elif it[0] == "mcall" and it[2] == "zip" and len(it[3]) == 1 and not isinstance(pat, str) and len(pat[1]) == 2:
            a, b = it[1], it[3][0]
            if not (a[0] == "mcall" and a[2] == "into_iter" and not a[3] and b[0] == "mcall" and b[2] == "iter_mut" and not b[3]):
                self.err("zip loop: expected `a.into_iter().zip(b.iter_mut())`")
            av, at = self.tx(a[1], env)
            r, p, bt = self.place(b[1], env)
            if p or not (isinstance(bt, tuple) and bt[0] == "list") or not (isinstance(self.res(at), tuple) and self.res(at)[0] == "list"):
                self.err("zip loop operands")
            src = r
            if src in state:
                self.err(f"loop over `{src}` also assigns it")
            n1, n2 = pat[1]
            env2[n1] = Var(mangle(n1), self.res(at)[1])
            env2[n2] = Var(mangle(n2), bt[1], True)
            head = f"zipMutM {par(av)} {env[src].lean} {sval} fun {mangle(n1)} {mangle(n2)} {spat} =>"
            fin = f"some ({mangle(n2)}, {spat})"
            kind = "mut"
        else:
            self.err("iterator of `for`")
        for n in pnames:
            if n in env:
                self.err(f"loop variable `{n}` shadows an outer variable")
        fsave = self.fallible

        def f():
            self.walk(body[1], env2)
            return fin
        txt = self.sub_block(f)
        term = head + "\n" + self.ind(txt, 4)
        if kind == "range":
            self.bind(term, spat if state else "_")
        else:
            if not env[src].mut:
                self.err(f"`{src}` is not mutable")
            tmp = self.bind(term)
            self.let(env[src].lean, f"{tmp}.1")
            if state:
                self.steps.append(f"let {spat} := {tmp}.2")

    # ------------------------------------------------------------------ functions
    def register(self, fname, owner, name):
        self.fname = fname
        it = self.load(fname)
        if owner is None:
            rec = it.fns.get(name)
            igen, iwhere, targs = [], [], []
        else:
            im = self.impl_of(fname, owner)
            rec = im["fns"].get(name)
            igen, iwhere, targs = im["generics"], im["where"], im["targs"]
        if rec is None or rec["body"] is None:
            fail(f"{fname}: fn {(owner + '::') if owner else ''}{name} not found")
        self.where = f"{fname}: fn {(owner + '::') if owner else ''}{name}"
        for a in rec["attrs"]:
            if a.startswith("#[cfg("):
                pred = it_toks = T.hdr_lex(a, self.where)[3:-2] if False else None
                toks_a = T.hdr_lex(a, self.where)
                inner = toks_a[4:-2]
                ok = S.SrcParser.cfg.eval(inner, self.where) if fname != "verif_hooks.rs" else True
                if not ok:
                    self.err(f"the function is compiled out in the verified build ({a})")
        fi = FnInfo()
        fi.name, fi.owner, fi.file, fi.rec = name, owner, fname, rec
        impl_g = self.parse_generics(igen, iwhere, self.where) if igen else []
        fn_g = self.parse_generics(rec["generics"], self.where_toks(it, rec), self.where)
        fi.generics = impl_g + fn_g
        fi.impl_gen = {n for n, _, _ in impl_g}
        if len({n for n, _, _ in fi.generics}) != len(fi.generics):
            self.err("a generic parameter is declared twice")
        self.gen = {n: k for n, k, _ in fi.generics}
        self.owner = owner
        self.owner_args = None
        if owner is not None:
            if targs:
                if targs[0] != "<" or targs[-1] != ">":
                    self.err("impl header")
                self.owner_args = tuple(self.ty(x) if not (len(x) == 1 and self.gen.get(x[0]) == "const") else ("c", x[0])
                                        for x in split_top(targs[1:-1]))
            else:
                self.owner_args = ()
        # closure-typed generics
        ftys = {}
        for n, k, info in fi.generics:
            if k == "fn":
                a = [self.ty(x) for x in info]
                if not info or info[0][:2] != ["&", "mut"] or any(x[:1] == ["&"] for x in info[1:]):
                    self.err(f"closure bound of {n}: only `FnMut(&mut A, B..)` is read")
                ftys[n] = ("fn", tuple(a))
        fi.params = []
        fi.self_mode = None
        for p in rec["params"]:
            if p in (["self"], ["&", "self"], ["&", "mut", "self"]):
                if owner is None:
                    self.err("self parameter")
                fi.self_mode = "mut" if "mut" in p else "val"
                fi.params.append(("self", ("st", owner, self.owner_args), fi.self_mode))
                continue
            if p[0] == "mut":
                p = p[1:]
                pm = True
            else:
                pm = False
            if len(p) < 3 or p[1] != ":":
                self.err(f"parameter `{ttext(p)}`")
            tt = p[2:]
            if len(tt) == 1 and tt[0] in ftys:
                fi.params.append((p[0], ftys[tt[0]], "fn"))
                continue
            mode = "mut" if tt[:2] == ["&", "mut"] else "val"
            fi.params.append((p[0], self.ty(tt), mode))
            fi.local_mut = getattr(fi, "local_mut", set())
            if pm:
                fi.local_mut.add(p[0])
        fi.ret = self.ty(rec["ret"]) if rec["ret"] else "unit"
        fi.lean = (f"{owner}." if owner else "") + mangle(name)
        if owner is not None and name in [f for f, _ in self.structs[owner]["fields"]]:
            fi.lean += "_fn"
        fi.proj = None
        return fi

    def translate(self, fname, owner, name):
        fi = self.register(fname, owner, name)
        it = self.files[fname]
        rec = fi.rec
        self.counter = 0
        self.fallible = False
        self.finalizers = []
        self.steps = []
        ps = self.Parser(it.toks, rec["body"][0], rec["body"][1], self.where, None)
        body = self.norm(ps.block())
        if ps.p != rec["body"][1]:
            self.err("trailing tokens after the body")
        if name in LP_ALIAS:
            got = ttext(it.toks[rec["body"][0]:rec["body"][1]])
            if got != LP_ALIAS[name]["body"]:
                self.err(f"body `{got}` is not the text the aliasing reading was written for")
        env = {}
        for pn, pt, mode in fi.params:
            env[pn] = Var(mangle(pn), pt, mut=(mode == "mut" or pn in getattr(fi, "local_mut", ())))
        # projection methods: `&self.f` / `&mut self.f`
        tail = body[2]
        if owner is not None and not body[1] and tail is not None and tail[0] == "un" and tail[1] in ("&", "&mut") and \
                tail[2][0] == "field" and tail[2][1] == ("var", "self"):
            fi.proj = tail[2][2]
        self.walk(body[1], env)
        muts = [pn for pn, pt, mode in fi.params if mode == "mut"]

        def result(rv):
            comps = ([] if fi.ret == "unit" else [rv]) + [env[m].lean for m in muts]
            if not comps:
                return "()"
            return comps[0] if len(comps) == 1 else "(" + ", ".join(comps) + ")"

        def finish(tail, env_):
            if tail is None:
                if fi.ret != "unit":
                    self.err("missing return value")
                rv = None
            else:
                v, t = self.tx(tail, env_, fi.ret if fi.ret != "unit" else None)
                t = self.res(t)
                if fi.ret == "unit":
                    if t != "unit":
                        self.err("value of the tail expression is dropped")
                    rv = None
                else:
                    if t != fi.ret:
                        self.err(f"returns {t!r}, declared {fi.ret!r}")
                    rv = v
            for src, parts in self.finalizers:
                self.let(env_[src].lean, f"{env_[parts[0]].lean} ++ {env_[parts[1]].lean}.flatten ++ {env_[parts[2]].lean}")
            return result(rv)

        branch_texts = None
        if tail is not None and tail[0] == "if":
            if tail[3] is None or tail[3][0] != "block":
                self.err("`if` without a plain `else` block in tail position")
            c, ct = self.tx(tail[1], env)
            if ct != "bool":
                self.err("condition")
            branch_texts = []
            for blk in (tail[2], tail[3]):
                env_b = dict(env)

                def f(blk=blk, env_b=env_b):
                    self.walk(blk[1], env_b)
                    return "\0" + finish(blk[2], env_b)
                branch_texts.append(self.sub_block(f))
            final = None
        else:
            final = finish(tail, env)
        wrap = (lambda r: f"some {par(r)}") if self.fallible else (lambda r: r)
        if branch_texts is not None:
            bt = [b.replace("\0" + b.split("\0")[1], wrap(b.split("\0")[1])) for b in branch_texts]
            final_txt = f"if {c} then\n{self.ind(bt[0], 2)}\nelse\n{self.ind(bt[1], 2)}"
        else:
            final_txt = wrap(final)
        fi.fallible = self.fallible
        # signature
        sig = []
        for n, k, _ in fi.generics:
            if k == "tdef":
                sig.append(f"{{{n} : Type}} [Inhabited {n}]")
            elif k == "tvar":
                sig.append(f"{{{n} : Type}}")
        if fi.fallible:
            sig.append("(dbg : Bool)")
        for n, k, _ in fi.generics:
            if k in ("const", "tint"):
                sig.append(f"({n} : Nat)")
        for pn, pt, mode in fi.params:
            sig.append(f"({mangle(pn)} : {self.lty(pt)})")
        rparts = ([] if fi.ret == "unit" else [self.lty(fi.ret)]) + [self.lty(pt) for pn, pt, mode in fi.params if mode == "mut"]
        rty = "Unit" if not rparts else (rparts[0] if len(rparts) == 1 else "(" + " × ".join(rparts) + ")")
        if fi.fallible:
            rty = f"Option {par(rty)}"
        doc = f"`{(owner + '::') if owner else ''}{name}` ({fname})"
        if muts:
            doc += "; returns (" + ", ".join((["value"] if fi.ret != "unit" else []) + [f"final `{m}`" for m in muts]) + ")"
        body_txt = "\n".join(self.steps + [final_txt])
        self.out.append(f"/-- {doc} -/\ndef {fi.lean} {' '.join(sig)} : {rty} :=\n{self.ind(body_txt, 2)}\n")
        self.fns[(owner, name)] = fi
        return fi

    # ------------------------------------------------------------------ fakesimd / repeat / aliases
    def check_fakesimd(self):
        it = self.load("fakesimd.rs")
        t = it.toks
        txt = ttext(t)
        for i in range(len(t) - 6):
            if t[i] == "pub" and t[i + 1] == "type" and t[i + 3] == "=" and t[i + 4] == "Simd" and t[i + 5] == "<":
                j = i + 6
                inner = []
                while t[j] != ">":
                    inner.append(t[j])
                    j += 1
                a = split_top(inner)
                if len(a) == 2 and len(a[0]) == 1 and (a[0][0] in SB or a[0][0] in UB) and re.fullmatch(r"\d+", ttext(a[1])):
                    self.aliases[t[i + 2]] = (a[0][0], int(ttext(a[1])))
        if "pubstructSimd<T:SimdElement,constLANES:usize>([T;LANES]);" not in txt:
            fail("fakesimd.rs: `struct Simd` is not the array wrapper the readings were written for")
        return it

    def verify_simd_used(self):
        it = self.files["fakesimd.rs"]
        t = it.toks
        txt = ttext(t)
        notes = []
        for name in sorted(self.used_simd):
            if name.startswith("op:"):
                op = name[3:]
                if LP_SIMD_OPS[op] not in txt:
                    fail(f"fakesimd.rs: operator {op}: `{LP_SIMD_OPS[op]}` not found")
                notes.append(f"fakesimd {op}  [{LP_SIMD_OPS[op]}]")
                continue
            if name.startswith("unsafe:"):
                notes.append(f"arrayutils {name[7:]}  [{LP_UNSAFE[name[7:]]}]  ->  List.flatten (write-back: chunkN)")
                continue
            bodies = []
            for p in range(len(t) - 1):
                if t[p] == "fn" and t[p + 1] == name:
                    rec, _ = it.parse_fn(p, [], "")
                    if rec["body"] is not None:
                        bodies.append(ttext(t[rec["body"][0] + 1:rec["body"][1] - 1]))
            if not bodies or any(b != LP_SIMD[name] for b in bodies):
                fail(f"fakesimd.rs: fn {name}: bodies {bodies} are not the text `{LP_SIMD[name]}` its reading was written for")
            notes.append(f"fakesimd Simd::{name}  [{LP_SIMD[name]}]")
        if any(n.startswith("op:") for n in self.used_simd):
            for mname in ("def_binop", "def_binop_assign"):
                i = txt.find(f"macro_rules!{mname}{{")
                if i < 0:
                    fail(f"fakesimd.rs: macro {mname} not found")
                j = txt.find("macro_rules!", i + 5)
                k = txt.find("def_binop!(Add", i)
                seg = txt[i:min(x for x in (j, k) if x > 0)]
                fp = hashlib.sha256(seg.encode()).hexdigest()[:16]
                if fp != LP_SIMD_MACRO_FP[mname]:
                    fail(f"fakesimd.rs: macro {mname} changed (fingerprint {fp}, readings written for {LP_SIMD_MACRO_FP[mname]})")
            for ty_ in ("i16", "i32", "i64"):
                want = f"implSimdElementfor{ty_}{{typeMask=Self;{LP_SIMD_ELEMENT}}}"
                if want not in txt:
                    fail(f"fakesimd.rs: `impl SimdElement for {ty_}` is not the wrapping add / sub the readings were written for")
            notes.append(f"fakesimd SimdElement for i16/i32/i64  [{LP_SIMD_ELEMENT}]")
        return notes

    def emit_struct(self, name):
        sd = self.structs[name]
        gl = self.parse_generics(sd["generics"], [], f"struct {name}") if sd["generics"] else []
        self.gen = {n: k for n, k, _ in gl}
        self.where = f"{sd['file']}: struct {name}"
        tparams = [n for n, k, _ in gl if k != "const"]
        lines = [f"/-- `struct {name}` ({sd['file']}) -/",
                 f"structure {name}" + "".join(f" ({n} : Type)" for n in tparams) + " where"]
        for f, ft in sd["fields"]:
            lines.append(f"  {mangle(f)} : {self.lty(self.ty(ft))}")
        return "\n".join(lines) + "\n  deriving Repr, DecidableEq\n"


LP_SIMD_MACRO_FP = {"def_binop": "ac9882d7d8ffe23e", "def_binop_assign": "e42843e01e3ea719"}


def emit_lpc(tmod, status):
    """-> text of Gen/Lpc.lean"""
    global T, S
    T = tmod
    import translate_source
    S = translate_source
    if S.SrcParser.cfg is None:
        S.SrcParser.cfg = S.CfgEval(S.read_features())
    tx = LpcTx(status)
    tx.type_alias = {}
    tx.used_extern = set()
    got = fingerprint(T.hdr_lex(open(os.path.join(T.REPO, "src", "repeat.rs")).read(), "repeat.rs"))
    if got != LP_REPEAT_FP:
        fail(f"repeat.rs: the file changed (fingerprint {got}; the reading of `repeat!` was written for {LP_REPEAT_FP})")
    tx.check_fakesimd()
    # `import_simd!(as simd)` must select fakesimd in the verified build
    lib = ttext(T.hdr_lex(open(os.path.join(T.REPO, "src", "lib.rs")).read(), "lib.rs"))
    if "macro_rules!import_simd{" not in lib or '#[cfg(not(feature="simd-nightly"))]use$crate::fakesimdas$modalias;' not in lib:
        fail("lib.rs: `import_simd!` does not bind the alias to crate::fakesimd in the stable build")
    for fn_ in ("lpc.rs", "arrayutils.rs", "coding.rs", "datatype.rs"):
        if "import_simd!(assimd);" not in ttext(tx.load(fn_).toks):
            fail(f"{fn_}: `import_simd!(as simd);` not found")
    # type alias of coding.rs
    ct = tx.load("coding.rs").toks
    for i in range(len(ct) - 3):
        if ct[i] == "type" and ct[i + 1] == "FixedLpcErrors" and ct[i + 2] == "=":
            j = i + 3
            while ct[j] != ";" or ct[j - 1] in ("16>",):
                j += 1
                if ct[j] == ";" and ct[j + 1:j + 2] and ct[j - 1] == ">":
                    # the `;` inside `[X; N]`
                    continue
            j = tx.files["coding.rs"].group_end(i + 3)
            tx.type_alias["FixedLpcErrors"] = ct[i + 3:j]
    if "FixedLpcErrors" not in tx.type_alias:
        fail("coding.rs: type FixedLpcErrors not found")
    for name, fname in LP_STRUCTS.items():
        tx.load_struct(name, fname)
    structs_txt = [tx.emit_struct(n) for n in LP_STRUCTS]
    for fname, owner, name in LP_SPEC:
        tx.translate(fname, owner, name)
    notes = tx.verify_simd_used()
    hdr = ["-- GENERATED by tools/translate.py (part `lpc`, tools/translate_lpc.py) from src/lpc.rs, src/arrayutils.rs, "
           "src/coding.rs, src/component/datatype.rs, src/verif_hooks.rs — do not edit",
           "/-",
           "Statement-by-statement mirror of the integer prediction kernels: `QuantizedParameters` (from_parts, accessors),",
           "`compute_error` / `compute_error_impl` with `unaligned_map_and_update` / `slice_as_simd_mut`, `SimdVec`,",
           "`pack_into_simd_vec`, `reset_fixed_lpc_errors`, and the verification accessor `compute_error_fits`.",
           "",
           "A function that can panic is `f (dbg : Bool) .. : Option R` (`none` = panic); `dbg = true` is the dev profile (overflow",
           "checks, debug assertions), `dbg = false` the release profile; both are this one term (prelude functions taking `dbg`,",
           "convention of Gen/Decode.lean).  A `&mut` parameter is threaded: the function returns its final value after the",
           "returned value, in parameter order.  A generic integer type `T: PrimInt + From<i8> + From<i16>` is read as a signed",
           "integer of `T` bits (explicit parameter `(T : Nat)`), a const generic is an explicit `Nat`, a closure parameter",
           "`FnMut(&mut A, B)` is `A → B → Option A` (the final value of the cell).  Integers are `Nat` / `Int`, slices / Vec /",
           "arrays / fakesimd vectors are `List`s; usize is taken as 64 bits.  The build that is mirrored is the stable one",
           "(feature `simd-nightly` off: `simd` = src/fakesimd.rs, `slice_as_simd_mut` returns an empty SIMD body).",
           "-/",
           "import FlacVerif.Gen.Constants",
           "import FlacVerif.Gen.Source",
           "set_option linter.unusedVariables false",
           "namespace FlacVerif.Gen.Lpc",
           ""]
    foot = ["/- Not translated:"]
    for f, what, why in LP_UNTRANSLATED:
        foot.append(f"   {f}: {what} — {why}")
    foot.append("")
    foot.append("   Trusted readings (tools/translate_lpc.py):")
    for s_ in LP_STD:
        foot.append("   std: " + s_)
    foot.append(f"   repeat.rs: repeat!(c to N => body) = for c in 0..N, file fingerprint {LP_REPEAT_FP}")
    foot.append(f"   slice_as_simd_mut  [{LP_ALIAS['slice_as_simd_mut']['body']}]  ->  {LP_ALIAS['slice_as_simd_mut']['doc']}")
    for n in notes:
        foot.append("   " + n)
    for n in sorted(tx.used_extern):
        foot.append(f"   {n}: generated by part `{LP_EXTERN[n][0]}` ({LP_EXTERN[n][1]})")
    foot.append("-/")
    foot.append("")
    foot.append("end FlacVerif.Gen.Lpc")
    return "\n".join(hdr) + LP_PRELUDE + "\n" + "\n".join(structs_txt) + "\n" + "\n".join(tx.out) + "\n" + "\n".join(foot) + "\n"
