#!/bin/sh
# Runs the repository's pinned test suite (guard off) and prints a one-line summary.
cd /repo || exit 2
out=$(CARGO_NET_OFFLINE=true cargo test --workspace --no-fail-fast --offline 2>&1)
echo "$out" | grep -E "^test result" 
echo "$out" | grep -E "FAILED|panicked|^error" | head -20
if echo "$out" | grep -q "test result: ok. 163 passed; 0 failed"; then echo "BASELINE OK"; exit 0; else echo "BASELINE BROKEN"; exit 1; fi
