"""Part `decode` of tools/translate.py: the crate's own decoder.

  src/component/decode.rs   the trait `Decode` (default method `decode`), every `impl Decode for X`
                            (`signal_len`, `copy_signal`), the free function `decode_lpc`
  src/rice.rs               `decode_signbit`, `encode_signbit`
  src/component/datatype.rs the non-trivial helper methods the decoder calls (`Frame::block_size`,
                            `Frame::subframe_count`, `FrameHeader::block_size`), translated on demand
  -> lean/FlacVerif/Gen/Decode.lean (namespace FlacVerif.Gen.Decode); theorems: Theorems/C15Gen.lean

Everything is PARSED from the current source text with the lexer / item index / expression and statement parser of
translate.py (parts `headers`, `writer`, `verify`), extended here by slice ranges `a[i..j]`, `vec![x; n]` and
qualified paths `<T as Trait>::f`.  The translation is a continuation-passing walk over the AST that emits one
Lean step per Rust operation, in evaluation order:

  * a function that can panic becomes `f (dbg : Bool) args : Option R` (`none` = panic); `dbg = true` is the dev
    profile (overflow checks on), `dbg = false` the release profile (wrapping).  Both readings come from the same
    generated term: every overflow-capable operation is a prelude function that takes `dbg`.
  * a `&mut` parameter is threaded: the function returns its final value; assignments shadow the Lean name.
  * loops are `loopM` over the list of iterator values with the mutated outer variables as state.
  * functions without any panicking step are emitted as plain (total) Lean functions without `dbg`.

Nothing about the translated bodies is built in: operators, operand order, widths (from the declared Rust types),
literals, index expressions, loop ranges, guards and statement order all come from the source text.  What IS built in
(the trusted base of this part) is listed in DC_READINGS and reproduced at the end of the generated file.
Anything else raises `fail(..)`: the part's status becomes "translator cannot read ..." and nothing is written.
"""
import os
import re

T = None          # the translate module (set by emit_decode)

# types that must implement Decode, and the functions each impl must define (the default method `decode` of the
# trait is instantiated for every one of them)
DC_IMPLS = ["Frame", "SubFrame", "Constant", "Verbatim", "FixedLpc", "Lpc", "Residual"]
DC_IMPL_FNS = ["signal_len", "copy_signal"]
DC_TRAIT_DEFAULTS = ["decode"]
DC_FREE = ["decode_lpc"]
DC_RICE = ["decode_signbit", "encode_signbit"]
# module aliases of decode.rs: `use <path>;` that must be present -> file
DC_MODULES = {"rice": (["use", "super", "::", "super", "::", "rice", ";"], "rice.rs")}
# constants of decode.rs that another part generates: name -> (lean term, element type, part)
DC_TABLES = {"FIXED_LPC_COEFS": ("FlacVerif.Gen.Tables.fixedLpcCoefs", ("list", ("list", "i32")), "tables")}

DC_READINGS = [
    "a + b, a - b, a * b, -a, a += b (= a = a + b): dev profile panics on overflow (`none`), release wraps (addU/subU/mulU/arithS)",
    "a << k, a >> k: dev profile panics iff k >= width (`shAmt`), release masks k to k % width; the bits shifted out of a `<<` "
    "are dropped in both profiles; `>>` of a signed value is arithmetic (floor division); a literal k < width needs no check",
    "e as T: never panics in either profile; narrowing keeps the low bits, unsigned -> signed of the same width and signed "
    "narrowing reinterpret in two's complement (wrapS), signed -> unsigned is the residue (castU), bool -> 0/1",
    "T::from(x) / <T as Into<i64>>::into(x): the lossless widening (the bound `T: Into<i64>` is read from the generics); a "
    "value of a generic type T is an `Int`",
    "a / b, a % b (unsigned): panics iff b = 0 in both profiles (no check for a literal b != 0); a & b on signed values is the "
    "two's complement `and` (andS)",
    "xs[i]: panics iff i >= len (both profiles); xs[i] = v likewise (setAt); xs[a..b] panics unless a <= b <= len (sliceR); "
    "xs[a..b].fill(v) (sliceFill); xs[a..b].copy_from_slice(src) additionally panics unless src.len() == b - a (sliceCopy)",
    "assert!(c): panics unless c (both profiles); debug_assert!(c): dev profile only (`req (!dbg || c)`)",
    "vec![] = [], vec![x; n] = List.replicate n x, v.push(x) = v ++ [x], .len() = .length, .iter() / & / * transparent, "
    "for x in a..b = loop over [a, a+1, .., b-1], .iter().enumerate() = pairs (index, element), v.unsigned_abs() = |v|",
    "Option::expect(msg): panics on None",
    "a.wrapping_add(b) / wrapping_sub / wrapping_mul: the result reduced mod 2^W in BOTH profiles (wrapS W / castU W); they do not "
    "occur in the current source",
    "a function translated by part `headers` that has an `_exact` condition (dev-profile reading: value + no-overflow "
    "condition) is read as `hdrVal exact value`: `none` where `_exact` fails in BOTH profiles; the release-profile "
    "wrapping inside those header functions is not modelled by this part",
]

DC_RESERVED = {"dbg", "loopM", "req", "setAt", "sliceR", "sliceFill", "sliceCopy", "addU", "subU", "mulU", "arithS", "wrapS",
               "shAmt", "shlU", "shrU", "shlS", "shrS", "andS", "castU", "divU", "remU", "rangeL", "enumerate", "hdrVal",
               "expect", "some", "none", "Option", "List", "Nat", "Int", "Bool", "decide"}


class Impure(Exception):
    pass


class DV:
    """a translated PURE value: Lean term, Rust type, literal value, view (constructor-argument record)"""
    __slots__ = ("lean", "ty", "lit", "view")

    def __init__(self, lean, ty, lit=None, view=None):
        self.lean, self.ty, self.lit, self.view = lean, ty, lit, view


def fail(msg):
    T.fail(msg)


def ind(s, k=2):
    return T.hdr_indent(s, k)


def par(s):
    return T.wr_par(s)


def make_parser_class():
    class DcParser(T.VfParser):
        """VfParser + `a[i..j]`, `vec![x; n]`, `<T as Trait>::f`"""

        def sub(self, toks):
            ps = DcParser(toks, 0, len(toks), self.where, self.macros)
            ps.scan_only = self.scan_only
            ps.depth = self.depth + 1
            return ps

        def while_(self):
            self.err("`while` loop")

        def postfix(self):
            e = self.primary()
            while True:
                x = self.peek()
                if x == "(":
                    e = ("call", e, self.args())
                elif x == "." and self.is_ident(self.peek(1)):
                    name = self.peek(1)
                    self.p += 2
                    gen = None
                    if self.peek() == "::":
                        self.p += 1
                        gen = self.generic_toks()
                    if self.peek() == "(":
                        e = ("mcall", e, name, self.args(), gen)
                    elif gen is not None:
                        self.err(f"generic arguments on field .{name}")
                    else:
                        e = ("field", e, name)
                elif x == "." and self.peek(1) is not None and re.fullmatch(r"\d+", self.peek(1)):
                    e = ("tupidx", e, int(self.peek(1)))
                    self.p += 2
                elif x == "[":
                    self.p += 1
                    if self.peek() in ("..", "..="):
                        self.err("slice range without a start")
                    save, self.struct_ok = self.struct_ok, True
                    idx = self.expr()
                    if self.peek() == "..":
                        self.p += 1
                        if self.peek() == "]":
                            self.err("slice range without an end")
                        idx = ("range", idx, self.expr())
                    elif self.peek() == "..=":
                        self.err("inclusive slice range")
                    self.struct_ok = save
                    self.eat("]")
                    e = ("index", e, idx)
                elif x == "?":
                    self.err("`?` operator")
                else:
                    return e

        def primary(self):
            x = self.peek()
            if x == "vec" and self.peek(1) == "!" and self.peek(2) == "[" and self.peek(3) != "]":
                self.p += 3
                save, self.struct_ok = self.struct_ok, True
                v = self.expr()
                if self.peek() != ";":
                    self.err("vec![a, b, ..] literal")
                self.p += 1
                n = self.expr()
                self.struct_ok = save
                self.eat("]")
                return ("vecrep", v, n)
            if x == "<":
                # qualified path `<T as Trait<..>>::f`
                self.p += 1
                if not self.is_ident(self.peek()):
                    self.err("qualified path")
                t = self.peek()
                self.p += 1
                self.eat("as")
                tr = []
                d = 0
                while True:
                    y = self.peek()
                    if y is None or y in ("{", "}", ";"):
                        self.err("qualified path")
                    if y == "<":
                        d += 1
                    elif y == ">":
                        if d == 0:
                            break
                        d -= 1
                    elif y == ">>":
                        if d == 1:
                            tr.append(">")
                            break
                        if d == 0:
                            self.err("qualified path")
                        d -= 2
                    tr.append(y)
                    self.p += 1
                self.p += 1
                self.eat("::")
                if not self.is_ident(self.peek()):
                    self.err("qualified path")
                f = self.peek()
                self.p += 1
                return ("qpath", t, "".join(tr), f)
            return T.VfParser.primary(self)

    return DcParser


class DcTx:
    def __init__(self, files, wr, status):
        self.files = files            # file name -> HdrItems
        self.wr = wr                  # a WrTx: types, accessor table, definitions of the generated structs
        self.status = status
        self.fns = {}                 # key -> record
        self.order = []               # keys in emission order
        self.out = {}                 # key -> Lean text
        self.stack = []
        self.where = ""
        self.owner = None
        self.generics = {}
        self.counter = 0
        self.fallible = False
        self.pure_mode = False
        self.dry = 0
        self.used_readings = set()
        self.used_acc = set()
        self.used_tables = set()
        self.used_hdr = set()
        self.on_demand = []
        self.Parser = make_parser_class()
        self.trait_defaults = {}
        self.taken = set()
        self.patches = {}
        self.fn_generics_of_callee = {}
        self.fname = None
        self.frames = []              # enclosing loops / joined branches: (state names, names declared outside)

    # ------------------------------------------------------------------ basics
    def err(self, msg):
        fail(f"{self.where}: {msg}")

    def is_u(self, ty):
        return isinstance(ty, str) and ty in T.HDR_BITS

    def is_s(self, ty):
        return isinstance(ty, str) and ty in T.WR_SBITS

    def is_int(self, ty):
        return self.is_u(ty) or self.is_s(ty)

    def bits(self, ty):
        return T.HDR_BITS[ty] if ty in T.HDR_BITS else T.WR_SBITS[ty]

    def fits(self, v, ty, what):
        if self.is_u(ty) and not (0 <= v < 2 ** self.bits(ty)):
            self.err(f"{what}: literal {v} does not fit {ty}")
        if self.is_s(ty) and not (-2 ** (self.bits(ty) - 1) <= v < 2 ** (self.bits(ty) - 1)):
            self.err(f"{what}: literal {v} does not fit {ty}")

    def rty(self, toks):
        """Rust type tokens -> type; a generic parameter of the current function is ("tvar", name)"""
        t = [x for x in toks if not x.startswith("'")]
        while t and t[0] in ("&", "mut"):
            t = t[1:]
        if len(t) == 1 and t[0] in self.generics:
            return ("tvar", t[0])
        if len(t) == 3 and t[0] == "[" and t[2] == "]" and t[1] in self.generics:
            return ("list", ("tvar", t[1]))
        if not t:
            return "unit"
        if t == ["(", ")"]:
            return "unit"
        self.wr.where, self.wr.owner = self.where, self.owner
        ty = self.wr.ty(t)
        if ty == "writes" or (isinstance(ty, tuple) and ty[0] in ("res", "tuple")):
            self.err(f"type `{''.join(t)}`")
        return ty

    def lty(self, ty):
        if self.is_u(ty):
            return "Nat"
        if self.is_s(ty):
            return "Int"
        if ty == "bool":
            return "Bool"
        if ty == "unit":
            return "Unit"
        if isinstance(ty, tuple):
            if ty[0] == "tvar":
                return "Int"
            if ty[0] == "list":
                if ty[1] is None:
                    self.err("a vector whose element type is never determined")
                return "List " + par(self.lty(ty[1]))
            if ty[0] == "opt":
                return "Option " + par(self.lty(ty[1]))
            if ty[0] == "hdr":
                return f"FlacVerif.Gen.Headers.{ty[1]}"
            if ty[0] == "st":
                n = ty[1]
                if n in T.WR_MODEL and T.WR_MODEL[n]["kind"] in ("struct", "enum"):
                    return T.WR_MODEL[n]["lean"]
                if n in T.WR_GENERATED:
                    return f"FlacVerif.Gen.Writer.{n}"
                self.err(f"{n} has no Lean type of its own")
        self.err(f"no Lean type for {ty!r}")

    def fresh(self, hint="v"):
        while True:
            self.counter += 1
            n = f"{hint}{self.counter}"
            if n not in self.taken:
                return n

    def lit(self, v, ty):
        if self.is_s(ty):
            return f"({v} : Int)"
        return str(v)

    def reading(self, what):
        self.used_readings.add(what)

    def note_mut(self, name):
        """a statement mutates the local `name`: every enclosing loop / joined branch that does not declare it must
        carry it in its state (cross-check of the `assigned` analysis: a missed variable would silently lose the update)"""
        for state, outside in self.frames:
            if name in outside and name not in state:
                self.err(f"internal: `{name}` is mutated inside a loop or branch whose state {sorted(state)} does not carry it")

    # ------------------------------------------------------------------ monadic steps
    def bind(self, term, ty, k, hint=None):
        """one step that can panic: `(term).bind fun n => rest`"""
        if self.pure_mode and not self.dry:
            raise Impure()
        self.fallible = True
        n = T.wr_mangle(hint) if hint else self.fresh()
        rest = k(DV(n, ty))
        return f"({term}).bind fun {n} =>\n{rest}"

    def call_args(self, v):
        n = v.ty[1]
        if n in T.WR_MODEL and T.WR_MODEL[n]["kind"] == "ctor":
            return " ".join(par(v.view[f]) for f, _ in T.WR_MODEL[n]["fields"])
        return par(v.lean)

    # ------------------------------------------------------------------ expressions (CPS)
    def typeof(self, e, env, want=None):
        """type of an expression, by a dry run of the translation (nothing is emitted)"""
        box = []
        saved = (self.counter, self.fallible)
        self.dry += 1
        try:
            self.tx(e, env, want, lambda v: (box.append(v.ty), "")[1])
        finally:
            self.dry -= 1
            self.counter, self.fallible = saved
        for t in box:
            if t is not None:
                return t
        return None

    def tx(self, e, env, want, k, hint=None):
        kind = e[0]
        if kind == "paren":
            return self.tx(e[1], env, want, k, hint)
        if kind == "int":
            v, suf = e[1], e[2]
            ty = suf if suf is not None else (want if self.is_int(want) else None)
            if ty is None:
                if self.dry:
                    return k(DV(str(v), None, v))
                self.err(f"integer literal {v} whose type is not determined by its context")
            self.fits(v, ty, "literal")
            return k(DV(self.lit(v, ty), ty, v))
        if kind == "boollit":
            return k(DV("true" if e[1] else "false", "bool"))
        if kind == "unit":
            return k(DV("()", "unit"))
        if kind == "var":
            name = e[1]
            if name in env:
                x = env[name]
                return k(DV(x.lean, x.ty, x.lit, x.view))
            if name in DC_TABLES and self.fname == "decode.rs":
                lean, ty, part = DC_TABLES[name]
                self.check_table(name)
                return k(DV(lean, ty))
            self.err(f"unknown name `{name}`")
        if kind == "un":
            if e[1] in ("*", "&"):
                return self.tx(e[2], env, want, k, hint)
            if e[1] == "!":
                return self.tx(e[2], env, "bool", lambda a: self.k_not(a, k))
            if e[1] == "-":
                inner = e[2]
                while inner[0] == "paren":
                    inner = inner[1]
                if inner[0] == "int" and inner[2] is None:
                    ty = want if self.is_s(want) else None
                    if ty is None:
                        if self.dry:
                            return k(DV(str(-inner[1]), None, -inner[1]))
                        self.err("negative literal whose type is not determined")
                    self.fits(-inner[1], ty, "literal")
                    return k(DV(self.lit(-inner[1], ty), ty, -inner[1]))

                def neg(a):
                    if not self.is_s(a.ty):
                        self.err(f"unary `-` on a value of type {a.ty!r}")
                    self.reading("neg")
                    return self.bind(f"arithS dbg {self.bits(a.ty)} (-{par(a.lean)})", a.ty, k, hint)
                return self.tx(e[2], env, want, neg)
            self.err(f"unary `{e[1]}`")
        if kind == "cast":
            return self.tx(e[1], env, None, lambda a: k(self.cast(a, e[2])))
        if kind == "bin":
            return self.tx_bin(e, env, want, k, hint)
        if kind == "call":
            return self.tx_call(e, env, want, k, hint)
        if kind == "mcall":
            return self.tx_mcall(e, env, want, k, hint)
        if kind == "field":
            def fld(r):
                if not (isinstance(r.ty, tuple) and r.ty[0] == "st" and r.ty[1] in T.WR_GENERATED and r.lean is not None):
                    self.err(f"field access `.{e[2]}` on {r.ty!r}")
                self.wr.where = self.where
                fty = self.wr.field_ty(r.ty[1], e[2])
                return k(DV(f"{r.lean}.{T.wr_mangle(e[2])}", fty))
            return self.tx(e[1], env, None, fld)
        if kind == "index":
            return self.tx_index(e, env, k, hint)
        if kind == "if":
            return self.tx_if(e, env, want, k)
        if kind == "match":
            return self.tx_match(e, env, want, k)
        if kind == "block":
            return self.walk(e[1], e[2], env, lambda env2, v: k(v if v is not None else DV("()", "unit")), want)
        if kind == "vecrep":
            def rep(x):
                return self.tx(e[2], env, "usize", lambda n: k(DV(f"(List.replicate {par(n.lean)} {par(x.lean)})", ("list", x.ty))))
            ety = want[1] if isinstance(want, tuple) and want[0] == "list" else None
            return self.tx(e[1], env, ety, rep)
        if kind == "array":
            if e[1]:
                self.err("array literal")
            ety = want[1] if isinstance(want, tuple) and want[0] == "list" else None
            return k(DV("[]", ("list", ety)))
        self.err(f"expression kind `{kind}`")

    def k_not(self, a, k):
        if a.ty != "bool":
            self.err("`!` on a non-boolean")
        return k(DV(f"(!{par(a.lean)})", "bool"))

    def check_table(self, name):
        lean, ty, part = DC_TABLES[name]
        if self.status.get(part) != "ok":
            self.err(f"`{name}` is generated by part `{part}`, which failed")
        # the declared element type must be the one the table is typed with
        t = self.files["decode.rs"].toks
        for i in range(len(t) - 3):
            if t[i] == "const" and t[i + 1] == name and t[i + 2] == ":":
                j = i + 3
                d = 0
                decl = []
                while not (t[j] == "=" and d == 0):
                    if t[j] in ("[", "("):
                        d += 1
                    elif t[j] in ("]", ")"):
                        d -= 1
                    decl.append(t[j])
                    j += 1
                if not (decl[:3] == ["[", "[", "i32"] and decl[3] == ";"):
                    self.err(f"const {name}: declared type `{' '.join(decl)}` is not a table of i32 rows")
                self.used_tables.add(name)
                return
        self.err(f"const {name} not found in decode.rs")

    def cast(self, a, ty):
        s = a.ty
        if s is None and a.lit is not None:
            self.fits(a.lit, ty, "cast of a literal")
            return DV(self.lit(a.lit, ty), ty, a.lit)
        self.reading("cast")
        if s == "bool":
            return DV(f"(if {a.lean} then {self.lit(1, ty)} else {self.lit(0, ty)})", ty)
        if not self.is_int(s):
            self.err(f"cast of a value of type {s!r}")
        ws, wt = self.bits(s), self.bits(ty)
        if self.is_u(s) and self.is_u(ty):
            return DV(a.lean if wt >= ws else f"({a.lean} % {2 ** wt})", ty)
        if self.is_u(s) and self.is_s(ty):
            return DV(f"({a.lean} : Int)" if wt > ws else f"(wrapS {wt} ({a.lean} : Int))", ty)
        if self.is_s(s) and self.is_s(ty):
            return DV(a.lean if wt >= ws else f"(wrapS {wt} {par(a.lean)})", ty)
        return DV(f"(castU {wt} {par(a.lean)})", ty)

    def widen(self, a, ty, what):
        """lossless conversion (`T::from`, `Into::into`)"""
        s = a.ty
        if isinstance(s, tuple) and s[0] == "tvar":
            bound = self.generics[s[1]]
            if f"Into<{ty}>" not in bound:
                self.err(f"{what}: the generic parameter {s[1]} has the bounds {bound}, not Into<{ty}>")
            if not self.is_s(ty):
                self.err(f"{what}: conversion of a generic value into {ty}")
            return DV(a.lean, ty)
        if not self.is_int(s) or not self.is_int(ty):
            self.err(f"{what} of a value of type {s!r}")
        ws, wt = self.bits(s), self.bits(ty)
        if self.is_u(s) and self.is_u(ty) and ws <= wt:
            return DV(a.lean, ty)
        if self.is_s(s) and self.is_s(ty) and ws <= wt:
            return DV(a.lean, ty)
        if self.is_u(s) and self.is_s(ty) and ws < wt:
            return DV(f"({a.lean} : Int)", ty)
        self.err(f"{what}: {s} -> {ty} is not a lossless conversion")

    def tx_bin(self, e, env, want, k, hint):
        op, l, r = e[1], e[2], e[3]
        if op in ("&&", "||"):
            # the right operand is only evaluated conditionally: it must not be able to panic
            save = self.fallible
            self.fallible = False
            self.dry += 1
            try:
                self.tx(r, env, "bool", lambda v: "")
                rf = self.fallible
            finally:
                self.dry -= 1
                self.fallible = save
            if rf:
                self.err(f"right operand of `{op}` can panic")
            return self.tx(l, env, "bool", lambda a: self.tx(r, env, "bool", lambda b: k(
                DV(f"({a.lean} {op} {b.lean})", "bool"))))
        if op in ("<<", ">>"):
            lt = self.typeof(l, env, want)
            if lt is None:
                self.err(f"left operand of `{op}`: type not determined")

            def sh_l(a):
                def sh_r(b):
                    w = self.bits(a.ty)
                    self.reading("shift")

                    def fin_(kk):
                        if op == "<<":
                            t = f"(shlU {w} {par(a.lean)} {par(kk)})" if self.is_u(a.ty) else f"(shlS {w} {par(a.lean)} {par(kk)})"
                        else:
                            t = f"(shrU {par(a.lean)} {par(kk)})" if self.is_u(a.ty) else f"(shrS {par(a.lean)} {par(kk)})"
                        return k(DV(t, a.ty))
                    if b.lit is not None:
                        if 0 <= b.lit < w:
                            return fin_(str(b.lit))
                        return self.bind(f"shAmt dbg {w} {b.lit}", "u32", lambda kk: fin_(kk.lean))
                    if not self.is_u(b.ty):
                        self.err(f"shift amount of type {b.ty!r} (only unsigned amounts and literals are read)")
                    return self.bind(f"shAmt dbg {w} {par(b.lean)}", "u32", lambda kk: fin_(kk.lean))
                if not self.is_int(a.ty):
                    self.err(f"`{op}` on a value of type {a.ty!r}")
                rt = self.typeof(r, env, None)
                return self.tx(r, env, rt if rt is not None else "i32", sh_r)
            return self.tx(l, env, lt, sh_l)
        lt = self.typeof(l, env, None)
        rt = self.typeof(r, env, None)
        cmp_ = op in ("==", "!=", "<", ">", "<=", ">=")
        t = lt if lt is not None else rt if rt is not None else (want if (not cmp_ and self.is_int(want)) else None)
        if t is None:
            if self.dry:
                return k(DV("0", "bool" if cmp_ else None))
            self.err(f"operands of `{op}`: type not determined")

        def bl(a):
            def br(b):
                if a.ty != b.ty:
                    self.err(f"`{op}` on operands of types {a.ty!r} / {b.ty!r}")
                if cmp_:
                    if not (self.is_int(a.ty) or (a.ty == "bool" and op in ("==", "!="))):
                        self.err(f"comparison of values of type {a.ty!r}")
                    sym = {"==": "=", "!=": "≠", "<": "<", ">": ">", "<=": "≤", ">=": "≥"}[op]
                    return k(DV(f"(decide ({a.lean} {sym} {b.lean}))", "bool"))
                if not self.is_int(a.ty):
                    self.err(f"`{op}` on values of type {a.ty!r}")
                w = self.bits(a.ty)
                if op in ("+", "-", "*"):
                    self.reading("arith")
                    if self.is_u(a.ty):
                        f = {"+": "addU", "-": "subU", "*": "mulU"}[op]
                        return self.bind(f"{f} dbg {w} {par(a.lean)} {par(b.lean)}", a.ty, k, hint)
                    return self.bind(f"arithS dbg {w} ({a.lean} {op} {b.lean})", a.ty, k, hint)
                if op in ("/", "%"):
                    self.reading("div")
                    if not self.is_u(a.ty):
                        self.err(f"`{op}` on signed values")
                    if b.lit is not None and b.lit != 0:
                        return k(DV(f"({a.lean} {op} {b.lean})", a.ty))
                    f = {"/": "divU", "%": "remU"}[op]
                    return self.bind(f"{f} {par(a.lean)} {par(b.lean)}", a.ty, k, hint)
                if op == "&":
                    if self.is_u(a.ty):
                        return k(DV(f"({a.lean} &&& {b.lean})", a.ty))
                    self.reading("div")
                    return k(DV(f"(andS {w} {par(a.lean)} {par(b.lean)})", a.ty))
                if op in ("|", "^") and self.is_u(a.ty):
                    return k(DV(f"({a.lean} {'|||' if op == '|' else '^^^'} {b.lean})", a.ty))
                self.err(f"operator `{op}` on {a.ty}")
            return self.tx(r, env, t, br)
        return self.tx(l, env, t, bl)

    def tx_index(self, e, env, k, hint):
        def ix(r):
            if not (isinstance(r.ty, tuple) and r.ty[0] == "list"):
                self.err(f"indexing a value of type {r.ty!r}")
            self.reading("index")
            if e[2][0] == "range":
                return self.tx(e[2][1], env, "usize", lambda a: self.tx(e[2][2], env, "usize", lambda b: self.bind(
                    f"sliceR {par(r.lean)} {par(a.lean)} {par(b.lean)}", r.ty, k, hint)))

            def ii(i):
                if i.ty != "usize":
                    self.err(f"index of type {i.ty!r}")
                return self.bind(f"{par(r.lean)}[{i.lean}]?", r.ty[1], k, hint)
            return self.tx(e[2], env, "usize", ii)
        return self.tx(e[1], env, None, ix)

    def tx_if(self, e, env, want, k):
        if e[3] is None:
            self.err("`if` without `else` used as a value")

        def c(cv):
            if cv.ty != "bool":
                self.err("condition of `if` is not a boolean")
            a = self.tx(e[2], env, want, k)
            b = self.tx(e[3], env, want, k)
            return f"if {cv.lean} then\n{ind(a)}\nelse\n{ind(b)}"
        return self.tx(e[1], env, "bool", c)

    def hdr_arms(self, sv, arms, env):
        """arms of a match on an enum of part `headers` -> [(lean pattern, env, body)]"""
        name = sv.ty[1]
        dt = self.files["datatype.rs"]
        if name not in dt.enums:
            self.err(f"datatype.rs: enum {name} not found")
        variants = {v: payload for v, payload, _, _ in dt.enums[name]}
        out, seen, total = [], set(), False
        for alts, guard, body in arms:
            if guard is not None or len(alts) != 1:
                self.err("guard / or-pattern in a match on a header enum")
            if total:
                self.err("match arm after a wildcard arm")
            a = alts[0]
            env2 = dict(env)
            if a[0] == "wild":
                out.append(("_", env2, body))
                total = True
                continue
            if a[0] != "variant" or len(a[1]) != 2 or a[1][0] not in (name, "Self") or (a[1][0] == "Self" and self.owner != name):
                self.err(f"pattern in a match on {name}")
            v = a[1][1]
            if v not in variants:
                self.err(f"{name} has no variant {v}")
            if v in seen:
                self.err(f"variant {v} matched twice")
            seen.add(v)
            if len(a[2]) != len(variants[v]):
                self.err(f"pattern of {name}::{v}")
            pats = []
            for sp, pty in zip(a[2], variants[v]):
                if sp[0] == "bind":
                    pats.append(T.wr_mangle(sp[1]))
                    env2[sp[1]] = T.WrVar(T.wr_mangle(sp[1]), pty)
                else:
                    pats.append("_")
            out.append((f".{v} " + " ".join(pats), env2, body))
        if not total and seen != set(variants):
            self.err(f"match on {name} does not cover {sorted(set(variants) - seen)}")
        return out

    def match_arms(self, e, env, k2):
        """translate the scrutinee, then call k2(scrutinee lean, [(pattern, env, body)])"""
        s = e[1]
        while s[0] == "paren" or (s[0] == "un" and s[1] in ("*", "&")):
            s = s[1] if s[0] == "paren" else s[2]
        sty = self.typeof(s, env, None)
        if isinstance(sty, tuple) and sty[0] == "hdr":
            return self.tx(s, env, None, lambda sv: k2(sv.lean, self.hdr_arms(sv, e[2], env)))
        if isinstance(sty, tuple) and sty[0] == "st":
            self.wr.where, self.wr.owner = self.where, self.owner
            sv, arms = self.wr.enum_arms(s, e[2], env)
            return k2(sv.lean, arms)
        self.err(f"match on a value of type {sty!r}")

    def tx_match(self, e, env, want, k):
        def arms_(sl, arms):
            rows = []
            for pat, env2, body in arms:
                rows.append(f"| {pat.strip()} =>\n{ind(self.tx(body, env2, want, k), 4)}")
            return f"match {sl} with\n" + "\n".join(rows)
        return self.match_arms(e, env, arms_)

    # ------------------------------------------------------------------ calls
    def resolve(self, e, env):
        """-> (record, receiver AST | None, args) if e calls a function this part translates, else None"""
        if e[0] == "call":
            c = e[1]
            if c[0] == "var" and c[1] not in env and c[1] in self.files[self.fname].fns:
                return self.need((self.fname, None, c[1])), None, e[2]
            if c[0] == "path" and len(c[1]) == 2 and c[1][0] in DC_MODULES and self.fname == "decode.rs":
                use, fn = DC_MODULES[c[1][0]]
                t = self.files["decode.rs"].toks
                if not any(t[i:i + len(use)] == use for i in range(len(t))):
                    self.err(f"`{c[1][0]}::` is used but `{' '.join(use)}` is not in decode.rs")
                if c[1][1] not in self.files[fn].fns:
                    self.err(f"{fn}: fn {c[1][1]} not found")
                return self.need((fn, None, c[1][1])), None, e[2]
            return None
        if e[0] == "mcall":
            rt = self.typeof(e[1], env, None)
            if isinstance(rt, tuple) and rt[0] == "st":
                X, name = rt[1], e[2]
                if ("Decode", X) in self.files["decode.rs"].impls and (name in self.files["decode.rs"].impls[("Decode", X)]
                                                                      or name in self.trait_defaults):
                    return self.need(("decode.rs", X, name)), e[1], e[3]
                if X in T.WR_GENERATED and not self.trivial_accessor(X, name):
                    return self.need(("datatype.rs", X, name)), e[1], e[3]
            return None
        return None

    def trivial_accessor(self, X, m):
        dt = self.files["datatype.rs"]
        tab = dt.impls.get((None, X))
        if tab is None or m not in tab:
            self.err(f"datatype.rs: fn {X}::{m} not found")
        rec = tab[m]
        if rec["body"] is None:
            self.err(f"datatype.rs: fn {X}::{m} has no body")
        lo, hi = rec["body"]
        b = dt.toks[lo + 1:hi - 1]
        if b and b[0] == "&":
            b = b[1:]
        return len(b) == 3 and b[0] == "self" and b[1] == "."

    def do_call(self, rec, recv, args, env, k, hint):
        """evaluate receiver and arguments, emit the call; a `&mut` argument is rebound to the callee's result"""
        plain = [p for p in rec["params"] if p["kind"] != "self"]
        if len(plain) != len(args):
            self.err(f"{rec['lean']}: {len(args)} arguments for {len(plain)} parameters")
        leans = []
        mut_name = None

        def finish():
            nonlocal mut_name
            al = " ".join(leans)
            if rec["pure"]:
                return k(DV(f"({rec['lean']} {al})".replace(" )", ")"), rec["ret"]))
            term = f"{rec['lean']} dbg {al}".strip()
            if rec["mut"] is not None:
                if rec["ret"] != "unit":
                    self.err(f"{rec['lean']}: a `&mut` parameter and a return value")
                return self.bind(term, env[mut_name].ty, lambda v: k(DV("()", "unit")), hint=mut_name)
            return self.bind(term, rec["ret"], k, hint)

        def arg(i):
            nonlocal mut_name
            if i == len(plain):
                return finish()
            p, a = plain[i], args[i]
            if p["mutref"]:
                x = a
                while x[0] == "paren" or (x[0] == "un" and x[1] in ("&", "*")):
                    x = x[1] if x[0] == "paren" else x[2]
                if x[0] != "var" or x[1] not in env:
                    self.err(f"{rec['lean']}: the `&mut` argument is not a local variable")
                v = env[x[1]]
                if not self.ty_ok(v.ty, p["ty"]):
                    self.err(f"{rec['lean']}: `&mut` argument of type {v.ty!r} for {p['ty']!r}")
                mut_name = x[1]
                self.note_mut(mut_name)
                leans.append(par(v.lean))
                return arg(i + 1)

            def got(v):
                if not self.ty_ok(v.ty, p["ty"]):
                    self.err(f"{rec['lean']}: argument `{p['name']}` of type {v.ty!r} for {p['ty']!r}")
                leans.append(par(v.lean))
                return arg(i + 1)
            want = p["ty"] if self.is_int(p["ty"]) else None
            return self.tx(a, env, want, got)

        if rec["self"]:
            if recv is None:
                self.err(f"{rec['lean']} called without a receiver")

            def got_self(r):
                if r.ty != ("st", rec["owner"]):
                    self.err(f"{rec['lean']}: receiver of type {r.ty!r}")
                leans.append(self.call_args(r))
                return arg(0)
            return self.tx(recv, env, None, got_self)
        return arg(0)

    def ty_ok(self, actual, formal):
        if actual == formal:
            return True
        if isinstance(formal, tuple) and formal[0] == "tvar":
            bound = self.fn_generics_of_callee.get(formal[1], "")
            return self.is_int(actual) and self.bits(actual) <= 64 and not (actual in ("u64", "usize")) and "Into<i64>" in bound
        if isinstance(formal, tuple) and isinstance(actual, tuple) and formal[0] == actual[0] == "list":
            return self.ty_ok(actual[1], formal[1])
        return False

    def tx_call(self, e, env, want, k, hint):
        r = self.resolve(e, env)
        if r is not None:
            rec, recv, args = r
            self.fn_generics_of_callee = rec["generics"]
            return self.do_call(rec, recv, args, env, k, hint)
        c = e[1]
        if c[0] == "path" and len(c[1]) == 2 and c[1][1] == "from" and (c[1][0] in T.HDR_BITS or c[1][0] in T.WR_SBITS) and len(e[2]) == 1:
            self.reading("from")
            return self.tx(e[2][0], env, None, lambda a: k(self.widen(a, c[1][0], f"{c[1][0]}::from")))
        if c[0] == "qpath" and len(e[2]) == 1:
            tname, trait, f = c[1], c[2], c[3]
            m = re.fullmatch(r"Into<(\w+)>", trait)
            if tname in self.generics and m and f == "into" and (m.group(1) in T.HDR_BITS or m.group(1) in T.WR_SBITS):
                self.reading("from")

                def conv(a):
                    if a.ty != ("tvar", tname):
                        self.err(f"<{tname} as {trait}>::into of a value of type {a.ty!r}")
                    return k(self.widen(a, m.group(1), f"<{tname} as {trait}>::into"))
                return self.tx(e[2][0], env, None, conv)
            self.err(f"qualified call `<{tname} as {trait}>::{f}`")
        nm = "::".join(c[1]) if c[0] == "path" else c[1] if c[0] == "var" else c[0]
        self.err(f"call of `{nm}`")

    def tx_mcall(self, e, env, want, k, hint):
        recv, name, args = e[1], e[2], e[3]
        if len(e) > 4 and e[4] is not None:
            self.err(f"generic arguments on `.{name}`")
        r = self.resolve(e, env)
        if r is not None:
            rec, rcv, a = r
            self.fn_generics_of_callee = rec["generics"]
            return self.do_call(rec, rcv, a, env, k, hint)

        def on(r):
            ty = r.ty
            if isinstance(ty, tuple) and ty[0] == "st":
                X = ty[1]
                self.wr.where, self.wr.owner = self.where, self.owner
                v = self.wr.accessor(T.WV(r.lean, r.ty, None, None, r.view), name, args)
                self.used_acc.add((X, name))
                return k(DV(v.lean, v.ty, None, v.view))
            if isinstance(ty, tuple) and ty[0] == "hdr":
                ln = f"{ty[1]}.{name}"
                if ln not in T.HDR_DONE:
                    self.err(f"`{ty[1]}::{name}` is not among the functions translated by part `headers`")
                ptys, rty, has_ex = T.HDR_DONE[ln]
                if rty == "writes" or args or ptys:
                    self.err(f"`{ty[1]}::{name}`: only argument-free value functions of part `headers` are read")
                if isinstance(rty, tuple) and rty[0] == "opt" and isinstance(rty[1], tuple):
                    self.err(f"`{ty[1]}::{name}`: return type {rty!r}")
                self.used_hdr.add(ln)
                val = f"FlacVerif.Gen.Headers.{ln} {par(r.lean)}"
                if has_ex:
                    self.reading("hdr")
                    return self.bind(f"hdrVal (FlacVerif.Gen.Headers.{ln}_exact {par(r.lean)}) ({val})", rty, k, hint)
                return k(DV(f"({val})", rty))
            if isinstance(ty, tuple) and ty[0] == "list":
                if name == "len" and not args:
                    self.reading("vec")
                    return k(DV(f"{par(r.lean)}.length", "usize"))
                if name == "iter" and not args:
                    return k(r)
            if isinstance(ty, tuple) and ty[0] == "opt":
                if name == "expect" and len(args) == 1 and args[0][0] == "str":
                    self.reading("expect")
                    return self.bind(f"expect {par(r.lean)}", ty[1], k, hint)
            if self.is_s(ty) and name == "unsigned_abs" and not args:
                self.reading("vec")
                return k(DV(f"{par(r.lean)}.natAbs", "u" + ty[1:]))
            if self.is_int(ty) and name in ("wrapping_add", "wrapping_sub", "wrapping_mul") and len(args) == 1:
                # std: wrapping in BOTH profiles
                self.reading("wrapping")
                sym = {"wrapping_add": "+", "wrapping_sub": "-", "wrapping_mul": "*"}[name]
                w = self.bits(ty)

                def wr_(b):
                    if b.ty != ty:
                        self.err(f"`.{name}` of a {b.ty!r} on a {ty!r}")
                    if self.is_s(ty):
                        return k(DV(f"(wrapS {w} ({r.lean} {sym} {b.lean}))", ty))
                    return k(DV(f"(castU {w} (({r.lean} : Int) {sym} ({b.lean} : Int)))", ty))
                return self.tx(args[0], env, ty, wr_)
            self.err(f"method `.{name}(..)` on a value of type {ty!r}")
        return self.tx(recv, env, None, on)

    # ------------------------------------------------------------------ statements
    def root_var(self, e):
        while e[0] in ("paren", "index", "field") or (e[0] == "un" and e[1] in ("*", "&")):
            e = e[2] if e[0] == "un" else e[1]
        return e[1] if e[0] == "var" else None

    def assigned(self, node, env):
        """outer variables (in order of first mutation) mutated inside `node`"""
        out = []

        def add(n, loc):
            if n is not None and n not in loc and n in env and n not in out:
                out.append(n)

        def blk(b, loc, env_):
            loc = set(loc)
            env_ = dict(env_)
            for st in b[1]:
                stmt(st, loc, env_)
            if b[2] is not None:
                stmt(b[2], loc, env_)

        def stmt(st, loc, env_):
            kd = st[0]
            if kd == "let":
                expr(st[3], loc, env_)
                pat = st[1]
                if pat[0] != "bind":
                    self.err("tuple pattern in `let`")
                loc.add(pat[1])
                env_[pat[1]] = T.WrVar(T.wr_mangle(pat[1]), None)
            elif kd == "assign":
                add(self.root_var(st[2]), loc)
                expr(st[2], loc, env_)
                expr(st[3], loc, env_)
            else:
                expr(st, loc, env_)

        def pat_names(p):
            if isinstance(p, tuple) and p and p[0] == "tup":
                out_ = []
                for q in p[1]:
                    out_ += pat_names(q)
                return out_
            return [p]

        def expr(e, loc, env_):
            if not isinstance(e, tuple) or not e:
                if isinstance(e, list):
                    for x in e:
                        expr(x, loc, env_)
                return
            kd = e[0]
            if kd == "block":
                blk(e, loc, env_)
            elif kd == "for":
                expr(e[2], loc, env_)
                ns = pat_names(e[1])
                env2 = dict(env_)
                for n in ns:
                    env2[n] = T.WrVar(T.wr_mangle(n), None)
                blk(e[3], set(loc) | set(ns), env2)
            elif kd == "match":
                expr(e[1], loc, env_)
                for alts, guard, body in e[2]:
                    # binders of the patterns shadow
                    names = set()
                    for a in alts:
                        if a[0] == "variant":
                            names |= {sp[1] for sp in a[2] if sp[0] == "bind"}
                        elif a[0] == "bind":
                            names.add(a[1])
                    expr(body, set(loc) | names, env_)
            elif kd == "closure":
                self.err("closure")
            elif kd in ("let", "assign"):
                stmt(e, loc, env_)
            elif kd == "mcall":
                if e[2] in ("push", "fill", "copy_from_slice"):
                    add(self.root_var(e[1]), loc)
                self.mut_args(e, loc, add)
                expr(e[1], loc, env_)
                expr(e[3], loc, env_)
            elif kd == "call":
                self.mut_args(e, loc, add)
                expr(e[2], loc, env_)
            else:
                for x in e[1:]:
                    if isinstance(x, (tuple, list)):
                        expr(x, loc, env_)

        expr(node, set(), env)
        return out

    def mut_args(self, e, loc, add):
        """`&mut x` arguments: syntactically `&mut` is not kept by the parser, so every argument that is a plain local
        (or `&`/`*` of one) and is passed to a parameter declared `&mut` counts; the declaration is looked up by NAME of
        the callee among the functions this part translates"""
        name = e[2] if e[0] == "mcall" else (e[1][1] if e[1][0] == "var" else e[1][1][-1] if e[1][0] == "path" else None)
        args = e[3] if e[0] == "mcall" else e[2]
        cands = []
        dc = self.files["decode.rs"]
        for (tr, o), tab in dc.impls.items():
            if name in tab:
                cands.append(tab[name])
        if name in self.trait_defaults:
            cands.append(self.trait_defaults[name])
        for fn in self.files.values():
            if name in fn.fns:
                cands.append(fn.fns[name])
        for rec in cands:
            plain = [p for p in rec["params"] if p not in (["self"], ["&", "self"], ["&", "mut", "self"])]
            for p, a in zip(plain, args):
                if p[2:4] == ["&", "mut"]:
                    add(self.root_var(a), loc)

    def state_pat(self, names):
        ls = [T.wr_mangle(n) for n in names]
        if not ls:
            return "()"
        return ls[0] if len(ls) == 1 else "(" + ", ".join(ls) + ")"

    def walk(self, stmts, tail, env, fin, ret_ty):
        def go(i, env_):
            if i == len(stmts):
                if tail is None:
                    return fin(env_, None)
                tt = "unit" if tail[0] in ("for", "assert") else self.typeof(tail, env_, ret_ty)
                if tt == "unit":
                    return self.stmt(tail, env_, lambda env2: fin(env2, None), True)
                return self.tx(tail, env_, ret_ty, lambda v: fin(env_, v))
            last = i == len(stmts) - 1 and tail is None
            return self.stmt(stmts[i], env_, lambda env2: go(i + 1, env2), last)
        return go(0, dict(env))

    def stmt(self, st, env, rest, last=False):
        kd = st[0]
        if kd == "let":
            pat, ty, val = st[1], st[2], st[3]
            if pat[0] != "bind":
                self.err("tuple pattern in `let`")
            name = pat[1]
            if name in DC_RESERVED:
                self.err(f"local `{name}` collides with a name of the generated prelude")
            dty = self.rty(ty) if ty is not None else None

            def bound(v):
                vt = v.ty
                if dty is not None:
                    if vt is not None and vt != dty and not (isinstance(vt, tuple) and vt[0] == "list" and vt[1] is None):
                        self.err(f"`let {name}`: declared {dty!r}, value of type {vt!r}")
                    vt = dty
                if vt is None:
                    self.err(f"`let {name}`: type not determined")
                env2 = dict(env)
                ln = T.wr_mangle(name)
                var = T.WrVar(ln, vt, None, v.view, pat[2])
                env2[name] = var
                if v.view is not None:
                    return rest(env2)
                if v.lean == ln:
                    return rest(env2)
                if isinstance(vt, tuple) and vt[0] == "list" and vt[1] is None:
                    # element type determined by a later `push`: patched in when the function is complete
                    key = f"⟪{name}:{self.fresh('p')}⟫"
                    self.patches[key] = var
                    return f"let {ln} : {key} := {v.lean}\n{rest(env2)}"
                return f"let {ln} : {self.lty(vt)} := {v.lean}\n{rest(env2)}"
            return self.tx(val, env, dty, bound, hint=name)
        if kd == "assign":
            return self.st_assign(st, env, rest)
        if kd == "assert":
            self.reading("assert")
            # assert!: both profiles; debug_assert!: dev profile only
            return self.tx(st[1], env, "bool", lambda c: self.bind(
                f"req (!dbg || {c.lean})" if st[2] else f"req {c.lean}", "unit", lambda _: rest(env), hint="_"))
        if kd == "for":
            return self.st_for(st, env, rest)
        if kd in ("if", "match"):
            return self.st_branch(st, env, rest, last)
        if kd == "block":
            return self.walk(st[1], st[2], env, lambda env2, v: rest(env), "unit")
        if kd == "mcall" and st[2] == "push" and len(st[3]) == 1:
            x = st[1]
            while x[0] == "paren":
                x = x[1]
            if x[0] != "var" or x[1] not in env:
                self.err("`.push` on something other than a local vector")
            var = env[x[1]]
            if not (isinstance(var.ty, tuple) and var.ty[0] == "list"):
                self.err(f"`.push` on a value of type {var.ty!r}")
            self.reading("vec")
            self.note_mut(x[1])

            def pushed(v):
                if var.ty[1] is None:
                    var.ty = ("list", v.ty)
                elif var.ty[1] != v.ty:
                    self.err(f"`.push` of a {v.ty!r} onto a vector of {var.ty[1]!r}")
                return f"let {var.lean} := {var.lean} ++ [{v.lean}]\n{rest(env)}"
            return self.tx(st[3][0], env, var.ty[1], pushed)
        if kd == "mcall" and st[2] in ("fill", "copy_from_slice") and len(st[3]) == 1 and st[1][0] == "index" and st[1][2][0] == "range":
            x = st[1][1]
            while x[0] == "paren":
                x = x[1]
            if x[0] != "var" or x[1] not in env:
                self.err(f"`[..].{st[2]}` on something other than a local slice")
            var = env[x[1]]
            if not (isinstance(var.ty, tuple) and var.ty[0] == "list"):
                self.err(f"`[..].{st[2]}` on a value of type {var.ty!r}")
            self.reading("index")
            self.note_mut(x[1])
            a_, b_ = st[1][2][1], st[1][2][2]

            def rng(a):
                def rng2(b):
                    def val(v):
                        if st[2] == "fill":
                            if v.ty != var.ty[1]:
                                self.err(f"`.fill` of a {v.ty!r} into a slice of {var.ty[1]!r}")
                            f = "sliceFill"
                        else:
                            if v.ty != var.ty:
                                self.err(f"`.copy_from_slice` of a {v.ty!r} into a slice of {var.ty[1]!r}")
                            f = "sliceCopy"
                        return self.bind(f"{f} {var.lean} {par(a.lean)} {par(b.lean)} {par(v.lean)}", var.ty, lambda _: rest(env), hint=x[1])
                    return self.tx(st[3][0], env, var.ty[1] if st[2] == "fill" else None, val)
                return self.tx(b_, env, "usize", rng2)
            return self.tx(a_, env, "usize", rng)
        if kd in ("call", "mcall"):
            return self.tx(st, env, None, lambda v: rest(env))
        self.err(f"statement kind `{kd}`")

    def st_assign(self, st, env, rest):
        op, lhs, rhs = st[1], st[2], st[3]
        while lhs[0] == "paren":
            lhs = lhs[1]
        root = self.root_var(lhs)
        if root is None or root not in env:
            self.err("assignment to something other than a local variable or an element of one")
        var = env[root]
        self.note_mut(root)
        if not var.mut and lhs[0] == "var":
            self.err(f"assignment to the immutable local `{root}`")
        lt = self.typeof(lhs, env, None)
        whole = lhs[0] == "var"
        if op == "=":
            value = lambda k: self.tx(rhs, env, lt, k, hint=root if whole else None)
        else:
            bop = op[:-1]
            if bop not in ("+", "-", "*", "<<", ">>", "&", "|", "^"):
                self.err(f"compound assignment `{op}`")
            value = lambda k: self.tx(("bin", bop, lhs, rhs), env, lt, k, hint=root if whole else None)

        def store(path, v, done):
            """store v into the place `path` (list of index ASTs below the root variable)"""
            if not path:
                if v.lean == var.lean:
                    return done()
                return f"let {var.lean} : {self.lty(var.ty)} := {v.lean}\n{done()}"
            # evaluate the outer containers, set innermost, write back outwards

            def descend(cur, cty, idxs, k, top=False):
                # cur: lean of the container at this level
                i_ast = idxs[0]
                hint_ = root if top else None

                def got_i(i):
                    if i.ty != "usize":
                        self.err(f"index of type {i.ty!r}")
                    if not (isinstance(cty, tuple) and cty[0] == "list"):
                        self.err(f"indexed assignment into a value of type {cty!r}")
                    self.reading("index")
                    if len(idxs) == 1:
                        return self.bind(f"setAt {par(cur)} {par(i.lean)} {par(v.lean)}", cty, k, hint_)
                    return self.bind(f"{par(cur)}[{i.lean}]?", cty[1], lambda row: descend(
                        row.lean, cty[1], idxs[1:], lambda row2: self.bind(
                            f"setAt {par(cur)} {par(i.lean)} {par(row2.lean)}", cty, k, hint_)))
                if i_ast[0] == "range":
                    self.err("assignment to a slice range")
                return self.tx(i_ast, env, "usize", got_i)
            return descend(var.lean, var.ty, path, lambda nv: done() if nv.lean == var.lean else
                           f"let {var.lean} : {self.lty(var.ty)} := {nv.lean}\n{done()}", True)

        path = []
        x = lhs
        while x[0] != "var":
            if x[0] == "index":
                path.insert(0, x[2])
                x = x[1]
            elif x[0] == "paren":
                x = x[1]
            elif x[0] == "un" and x[1] == "*":
                x = x[2]
            else:
                self.err("assignment target")
        return value(lambda v: self.check_store(v, lt, store(path, v, lambda: rest(env))))

    def check_store(self, v, lt, text):
        if v.ty != lt:
            self.err(f"assignment of a {v.ty!r} to a place of type {lt!r}")
        return text

    def loop_source(self, it, env, k):
        """-> k(lean list, element type | ("pair", idx type, element type))"""
        if it[0] == "range":
            self.reading("loop")
            return self.tx(it[1], env, "usize", lambda a: self.tx(it[2], env, "usize", lambda b: self.k_range(a, b, k)))
        if it[0] == "mcall" and it[2] == "enumerate" and not it[3] and it[1][0] == "mcall" and it[1][2] == "iter" and not it[1][3]:
            self.reading("loop")

            def en(xs):
                if not (isinstance(xs.ty, tuple) and xs.ty[0] == "list"):
                    self.err(f".iter().enumerate() on a value of type {xs.ty!r}")
                return k(f"(enumerate {par(xs.lean)})", ("pair", "usize", xs.ty[1]))
            return self.tx(it[1][1], env, None, en)

        def plain(xs):
            if not (isinstance(xs.ty, tuple) and xs.ty[0] == "list"):
                self.err(f"`for` over a value of type {xs.ty!r}")
            return k(xs.lean, xs.ty[1])
        return self.tx(it, env, None, plain)

    def k_range(self, a, b, k):
        if a.ty != "usize" or b.ty != "usize":
            self.err(f"range bounds of types {a.ty!r} / {b.ty!r}")
        return k(f"(rangeL {par(a.lean)} {par(b.lean)})", "usize")

    def st_for(self, st, env, rest):
        pat, it, body = st[1], st[2], st[3]
        state = self.assigned(body, env)
        for n in state:
            if isinstance(env[n].ty, tuple) and env[n].ty[0] == "list" and env[n].ty[1] is None:
                pass
        sp = self.state_pat(state)

        def src(xs, ety):
            env2 = dict(env)
            if isinstance(pat, tuple):
                if pat[0] != "tup" or len(pat[1]) != 2 or not (isinstance(ety, tuple) and ety[0] == "pair") \
                        or any(isinstance(q, tuple) for q in pat[1]):
                    self.err("tuple pattern of `for` over something other than `.iter().enumerate()`")
                ns = list(pat[1])
                for n, t_ in zip(ns, ety[1:]):
                    if n != "_":
                        self.bind_loop_var(env2, n, t_)
                lp = "(" + ", ".join("_" if n == "_" else T.wr_mangle(n) for n in ns) + ")"
            else:
                if isinstance(ety, tuple) and ety[0] == "pair":
                    self.err("`.enumerate()` needs a tuple pattern")
                if pat != "_":
                    self.bind_loop_var(env2, pat, ety)
                lp = "_" if pat == "_" else T.wr_mangle(pat)
            self.frames.append((set(state), set(env)))
            try:
                b = self.walk(body[1], body[2], env2, lambda env3, v: f"some {sp}", "unit")
            finally:
                self.frames.pop()
            if self.pure_mode and not self.dry:
                raise Impure()
            self.fallible = True
            return f"(loopM {xs} {sp} fun {lp} {sp} =>\n{ind(b, 4)}).bind fun {sp} =>\n{rest(env)}"
        return self.loop_source(it, env, src)

    def bind_loop_var(self, env2, n, ty):
        if n in DC_RESERVED:
            self.err(f"local `{n}` collides with a name of the generated prelude")
        view = None
        lean = T.wr_mangle(n)
        if isinstance(ty, tuple) and ty[0] == "st" and ty[1] in T.WR_MODEL and T.WR_MODEL[ty[1]]["kind"] == "ctor":
            self.err(f"loop variable of the view type {ty[1]}")
        env2[n] = T.WrVar(lean, ty, None, view, False)

    def st_branch(self, st, env, rest, last):
        """`if` / `match` statement.  In last position the continuation goes into every arm; otherwise the arms
        return the values of the variables they mutate"""
        if last:
            fin_arm = lambda env2, v: rest(env)
            wrap = lambda text: text
        else:
            state = self.assigned(st, env)
            sp = self.state_pat(state)
            fin_arm = lambda env2, v: f"some {sp}"

            def wrap(text):
                if self.pure_mode and not self.dry:
                    raise Impure()
                self.fallible = True
                return f"({text}).bind fun {sp} =>\n{rest(env)}"

        def arm(body, env2):
            if not last:
                self.frames.append((set(state), set(env)))
            try:
                if body[0] == "block":
                    return self.walk(body[1], body[2], env2, fin_arm, "unit")
                return self.stmt(body, env2, lambda env3: fin_arm(env3, None), True)
            finally:
                if not last:
                    self.frames.pop()
        if st[0] == "if":
            def c(cv):
                if cv.ty != "bool":
                    self.err("condition of `if` is not a boolean")
                a = arm(st[2], env)
                b = arm(st[3], env) if st[3] is not None else fin_arm(env, None)
                return wrap(f"if {cv.lean} then\n{ind(a)}\nelse\n{ind(b)}")
            return self.tx(st[1], env, "bool", c)

        def arms_(sl, arms):
            rows = [f"| {pat.strip()} =>\n{ind(arm(body, env2), 4)}" for pat, env2, body in arms]
            return wrap(f"match {sl} with\n" + "\n".join(rows))
        return self.match_arms(st, env, arms_)

    # ------------------------------------------------------------------ functions
    def need(self, key):
        """translate (on demand) and return the record of the function `key` = (file, owner | None, name)"""
        if key in self.fns:
            return self.fns[key]
        if key in self.stack:
            self.err(f"recursive call of {key[1] or ''}::{key[2]}")
        saved = (self.where, self.owner, self.generics, self.counter, self.fallible, self.pure_mode, self.taken,
                 getattr(self, "fname", None), self.patches, self.dry, self.frames)
        self.stack.append(key)
        try:
            self.dry = 0
            self.frames = []
            rec = self.translate(key)
        finally:
            self.stack.pop()
            (self.where, self.owner, self.generics, self.counter, self.fallible, self.pure_mode, self.taken,
             self.fname, self.patches, self.dry, self.frames) = saved
        return rec

    def find(self, key):
        fname, owner, name = key
        items = self.files[fname]
        if owner is None:
            rec = items.fns.get(name)
            what = f"{fname}: fn {name}"
        elif fname == "decode.rs":
            tab = items.impls.get(("Decode", owner))
            if tab is None:
                fail(f"decode.rs: impl Decode for {owner} not found")
            rec = tab.get(name)
            if rec is None and name in self.trait_defaults:
                rec = self.trait_defaults[name]
            what = f"decode.rs: fn {owner}::{name}"
        else:
            tab = items.impls.get((None, owner))
            rec = tab.get(name) if tab else None
            what = f"{fname}: fn {owner}::{name}"
        if rec is None:
            fail(f"{what} not found")
        if rec["body"] is None:
            fail(f"{what}: no body")
        if any(a.startswith("#[cfg") for a in rec["attrs"]):
            fail(f"{what}: conditionally compiled function")
        return rec, what

    def parse_generics(self, toks, what):
        """`<T: A + B, U: C>` -> {T: "A+B", ..}; lifetimes / const generics are not read"""
        if not toks:
            return {}
        inner = toks[1:-1] if toks[-1] == ">" else None
        if inner is None:
            fail(f"{what}: generic parameter list")
        out = {}
        for p in T.wr_split_top(inner):
            if not p or p[0] in ("const",) or p[0].startswith("'"):
                fail(f"{what}: generic parameter `{' '.join(p)}`")
            if len(p) == 1:
                out[p[0]] = ""
            elif p[1] == ":":
                out[p[0]] = "".join(p[2:])
            else:
                fail(f"{what}: generic parameter `{' '.join(p)}`")
        return out

    def translate(self, key):
        fname, owner, name = key
        rec, what = self.find(key)
        self.fname = fname
        self.where = what
        self.owner = owner
        self.generics = self.parse_generics(rec["generics"], what)
        for g, b in self.generics.items():
            if "Into<i64>" not in b.split("+"):
                self.err(f"generic parameter {g} with the bounds `{b}` (only `Into<i64>` integer types are read)")
        items = self.files[fname]
        lo, hi = rec["body"]
        self.taken = set(items.toks[lo:hi])
        lname = f"{owner}.{name}" if owner else name
        params = []
        env = {}
        lparams = []
        mut = None
        has_self = False
        for p in rec["params"]:
            if p in (["self"], ["&", "self"]):
                if owner is None:
                    self.err("self parameter in a free function")
                has_self = True
                self.wr.where, self.wr.owner = self.where, self.owner
                lp, sv = self.wr.self_value(owner)
                if owner in T.WR_GENERATED:
                    lp = [f"(self : FlacVerif.Gen.Writer.{owner})"]
                lparams += lp
                env["self"] = T.WrVar(sv.lean, sv.ty, None, sv.view)
                params.append({"kind": "self"})
                continue
            if p[:1] == ["mut"] or p[:3] == ["&", "mut", "self"]:
                self.err(f"parameter `{' '.join(p)}`")
            if len(p) < 3 or p[1] != ":":
                self.err(f"parameter `{' '.join(p)}`")
            pn, pt = p[0], p[2:]
            if pn in DC_RESERVED:
                self.err(f"parameter `{pn}` collides with a name of the generated prelude")
            mutref = pt[:2] == ["&", "mut"]
            ty = self.rty(pt)
            if isinstance(ty, tuple) and ty[0] == "st" and ty[1] in T.WR_MODEL and T.WR_MODEL[ty[1]]["kind"] in ("ctor", "part"):
                self.err(f"parameter of the view type {ty[1]}")
            if mutref:
                if mut is not None:
                    self.err("two `&mut` parameters")
                mut = pn
            env[pn] = T.WrVar(T.wr_mangle(pn), ty, None, None, mutref)
            params.append({"kind": "plain", "name": pn, "ty": ty, "mutref": mutref})
            lparams.append(f"({T.wr_mangle(pn)} : {self.lty(ty)})")
        ret = self.rty(rec["ret"])
        if mut is not None and ret != "unit":
            self.err("a `&mut` parameter and a return value")
        ps = self.Parser(items.toks, lo, hi, self.where, None)
        body = ps.block()
        if ps.p != hi:
            self.err("trailing tokens after the body")

        def run(pure):
            self.counter = 0
            self.fallible = False
            self.pure_mode = pure
            self.patches = {}

            def fin(env2, v):
                if mut is not None:
                    out = env2[mut].lean
                elif ret == "unit":
                    out = "()"
                else:
                    if v is None:
                        self.err("missing return value")
                    if v.ty != ret:
                        self.err(f"returns a value of type {v.ty!r}, declared {ret!r}")
                    out = v.lean
                return out if pure else f"some {out}"
            text = self.walk(body[1], body[2], env, fin, ret)
            for key_, var in self.patches.items():
                text = text.replace(key_, self.lty(var.ty))
            return text

        text = run(False)
        pure = not self.fallible
        if pure:
            text = run(True)
        out_ty = self.lty(env[mut].ty) if mut is not None else self.lty(ret)
        src = {"decode.rs": "decode.rs", "rice.rs": "rice.rs", "datatype.rs": "datatype.rs"}[fname]
        title = f"`Decode for {owner}::{name}`" if (fname == "decode.rs" and owner) else f"`{owner + '::' if owner else ''}{name}`"
        doc = f"/-- {title} ({src})"
        if fname == "decode.rs" and owner and name in self.trait_defaults and name not in self.files["decode.rs"].impls[("Decode", owner)]:
            doc += f": the default method of the trait `Decode`, instantiated for {owner}"
        if mut is not None:
            doc += f"; the result is the final content of `{mut}`"
        doc += " -/"
        head = f"def {lname} " + " ".join((["(dbg : Bool)"] if not pure else []) + lparams)
        head = head.rstrip() + f" : {out_ty if pure else 'Option ' + par(out_ty)} :="
        L = [doc, head, ind(text), ""]
        r = {"key": key, "lean": lname, "params": params, "ret": ret, "pure": pure, "mut": mut, "self": has_self, "owner": owner,
             "generics": dict(self.generics)}
        self.fns[key] = r
        self.order.append(key)
        self.out[key] = "\n".join(L)
        if fname == "datatype.rs":
            self.on_demand.append(f"{owner}::{name}")
        return r


DC_PRELUDE = '''/-- `xs[i] = v` (panics iff `i >= len`) -/
def setAt {α : Type} (xs : List α) (i : Nat) (v : α) : Option (List α) := if i < xs.length then some (xs.set i v) else none

/-- `&xs[a..b]` (panics unless `a <= b <= len`) -/
def sliceR {α : Type} (xs : List α) (a b : Nat) : Option (List α) :=
  if a ≤ b ∧ b ≤ xs.length then some ((xs.take b).drop a) else none

/-- `xs[a..b].fill(v)` -/
def sliceFill {α : Type} (xs : List α) (a b : Nat) (v : α) : Option (List α) :=
  if a ≤ b ∧ b ≤ xs.length then some (xs.take a ++ List.replicate (b - a) v ++ xs.drop b) else none

/-- `xs[a..b].copy_from_slice(src)` (additionally panics unless `src.len() == b - a`) -/
def sliceCopy {α : Type} (xs : List α) (a b : Nat) (src : List α) : Option (List α) :=
  if a ≤ b ∧ b ≤ xs.length ∧ src.length = b - a then some (xs.take a ++ src ++ xs.drop b) else none

/-- `assert!(c)` -/
def req (c : Bool) : Option Unit := if c then some () else none

/-- `Option::expect` -/
def expect {α : Type} (o : Option α) : Option α := o

/-- value of a function of part `headers` together with its `_exact` condition -/
def hdrVal {α : Type} (exact : Bool) (v : α) : Option α := if exact then some v else none

/-- `for x in xs { body }` with the mutated outer variables `s` threaded through the iterations -/
def loopM {α σ : Type} : List α → σ → (α → σ → Option σ) → Option σ
  | [], s, _ => some s
  | x :: xs, s, f => (f x s).bind fun s' => loopM xs s' f

/-- the values of `a..b` -/
def rangeL (a b : Nat) : List Nat := List.range' a (b - a)

def enumFrom {α : Type} : Nat → List α → List (Nat × α)
  | _, [] => []
  | i, x :: xs => (i, x) :: enumFrom (i + 1) xs

/-- `.iter().enumerate()` -/
def enumerate {α : Type} (xs : List α) : List (Nat × α) := enumFrom 0 xs

/-- reinterpretation of the low `w` bits as a two's complement value -/
def wrapS (w : Nat) (v : Int) : Int :=
  let m := v % (2 ^ w : Int)
  if m < (2 ^ (w - 1) : Int) then m else m - (2 ^ w : Int)

/-- `e as uW` of a signed value -/
def castU (w : Nat) (v : Int) : Nat := (v % (2 ^ w : Int)).toNat

/-- result `v` of a `+ - *` or negation on `iW`: the dev profile panics when it is out of range, release wraps -/
def arithS (dbg : Bool) (w : Nat) (v : Int) : Option Int :=
  if -(2 ^ (w - 1) : Int) ≤ v ∧ v < (2 ^ (w - 1) : Int) then some v else if dbg then none else some (wrapS w v)

/-- `a + b` on `uW` -/
def addU (dbg : Bool) (w a b : Nat) : Option Nat :=
  if a + b < 2 ^ w then some (a + b) else if dbg then none else some ((a + b) % 2 ^ w)

/-- `a - b` on `uW` -/
def subU (dbg : Bool) (w a b : Nat) : Option Nat :=
  if b ≤ a then some (a - b) else if dbg then none else some ((2 ^ w + a % 2 ^ w - b % 2 ^ w) % 2 ^ w)

/-- `a * b` on `uW` -/
def mulU (dbg : Bool) (w a b : Nat) : Option Nat :=
  if a * b < 2 ^ w then some (a * b) else if dbg then none else some ((a * b) % 2 ^ w)

/-- shift amount of `<<` / `>>` on a `W`-bit value: the dev profile panics iff `k >= W`, release masks it -/
def shAmt (dbg : Bool) (w k : Nat) : Option Nat := if k < w then some k else if dbg then none else some (k % w)

def shlU (w a k : Nat) : Nat := (a * 2 ^ k) % 2 ^ w
def shrU (a k : Nat) : Nat := a / 2 ^ k
def shlS (w : Nat) (a : Int) (k : Nat) : Int := wrapS w (a * (2 ^ k : Int))
/-- arithmetic shift -/
def shrS (a : Int) (k : Nat) : Int := a / (2 ^ k : Int)

/-- `a & b` on `iW` (two's complement) -/
def andS (w : Nat) (a b : Int) : Int := wrapS w (((castU w a) &&& (castU w b) : Nat) : Int)

/-- `a / b`, `a % b` on unsigned values -/
def divU (a b : Nat) : Option Nat := if b = 0 then none else some (a / b)
def remU (a b : Nat) : Option Nat := if b = 0 then none else some (a % b)
'''


def emit_decode(tmod, status):
    global T
    T = tmod
    comp = os.path.join(T.REPO, "src", "component")
    paths = {"decode.rs": os.path.join(comp, "decode.rs"), "datatype.rs": os.path.join(comp, "datatype.rs"),
             "rice.rs": os.path.join(T.REPO, "src", "rice.rs"), "bitrepr.rs": os.path.join(comp, "bitrepr.rs")}
    files = {}
    for fn, path in paths.items():
        if not os.path.exists(path):
            fail(f"{fn}: file not found")
        files[fn] = T.HdrItems(fn, T.hdr_lex(open(path).read(), fn))
    dc, dt = files["decode.rs"], files["datatype.rs"]
    if not T.HDR_DONE:
        fail("decode.rs: part `headers` did not run (Gen/Decode.lean uses Gen/Headers.lean)")
    if not T.WR_DONE:
        fail("decode.rs: part `writer` did not run (Gen/Decode.lean uses the structures of Gen/Writer.lean)")
    # the set of Decode impls and of their functions must be the one this part was written for
    impls = {o: t for (tr, o), t in dc.impls.items() if tr == "Decode"}
    if sorted(impls) != sorted(DC_IMPLS):
        fail(f"decode.rs: the types implementing Decode are {sorted(impls)}, expected {sorted(DC_IMPLS)}")
    other = [k for k in dc.impls if k[0] != "Decode"]
    if other:
        fail(f"decode.rs: unexpected impl blocks {other}")
    if sorted(dc.fns) != sorted(DC_FREE):
        fail(f"decode.rs: the free functions are {sorted(dc.fns)}, expected {sorted(DC_FREE)}")
    # the trait: its default methods
    t = dc.toks
    defaults = {}
    found = False
    for i in range(len(t) - 2):
        if t[i] == "trait" and t[i + 1] == "Decode":
            j = i + 2
            while t[j] != "{":
                j += 1
            end = dc.group_end(j)
            tab = {}
            dc.scan_fns(j + 1, end - 1, tab, "trait Decode")
            found = True
            for n, rec in tab.items():
                if rec["body"] is not None:
                    defaults[n] = rec
            required = sorted(n for n, rec in tab.items() if rec["body"] is None)
            if required != sorted(DC_IMPL_FNS) or sorted(defaults) != sorted(DC_TRAIT_DEFAULTS):
                fail(f"decode.rs: trait Decode requires {required} and provides {sorted(defaults)}, expected {sorted(DC_IMPL_FNS)} / "
                     f"{sorted(DC_TRAIT_DEFAULTS)}")
    if not found:
        fail("decode.rs: trait Decode not found")
    for o in DC_IMPLS:
        have = sorted(impls[o])
        if have != sorted(DC_IMPL_FNS):
            fail(f"decode.rs: impl Decode for {o} defines {have}, expected {sorted(DC_IMPL_FNS)}")
    for o in DC_IMPLS:
        clash = sorted(set(dt.impls.get((None, o), {})) & set(DC_IMPL_FNS + DC_TRAIT_DEFAULTS))
        if clash:
            fail(f"datatype.rs: {o} has inherent methods {clash} that shadow the methods of the trait Decode")
    gen_defs = T.wr_scan_types(dt, set(T.WR_GENERATED) | {"SubFrame"})
    wr = T.WrTx(files, gen_defs, {}, dict(T.HDR_DONE), set())
    wr.parse_gen_types()
    tx = DcTx(files, wr, status)
    tx.trait_defaults = defaults
    for n in DC_RICE:
        tx.need(("rice.rs", None, n))
    for o in ["Residual", "Constant", "Verbatim"]:
        for n in DC_IMPL_FNS + DC_TRAIT_DEFAULTS:
            tx.need(("decode.rs", o, n))
    for n in DC_FREE:
        tx.need(("decode.rs", None, n))
    for o in ["FixedLpc", "Lpc", "SubFrame", "Frame"]:
        for n in DC_IMPL_FNS + DC_TRAIT_DEFAULTS:
            tx.need(("decode.rs", o, n))
    usize = T.HDR_BITS["usize"]
    L = ["-- GENERATED by tools/translate.py (part `decode`, tools/translate_decode.py) from src/component/decode.rs, src/rice.rs and "
         "src/component/datatype.rs — do not edit",
         "/-",
         "Statement-by-statement mirror of the crate's own decoder: the trait `Decode` (default method `decode`), every",
         "`impl Decode for X` (`signal_len`, `copy_signal`), `decode_lpc`, and `rice::decode_signbit` / `encode_signbit`.",
         "",
         "A function that can panic is `f (dbg : Bool) args : Option R`: `none` = the Rust function panics before it returns.",
         "`dbg = true` is the dev profile (debug assertions / overflow checks on), `dbg = false` the release profile.  BOTH",
         "readings are this one term: every operation whose behaviour depends on the profile is a prelude function taking `dbg`:",
         "  a + b, a - b, a * b, -a, a += b   on uW: addU / subU / mulU dbg W a b;  on iW: arithS dbg W (a ∘ b)",
         "                                    dev: `none` when the exact result is not a W-bit value; release: the result reduced",
         "                                    mod 2^W (wrapS for signed types)",
         "  a << k, a >> k                    shAmt dbg W k: dev `none` iff k >= W, release k % W; then shlU / shlS (bits shifted out",
         "                                    are dropped in both profiles), shrU / shrS (`>>` on iW is arithmetic = floor division).",
         "                                    A literal amount < W needs no check.",
         "  e as T                            never panics: narrowing keeps the low bits (`% 2^W`), to a signed type of the same or a",
         "                                    smaller width it is wrapS, signed -> unsigned is castU (residue mod 2^W), widening is the value",
         "  a.wrapping_add(b) (_sub, _mul)    the result reduced mod 2^W in BOTH profiles (wrapS W (a + b) / castU W); none occurs in the",
         "                                    current source (any other method the translator does not know stops it)",
         "Profile-independent panics: xs[i] (`xs[i]?`), xs[i] = v (setAt), xs[a..b] (sliceR / sliceFill / sliceCopy), assert! (req),",
         "`/` and `%` by zero (divU / remU), Option::expect.  A step that cannot panic is a `let`.",
         "One Lean step per Rust operation, in the translator's left-to-right walk of each statement (for `a[i] op= e` the place is",
         "read first); since every panic is `none`, only the SET of panic conditions of a statement matters, not their order.",
         "`(step).bind fun x => rest` = `let x = step; rest` where `step`",
         "can panic.  A `&mut` parameter is threaded (the function returns its final value; an assignment shadows the name).",
         "`for` = `loopM` over the iterator's values with the mutated outer variables as state.  Functions in which no step can",
         "panic are plain functions without `dbg`.",
         "",
         f"Integers are `Nat` / `Int`; usize is taken as {usize} bits.  The domains of the inputs (u8 < 256, ..., Vec lengths) are NOT",
         "built in: theorems carry them as hypotheses.  Component values are those of part `writer`: the hand-written model's",
         "`Residual`, the constructor arguments of `FlacVerif.SubFrame` for Constant / Verbatim / FixedLpc / Lpc (accessor table",
         "WR_MODEL of the translator, each accessor's Rust body compared with datatype.rs), `FlacVerif.Gen.Writer.Frame` /",
         "`FrameHeader` (generated from datatype.rs), the enums of Gen/Headers.lean.  A value of a generic type `T: Into<i64>` is an `Int`.",
         "-/",
         "import FlacVerif.Model.Component",
         "import FlacVerif.Gen.Tables",
         "import FlacVerif.Gen.Headers",
         "import FlacVerif.Gen.Writer",
         "set_option linter.unusedVariables false",
         "namespace FlacVerif.Gen.Decode", "", DC_PRELUDE]
    for key in tx.order:
        L.append(tx.out[key])
    L.append("/- NOT translated by this part:")
    L.append("   src/component/parser.rs (the nom parser): out of scope; hand model Model/RepoParser.lean, theorems C15 / C16")
    L.append("   rice::encode_signbit_simd and the rest of rice.rs (parameter search): not part of the decoder")
    L.append("   BlockSizeSpec::block_size (datatype.rs): translated by part `headers` (dev-profile reading: value + `_exact`); used here")
    L.append("     through `hdrVal exact value`, i.e. `none` where `_exact` fails in BOTH profiles (the release-profile wrapping of")
    L.append("     `576usize * (1usize << x)` for absurd `x` is not modelled)")
    L.append("")
    L.append("   Helper methods of datatype.rs translated on demand: " + (", ".join(tx.on_demand) or "none"))
    L.append("   Tables generated by another part: " + (", ".join(f"{n} = {DC_TABLES[n][0]} (part `{DC_TABLES[n][2]}`)" for n in sorted(tx.used_tables)) or "none"))
    L.append("   Functions of part `headers` used: " + (", ".join(sorted(tx.used_hdr)) or "none"))
    L.append("   Accessors used (table WR_MODEL, reproduced at the end of Gen/Writer.lean; each compared with its body in datatype.rs,")
    L.append("     trivial `&self.field` accessors of the generated structs read from their bodies): "
             + ", ".join(f"{X}::{m}" for X, m in sorted(tx.used_acc)))
    L.append("   Readings built into the translator (trusted):")
    for r in DC_READINGS:
        L.append("     * " + r)
    L.append("-/")
    L += ["", "end FlacVerif.Gen.Decode", ""]
    return "\n".join(L)
